"""C09 - ensemble solvers return the best member and account for all work; the point generators behind them
(gridpts / lattice bin centres / samplepts / random_samples with a Distribution / randomly_bin / fillpts) enumerate the
full product / stay in their ranges; the members are fresh copies of the nested solver, which no solve advances.

Correspondence (bit-exact): real mystic.math.grid.gridpts / samplepts / randomly_bin, LatticeSolver._InitialPoints and
the ensemble's reduction (__update_bestSolver / __update_state / _total_evals, fed with the members' REAL
(bestEnergy, bestSolution, evaluations, generations, id)) vs lean Model/Ensemble.lean.  The random draws
(random.random sort keys, numpy.random.rand matrix) are recorded from / injected into the real run.
Monitor: the property itself on what the real code returns (independent of the model): itertools.product, exact
rational cell centres, real ensemble solves with every cost / constraints / penalty call attributed to its member."""
import sys, os, json, time, math, itertools, random as _random
from fractions import Fraction
import numpy as np
import common
from common import case_rng, fl, nl, f2b, b2f, same_float, same_vec, dyadic, gfloat, parse_reply, floats_of
import framework, leandrv, dsl, solvergen
from framework import Finding

PID = "C09"
MODULE = "MysticVerif.Props.C09"
THEOREMS = [
    "MysticVerif.C09.gridpts_spec",
    "MysticVerif.C09.gridpts_count",
    "MysticVerif.C09.gridpts_empty_q",
    "MysticVerif.C09.gridpts_empty_bin_witness",
    "MysticVerif.C09.lattice_bins_centres",
    "MysticVerif.C09.lattice_points_spec",
    "MysticVerif.C09.lattice_int_points_count",
    "MysticVerif.C09.samples_in_range",
    "MysticVerif.C09.samplepts_in_range",
    "MysticVerif.C09.dist_samples_in_range",
    "MysticVerif.C09.samplepts_dist_in_range",
    "MysticVerif.C09.clip_in_range",
    "MysticVerif.C09.strided_prod",
    "MysticVerif.C09.shuffle_perm",
    "MysticVerif.C09.factors_spec",
    "MysticVerif.C09.randomly_bin_spec",
    "MysticVerif.C09.randomly_bin_none_spec",
    "MysticVerif.C09.randomly_bin_zero",
    "MysticVerif.C09.update_best_min",
    "MysticVerif.C09.update_best_last_tie",
    "MysticVerif.C09.update_best_prev_irrelevant",
    "MysticVerif.C09.update_best_empty",
    # a reduction REPEATED over the same members (Step loops, Solve(step=True), Steps followed by Solve): `_bestSolver` threaded
    "MysticVerif.C09.reduce_seq_min",
    "MysticVerif.C09.reduce_seq_live_slots_kept",
    "MysticVerif.C09.totals",
    "MysticVerif.C09.member_count",
    "MysticVerif.C09.member_inherits",
    "MysticVerif.C09.init_members_fresh",
    "MysticVerif.C09.members_fresh_copies",
    "MysticVerif.C09.template_untouched",
    "MysticVerif.C09.ensembles_independent",
    # whole ensemble runs: members = closed loops of the solver model S (Model/EnsembleRun.lean)
    "MysticVerif.C09.ensemble_members_in_order",
    "MysticVerif.C09.ensemble_total_is_cost_calls",
    "MysticVerif.C09.ensemble_best_is_min_member",
    "MysticVerif.C09.ensemble_member_stops_truthfully",
    "MysticVerif.C09.nm_ensemble_total_is_cost_calls",
    "MysticVerif.C09.lattice_ensemble_members",
    "MysticVerif.C09.ens_steps_keep_slots",
    "MysticVerif.C09.finished_member_not_advanced",
    "MysticVerif.C09.member_steps_eq_run",
    "MysticVerif.C09.step_mode_eq_solve",
    "MysticVerif.C09.member_steps_then_solve",
    "MysticVerif.C09.steps_then_solve_eq_solve",
    # the one-liners lattice() / buckshot() / sparsity(): from the arguments to the members' configuration
    "MysticVerif.C09.oneliner_termination",
    "MysticVerif.C09.oneliner_members_inherit",
    "MysticVerif.C09.oneliner_kinds_agree",
    # fillpts / SparsitySolver._InitialPoints: the deterministic contract around the optimisation runs
    "MysticVerif.C09.fillpts_count",
    "MysticVerif.C09.fillpts_in_range",
    "MysticVerif.C09.holes_none_maximises_distance",
    "MysticVerif.C09.holes_tol_prefers_points_inside_the_radius",
]

STREAMS = ["grid", "lattice", "samples", "dsamples", "rbin", "ensemble", "ensrun", "enslead", "ensinh", "oneliner", "fill"]
ENS_STREAMS = ("ensemble", "ensrun", "enslead", "ensinh", "oneliner")


def vecf(x):
    return [float(v) for v in np.asarray(x, dtype=float).ravel()]


def fll(xss):
    return "(" + " ".join(fl(xs) for xs in xss) + ")"


def exc_enum(e):
    if isinstance(e, IndexError):
        return "index"
    if isinstance(e, ZeroDivisionError):
        return "zerodiv"
    if isinstance(e, TypeError):
        return "type"
    if isinstance(e, RuntimeError):
        return "runtime"
    if isinstance(e, ValueError):
        return "value"
    return "other:" + type(e).__name__


def pts_of(sx):
    return [floats_of(p) for p in sx]


def same_pts(a, b):
    return len(a) == len(b) and all(same_vec(p, q) for p, q in zip(a, b))


def unsign_zero(pts):
    """-0.0 -> 0.0: which zero numpy.clip returns when a drawn zero ties with a zero bound depends on numpy's kernel
    (constant-bounds fast path `x < lo ? lo : x` for one coordinate, `max(x, lo)` = `x > lo ? x : lo` for bound
    arrays); the two zeros are equal for every comparison the property and the resample loop make"""
    return [[0.0 if v == 0.0 else v for v in p] for p in pts]


def bump(hist, key, n=1):
    hist[key] = hist.get(key, 0) + n


# =================================================================== random-draw patches
class KeyRecorder:
    """random.random (looked up through the module by mystic.tools.random_state at call time) -> recorded keys;
    exact key ties are injected on purpose (stable-sort behaviour)"""

    def __init__(self, rng, ties=0.1):
        self.rng = rng; self.ties = ties; self.log = []

    def __enter__(self):
        self._orig = _random.random
        rec = self

        def rand():
            if rec.log and rec.rng.random() < rec.ties:
                v = rec.rng.choice(rec.log)
            else:
                v = rec.rng.random()
            rec.log.append(v)
            return v
        _random.random = rand
        return self

    def __exit__(self, *a):
        _random.random = self._orig


class RandPatch:
    """numpy.random.rand -> a chosen matrix (inject) or the real one, recorded"""

    def __init__(self, inject=None):
        self.inject = inject; self.log = []

    def __enter__(self):
        self._orig = np.random.rand
        rec = self

        def rand(*shape):
            if rec.inject is not None:
                a = np.array(rec.inject, dtype=float).reshape(shape)
            else:
                a = rec._orig(*shape)
            rec.log.append(a.copy())
            return a
        np.random.rand = rand
        return self

    def __exit__(self, *a):
        np.random.rand = self._orig


# =================================================================== stream: gridpts
def gen_value(rng, pool):
    if pool == "int":
        return float(rng.randint(-3, 3))
    if pool == "dyadic":
        return dyadic(rng, -4, 4, 4)
    return gfloat(rng, 6.0)


def gen_grid(rng):
    if rng.random() < 0.04:
        return {"q": []}
    nb = rng.choice([1, 1, 2, 2, 2, 3, 3, 4])
    pool = rng.choice(["int", "dyadic", "float"])
    q = []
    for _ in range(nb):
        n = rng.choice([0, 1, 1, 2, 3]) if rng.random() < 0.12 else rng.choice([1, 2, 2, 3, 3, 4, 5])
        q.append([gen_value(rng, pool) for _ in range(n)])
    return {"q": q}


def impl_grid(c):
    from mystic.math.grid import gridpts
    try:
        pts = gridpts([list(b) for b in c["q"]])
    except Exception as e:
        return {"err": exc_enum(e)}
    return {"pts": [vecf(p) for p in pts]}


def line_grid(c):
    return "C09 grid (q (%s))" % " ".join(fl(b) for b in c["q"])


def monitor_grid(c, obs):
    """grid points enumerate the full Cartesian product of the bins, in order; count = product of the bin sizes"""
    out = []
    q = c["q"]
    if "err" in obs:
        if q:
            out.append(("gridpts/raises", "gridpts raised %s on %r" % (obs["err"], q)))
        return out
    want = [list(t) for t in itertools.product(*q)]
    nprod = 1
    for b in q:
        nprod *= len(b)
    got = obs["pts"]
    if len(got) != nprod or not same_pts(got, want):
        if any(len(b) == 0 for b in q[:-1]):
            key = "gridpts/empty-bin-not-last"
        else:
            key = "gridpts/not-cartesian-product"
        out.append((key, "gridpts(%r) returned %d points %r, the Cartesian product has %d: %r" % (q, len(got), got[:6], nprod, want[:6])))
    return out


# =================================================================== stream: lattice starting points
def gen_box(rng, dim, regime, degenerate_ok=True):
    lo = []; hi = []
    for _ in range(dim):
        if regime == "dyadic":
            a = dyadic(rng, -8, 8, 4)
            w = 0.0 if (degenerate_ok and rng.random() < 0.05) else float(rng.choice([0.25, 0.5, 1, 1, 2, 3, 4, 6, 8]))
        elif regime == "float":
            a = gfloat(rng, 20.0)
            w = 0.0 if (degenerate_ok and rng.random() < 0.03) else abs(gfloat(rng, 10.0)) + rng.choice([0.0, 1e-9, 0.1])
            if w == 0.0 and not degenerate_ok:
                w = 1.0
        else:       # wide / tiny relative width
            a = rng.choice([1e6, -1e6, 1e-6, 123456.789]) * rng.choice([1.0, 3.0])
            w = rng.choice([1e-3, 1.0, 1e3])
        lo.append(a); hi.append(a + w)
    return lo, hi


def gen_lattice(rng):
    dim = rng.randint(1, 4)
    regime = rng.choice(["dyadic", "dyadic", "float", "float", "wide"])
    lo, hi = gen_box(rng, dim, regime)
    c = {"dim": dim, "regime": regime, "lower": lo, "upper": hi, "strict": rng.random() < 0.8}
    k = rng.random()
    if k < 0.05:     # malformed
        if rng.random() < 0.5 and dim > 1:
            c["nbins"] = [rng.choice([1, 2, 3]) for _ in range(dim - 1)]; c["malformed"] = "short"
        else:
            nb = [rng.choice([1, 2, 3]) for _ in range(dim)]
            nb[rng.randrange(dim)] = 0
            c["nbins"] = nb; c["malformed"] = "zero"
    elif k < 0.70:
        c["nbins"] = [rng.choice([1, 1, 2, 2, 3, 4, 5, 8]) for _ in range(dim)]
    else:
        c["N"] = rng.choice([1, 2, 3, 4, 5, 6, 7, 8, 9, 10, 12, 16, 18, 24, 30])
    return c


def impl_lattice(c, rng):
    from mystic.ensemble import LatticeSolver
    nb = c["N"] if "N" in c else tuple(c["nbins"])
    try:
        s = LatticeSolver(c["dim"], nbins=nb)
        if c["strict"]:
            s.SetStrictRanges(list(c["lower"]), list(c["upper"]))
        with KeyRecorder(rng) as rec:
            pts = s._InitialPoints()
    except Exception as e:
        return {"err": exc_enum(e)}
    return {"pts": [vecf(p) for p in pts], "keys": list(rec.log), "npts": int(s._npts), "nslots": len(s._allSolvers)}


def box_of(c):
    if c["strict"]:
        return c["lower"], c["upper"]
    return [-1000.0] * c["dim"], [1000.0] * c["dim"]


def line_lattice(c, obs):
    lo, hi = box_of(c)
    if "N" in c:
        return "C09 latticeN (N %d) (dim %d) (lower %s) (upper %s) (keys %s) (strict %s)" % (c["N"], c["dim"], fl(lo), fl(hi), fl(obs.get("keys", [])), "true" if c["strict"] else "false")
    return "C09 lattice (dim %d) (lower %s) (upper %s) (nbins %s) (strict %s)" % (c["dim"], fl(lo), fl(hi), nl(c["nbins"]), "true" if c["strict"] else "false")


def cell_centre_ok(p, lo, hi, j, n, exact):
    """p is the centre of cell j of n equal cells of [lo, hi] (exact rational arithmetic on the binary64 values)"""
    L = Fraction(lo); H = Fraction(hi)
    mid = L + (H - L) * (2 * j + 1) / (2 * n)
    cl = L + (H - L) * j / n; ch = L + (H - L) * (j + 1) / n
    P = Fraction(p)
    if exact and n & (n - 1) == 0:
        # dyadic bounds and a power-of-two bin count: (hi-lo)/n and every intermediate are exact in binary64
        try:
            if Fraction(float(mid)) == mid:
                return P == mid
        except OverflowError:
            pass
    tol = Fraction(4 * max(math.ulp(lo), math.ulp(hi), math.ulp(p)))
    return cl - tol <= P <= ch + tol and abs(P - mid) <= tol and L <= P <= H


def monitor_lattice(c, obs):
    """exactly prod(nbins) / N starting points, each the centre of its own grid cell, inside the ranges,
    enumerated as the full product in lexicographic order"""
    out = []
    if c.get("malformed"):
        return out
    if "err" in obs:
        out.append(("lattice-points/raises", "LatticeSolver._InitialPoints raised %s for %r" % (obs["err"], c)))
        return out
    lo, hi = box_of(c)
    pts = obs["pts"]; dim = c["dim"]
    if "N" in c:
        want_n = c["N"]
    else:
        want_n = 1
        for n in c["nbins"]:
            want_n *= n
    if len(pts) != want_n or obs["npts"] != want_n or obs["nslots"] != want_n:
        out.append(("lattice-points/count", "requested %d members: %d starting points, _npts=%d, %d solver slots" % (want_n, len(pts), obs["npts"], obs["nslots"])))
        return out
    if any(len(p) != dim for p in pts):
        out.append(("lattice-points/dimension", "a starting point does not have %d coordinates: %r" % (dim, pts[:3])))
        return out
    exact = c["regime"] == "dyadic"
    if "N" in c:
        # the bin layout is not observable: recover it from the points (needs non-degenerate sides)
        if any(a == b for a, b in zip(lo, hi)):
            return out
        nb = [len(set(p[d] for p in pts)) for d in range(dim)]
        tot = 1
        for n in nb:
            tot *= n
        if tot != want_n:
            out.append(("lattice-points/not-a-grid", "N=%d: per-coordinate distinct values %r do not multiply to N" % (want_n, nb)))
            return out
    else:
        nb = list(c["nbins"])
    # point i <-> multi-index (lexicographic, first coordinate slowest)
    for i, p in enumerate(pts):
        r = i
        idx = [0] * dim
        for d in range(dim - 1, -1, -1):
            idx[d] = r % nb[d]; r //= nb[d]
        for d in range(dim):
            if not cell_centre_ok(p[d], lo[d], hi[d], idx[d], nb[d], exact):
                out.append(("lattice-points/not-cell-centre", "point %d coordinate %d = %r is not the centre of cell %d of %d of [%r, %r]" % (i, d, p[d], idx[d], nb[d], lo[d], hi[d])))
                return out
            if lo[d] < hi[d] and not (lo[d] < p[d] < hi[d]) and (exact or c["regime"] == "float"):
                out.append(("lattice-points/not-inside", "point %d coordinate %d = %r not strictly inside (%r, %r)" % (i, d, p[d], lo[d], hi[d])))
                return out
    return out


# =================================================================== stream: samplepts / _random_samples
U_SPECIAL = [0.0, 1.0 - 2.0 ** -53, 0.5, 2.0 ** -53, 0.25, 0.75, 1.0 - 2.0 ** -52]


def gen_samples(rng):
    dim = rng.randint(1, 4)
    npts = rng.choice([0, 1, 1, 2, 3, 4, 6])
    regime = rng.choice(["dyadic", "dyadic", "float", "wide"])
    lo, hi = gen_box(rng, dim, regime)
    c = {"dim": dim, "npts": npts, "regime": regime, "lb": lo, "ub": hi}
    k = rng.random()
    if k < 0.04:
        c["ub"] = hi[:-1]; c["malformed"] = "short-ub"          # IndexError
    elif k < 0.08:
        c["ub"] = hi + [1.0]; c["malformed"] = "long-ub"        # ignored by the code
    elif k < 0.12:
        c["lb"], c["ub"] = hi, lo; c["malformed"] = "swapped"    # outside the property's hypothesis lb <= ub
    if rng.random() < 0.25:
        c["real_rng"] = True; c["np_seed"] = rng.randrange(2 ** 31)
    else:
        us = []
        for _ in range(dim):
            row = []
            for _ in range(npts):
                t = rng.random()
                if regime == "dyadic":
                    row.append(rng.randint(0, 7) / 8.0 if t < 0.8 else rng.choice([0.0, 0.5, 0.25, 0.75]))
                else:
                    row.append(rng.choice(U_SPECIAL) if t < 0.35 else rng.random())
            us.append(row)
        c["us"] = us
    c["via"] = rng.choice(["samplepts", "samplepts", "buckshot"])
    return c


def impl_samples(c):
    from mystic.math.grid import samplepts
    from mystic.ensemble import BuckshotSolver
    try:
        if c.get("real_rng"):
            np.random.seed(c["np_seed"])
        with RandPatch(None if c.get("real_rng") else c["us"]) as rp:
            if c["via"] == "buckshot" and not c.get("malformed"):
                s = BuckshotSolver(c["dim"], npts=c["npts"])
                s.SetStrictRanges(list(c["lb"]), list(c["ub"]))
                pts = s._InitialPoints()
                extra = {"npts_attr": int(s._npts), "nslots": len(s._allSolvers)}
            else:
                pts = samplepts(list(c["lb"]), list(c["ub"]), c["npts"])
                extra = {}
    except Exception as e:
        return {"err": exc_enum(e)}
    us = rp.log[0].tolist() if rp.log else []
    return dict({"pts": [vecf(p) for p in pts], "us": us}, **extra)


def line_samples(c, obs):
    us = obs.get("us") if "us" in obs else c.get("us", [])
    return "C09 samples (lb %s) (ub %s) (npts %d) (us (%s))" % (fl(c["lb"]), fl(c["ub"]), c["npts"], " ".join(fl(r) for r in us))


def monitor_samples(c, obs, hist):
    """npts sample points, every coordinate within [lb_i, ub_i] (the upper end exactly on the exactness regime;
    in general floats lb + u*|ub-lb| may exceed ub by rounding - DESIGN 3 - and is only counted)"""
    out = []
    if c.get("malformed") in ("short-ub", "swapped"):
        return out
    if "err" in obs:
        out.append(("samplepts/raises", "samplepts raised %s for %r" % (obs["err"], c)))
        return out
    pts = obs["pts"]
    if len(pts) != c["npts"] or any(len(p) != c["dim"] for p in pts):
        out.append(("samplepts/count", "requested %d points of dimension %d, got %r" % (c["npts"], c["dim"], [len(p) for p in pts])))
        return out
    if "nslots" in obs and (obs["nslots"] != c["npts"] or obs["npts_attr"] != c["npts"]):
        out.append(("buckshot-points/count", "BuckshotSolver npts=%d has %d slots" % (c["npts"], obs["nslots"])))
    for j, p in enumerate(pts):
        for i, v in enumerate(p):
            lb = c["lb"][i]; ub = c["ub"][i]
            if v < lb:
                out.append(("samplepts/below-range", "point %d coordinate %d = %r < lb %r" % (j, i, v, lb)))
                return out
            if v > ub:
                if c["regime"] == "dyadic" or v > ub + 4 * max(math.ulp(ub), math.ulp(lb)):
                    out.append(("samplepts/above-range", "point %d coordinate %d = %r > ub %r" % (j, i, v, ub)))
                    return out
                bump(hist, "samples:upper-end-exceeded-by-rounding")
    return out


# =================================================================== stream: random_samples / samplepts with a Distribution
def gen_dist_item(rng, lo, hi, allow_script=True):
    """one distribution, described relative to the box [lo, hi] it will be sampled into: narrow / wide / shifted to
    one side / uniform over a larger interval / scripted values on and around the bounds.  Every family keeps a
    noticeable mass strictly inside (except 'script-nointerior'), so the resample loop ends."""
    w = hi - lo
    if not (w > 0.0) or not math.isfinite(w):
        w = 1.0
    mid = lo + 0.5 * (hi - lo) if math.isfinite(hi - lo) else 0.0
    k = rng.random()
    if k < 0.16:
        return ("normal", mid, 0.05 * w, "narrow")
    if k < 0.34:
        return ("normal", mid, rng.choice([1.0, 2.0, 5.0]) * w, "wide")
    if k < 0.46:
        return ("normal", lo - rng.choice([0.0, 0.3]) * w, w, "left")
    if k < 0.58:
        return ("normal", hi + rng.choice([0.0, 0.3]) * w, w, "right")
    if k < 0.68:
        return ("uniform", lo - rng.choice([0.5, 2.0]) * w, hi + rng.choice([0.5, 2.0]) * w, "both")
    if k < 0.76 or not allow_script:
        side = rng.random() < 0.5
        return ("uniform", lo - (2.0 * w if side else 0.0), hi + (0.0 if side else 2.0 * w), "left" if side else "right")
    t = rng.random()
    return ("script", rng.randrange(2 ** 31), 0.0 if t < 0.04 else rng.choice([0.3, 0.6]), "nointerior" if t < 0.04 else "script")


def script_pool(lbs, ubs):
    """values on / next to / far from the bounds of every coordinate, signed zeros, infinities"""
    out = []
    for lo, hi in zip(lbs, ubs):
        w = (hi - lo) if (hi > lo and math.isfinite(hi - lo)) else 1.0
        out += [lo, hi, common.ulp_dn(lo), common.ulp_up(hi), lo - w, hi + w, lo - 1e6 * w, hi + 1e6 * w]
        if lo == 0.0 or hi == 0.0:
            out += [0.0, -0.0]
    out += [math.inf, -math.inf]
    return out


def make_dist(item, lbs, ubs, log, which):
    """a real mystic Distribution; every call of its `rvs` is recorded in `log` as (which, size, values)"""
    from mystic.math import Distribution
    if item[0] == "normal":
        d = Distribution(np.random.normal, item[1], item[2])
    elif item[0] == "uniform":
        d = Distribution(np.random.uniform, item[1], item[2])
    else:
        srng = _random.Random(item[1]); pin = item[2]
        pool = script_pool(lbs, ubs)
        inner_pts = []
        for lo, hi in zip(lbs, ubs):
            if lo < hi:
                inner_pts += [common.ulp_up(lo), common.ulp_dn(hi), lo + 0.5 * (hi - lo), lo + 0.25 * (hi - lo)]

        def draw():
            if inner_pts and srng.random() < pin:
                # strictly inside EVERY coordinate's range only when the boxes overlap; otherwise inside some
                if srng.random() < 0.5:
                    i = srng.randrange(len(lbs))
                    if lbs[i] < ubs[i]:
                        return lbs[i] + (ubs[i] - lbs[i]) * srng.random()
                return srng.choice(inner_pts)
            return srng.choice(pool)
        d = Distribution()

        def script(size=None):
            n = int(np.prod(size)) if size is not None else 1
            return np.array([draw() for _ in range(n)], dtype=float).reshape(size if size is not None else ())
        d.rvs = script
    inner = d.rvs

    def rvs(size=None):
        v = np.array(inner(size), dtype=float)
        log.append((which, size, v.copy()))
        return v
    d.rvs = rvs
    return d


def split_dist_log(log, mode, npts, dim):
    """-> (init rows dim x npts, redraw calls) from the recorded calls"""
    if mode == "single":
        if not log:
            return None, []
        init = np.asarray(log[0][2], dtype=float).reshape(npts, dim).T.tolist()
        rest = log[1:]
    else:
        if len(log) < dim:
            return None, []
        init = [np.asarray(l[2], dtype=float).reshape(npts).tolist() for l in log[:dim]]
        rest = log[dim:]
    return init, [np.asarray(l[2], dtype=float).ravel().tolist() for l in rest]


def gen_dsamples(rng):
    dim = rng.randint(1, 4)
    npts = rng.choice([0, 1, 1, 2, 3, 4, 6, 10])
    regime = rng.choice(["dyadic", "dyadic", "float", "wide"])
    lo, hi = gen_box(rng, dim, regime, degenerate_ok=rng.random() < 0.15)
    c = {"dim": dim, "npts": npts, "regime": regime, "lb": lo, "ub": hi, "np_seed": rng.randrange(2 ** 31)}
    c["via"] = rng.choice(["random_samples", "random_samples", "samplepts", "samplepts", "buckshot"])
    c["mode"] = "single" if (c["via"] == "buckshot" or rng.random() < 0.5) else "list"
    if c["mode"] == "single" and dim > 1 and rng.random() < 0.75:
        # one distribution serves every coordinate: mostly overlapping coordinate ranges (else the documented
        # RuntimeError is the only possible outcome)
        w0 = hi[0] - lo[0]
        for i in range(1, dim):
            lo[i] = lo[0] + rng.randint(-2, 2) * w0 / 8.0; hi[i] = hi[0] + rng.randint(-2, 2) * w0 / 8.0
    f = 1.0
    if rng.random() < 0.3:
        f = c["norm"] = rng.choice([2.0, 0.5, -1.0])        # Distribution * factor (exact powers of two)
    sc = lambda a, b: tuple(sorted((a / f, b / f)))
    if c["mode"] == "single":
        # one distribution for all coordinates: described relative to the hull of the coordinate ranges or to one of them
        if rng.random() < 0.5:
            i = rng.randrange(dim); a, b = lo[i], hi[i]
        else:
            a, b = min(lo), max(hi)
        c["dists"] = [gen_dist_item(rng, *sc(a, b))]
    else:
        c["dists"] = [gen_dist_item(rng, *sc(a, b)) for a, b in zip(lo, hi)]
    c["clip"] = c["via"] == "random_samples" and rng.random() < 0.25
    if dim >= 3 and c["via"] != "buckshot" and rng.random() < 0.04:
        c["ub"] = hi[:-1]; c["malformed"] = "short-ub"   # ValueError (shapes cannot be broadcast)
    return c


def _ncdf(x):
    return 0.5 * (1.0 + math.erf(x / math.sqrt(2.0)))


def mass_inside(item, f, lo, hi):
    """probability that f * X lies strictly inside (lo, hi) for X ~ item (scripted: a lower bound)"""
    if not (lo < hi):
        return 0.0
    if item[0] == "normal":
        mu, sg = f * item[1], abs(f) * item[2]
        return _ncdf((hi - mu) / sg) - _ncdf((lo - mu) / sg) if sg > 0 else (1.0 if lo < mu < hi else 0.0)
    if item[0] == "uniform":
        a, b = sorted((f * item[1], f * item[2]))
        return max(0.0, min(b, hi) - max(a, lo)) / (b - a) if b > a else 0.0
    return 0.0 if item[3] == "nointerior" else 0.03


def servable(c):
    """True: every coordinate has at least 2% of its distribution's mass strictly inside its range, so 999 redraw
    rounds fail with probability < 1e-8: the documented RuntimeError would be a defect.  False: the RuntimeError is
    the correct outcome.  None: in between (either outcome is accepted)."""
    if c["npts"] == 0 or c.get("clip"):
        return True
    f = c.get("norm", 1.0)
    ps = []
    for i, (a, b) in enumerate(zip(c["lb"], c["ub"])):
        it = c["dists"][0] if c["mode"] == "single" else c["dists"][i]
        ps.append(mass_inside(it, f, a, b))
    if all(p_ >= 0.02 for p_ in ps):
        return True
    if any(p_ < 1e-12 for p_ in ps):
        return False
    return None


def impl_dsamples(c):
    from mystic.math.grid import samplepts
    from mystic.math.samples import random_samples
    from mystic.ensemble import BuckshotSolver
    log = []
    np.random.seed(c["np_seed"])
    f = c.get("norm", 1.0)
    sl = [min(a / f, b / f) for a, b in zip(c["lb"], c["ub"])]; su = [max(a / f, b / f) for a, b in zip(c["lb"], c["ub"])]
    ds = [make_dist(it, sl, su, log, i) for i, it in enumerate(c["dists"])]
    if c.get("norm") is not None:
        # Distribution.__mul__ builds a new Distribution around the same (recording) rvs: the log holds the raw values
        ds = [d * c["norm"] for d in ds]
    dist = ds[0] if c["mode"] == "single" else ds
    extra = {}
    try:
        if c["via"] == "random_samples":
            q = random_samples(list(c["lb"]), list(c["ub"]), c["npts"], dist, clip=c["clip"])
            pts = np.asarray(q, dtype=float).tolist()        # dim x npts
        elif c["via"] == "samplepts":
            pts = samplepts(list(c["lb"]), list(c["ub"]), c["npts"], dist)
        else:
            s = BuckshotSolver(c["dim"], npts=c["npts"])
            s.SetStrictRanges(list(c["lb"]), list(c["ub"]))
            s.SetDistribution(dist)
            pts = s._InitialPoints()
            extra = {"npts_attr": int(s._npts), "nslots": len(s._allSolvers)}
    except Exception as e:
        return {"err": exc_enum(e), "msg": repr(e)[:120], "log": log}
    return dict({"pts": [vecf(p) for p in pts], "log": log}, **extra)


def line_dsamples(c, obs):
    """the recorded draws (after the norm factor: what random_samples receives) are the model's oracle"""
    f = c.get("norm")
    log = [(w, sz, (v * f if f is not None else v)) for w, sz, v in obs["log"]]
    init, calls = split_dist_log(log, c["mode"], c["npts"], c["dim"])
    if init is None:
        return None
    return "C09 dsamples (lb %s) (ub %s) (npts %d) (clip %s) (T %s) (init (%s)) (calls (%s))" % (
        fl(c["lb"]), fl(c["ub"]), c["npts"], "true" if c.get("clip") else "false",
        "false" if c["via"] == "random_samples" else "true",
        " ".join(fl(r) for r in init), " ".join(fl(r) for r in calls))


def monitor_dsamples(c, obs, hist):
    """sampled points stay within their ranges, whatever distribution the user supplies: npts points of dimension dim,
    every coordinate in [lb_i, ub_i] (exact: only comparisons are involved)"""
    out = []
    if c.get("malformed"):
        return out
    ncalls = len(obs["log"]) - (1 if c["mode"] == "single" else c["dim"])
    bump(hist, "dsamples:redraw-calls=%s" % ("0" if ncalls <= 0 else ("1-3" if ncalls <= 3 else ("4-20" if ncalls <= 20 else ">20"))))
    if "err" in obs:
        sv = servable(c)
        if obs["err"] == "runtime" and sv is not True:
            bump(hist, "dsamples:runtime-error-%s" % ("expected" if sv is False else "possible"))
            return out
        out.append(("dist-samples/raises/%s" % c["via"], "%s with a distribution raised %s for %r" % (c["via"], obs.get("msg"), c)))
        return out
    pts = obs["pts"]
    if c["via"] == "random_samples":
        pts = [list(col) for col in zip(*pts)] if pts and pts[0] else ([] if c["npts"] == 0 else pts)
        if len(obs["pts"]) != c["dim"] or any(len(r) != c["npts"] for r in obs["pts"]):
            out.append(("dist-samples/count/random_samples", "requested a %d x %d sample matrix, got rows of %r" % (c["dim"], c["npts"], [len(r) for r in obs["pts"]])))
            return out
    elif len(pts) != c["npts"] or any(len(p) != c["dim"] for p in pts):
        out.append(("dist-samples/count/%s" % c["via"], "requested %d points of dimension %d, got %r" % (c["npts"], c["dim"], [len(p) for p in pts])))
        return out
    if "nslots" in obs and (obs["nslots"] != c["npts"] or obs["npts_attr"] != c["npts"]):
        out.append(("buckshot-points/count", "BuckshotSolver npts=%d has %d slots" % (c["npts"], obs["nslots"])))
    for j, p in enumerate(pts):
        for i, v in enumerate(p):
            lb = c["lb"][i]; ub = c["ub"][i]
            if not (lb <= v <= ub):
                side = "below" if v < lb else ("above" if v > ub else "nan")
                out.append(("dist-samples/%s-range/%s" % (side, c["via"]),
                            "%s(lb=%r, ub=%r, npts=%d, dist=%r%s): point %d coordinate %d = %r outside [%r, %r]" % (
                                c["via"], c["lb"], c["ub"], c["npts"], c["dists"], " clip=True" if c.get("clip") else "", j, i, v, lb, ub)))
                return out
            if not c.get("clip") and (v == lb or v == ub):
                bump(hist, "dsamples:returned-entry-on-a-bound")
    return out


# =================================================================== stream: randomly_bin
PRIMES = [2, 3, 5, 7, 11, 13, 17, 19, 23, 29, 31, 37, 97, 101, 211, 997]


def gen_rbin(rng):
    k = rng.random()
    if k < 0.03:
        N = 0
    elif k < 0.10:
        N = 1
    elif k < 0.30:
        N = rng.choice(PRIMES)
    elif k < 0.45:
        N = rng.choice([2, 3, 5]) ** rng.randint(1, 6)
    elif k < 0.9:
        N = rng.randint(2, 400)
    else:
        N = rng.randint(400, 6000)
    t = rng.random()
    ndim = None if t < 0.3 else (0 if t < 0.33 else rng.choice([1, 1, 2, 2, 3, 3, 4, 5, 7]))
    return {"N": N, "ndim": ndim, "ones": rng.random() < 0.6, "exact": rng.random() < 0.75}


def impl_rbin(c, rng):
    from mystic.math.grid import randomly_bin
    with KeyRecorder(rng, ties=0.15) as rec:
        try:
            r = randomly_bin(c["N"], c["ndim"], ones=c["ones"], exact=c["exact"])
        except Exception as e:
            return {"err": exc_enum(e), "keys": list(rec.log)}
    return {"bins": [int(v) for v in r], "keys": list(rec.log)}


def line_rbin(c, obs):
    return "C09 rbin (N %d) (ndim %s) (ones %s) (exact %s) (keys %s)" % (
        c["N"], "none" if c["ndim"] is None else str(c["ndim"]), "true" if c["ones"] else "false",
        "true" if c["exact"] else "false", fl(obs["keys"]))


def is_prime(n):
    if n < 2:
        return False
    i = 2
    while i * i <= n:
        if n % i == 0:
            return False
        i += 1
    return True


def monitor_rbin(c, obs):
    """prod(bins) = N for every shuffle (N-1 for a prime N > 3 with exact=False, as documented); len = ndim"""
    out = []
    N = c["N"]; ndim = c["ndim"]
    if N == 0 or ndim == 0:
        return out           # degenerate requests (no bins), not in the property's domain; compared with the model only
    if "err" in obs:
        out.append(("randomly_bin/raises", "randomly_bin raised %s for %r" % (obs["err"], c)))
        return out
    bins = obs["bins"]
    want = N - 1 if (not c["exact"] and N > 3 and is_prime(N)) else N
    p = 1
    for b in bins:
        p *= b
    if p != want or any(b < 1 for b in bins):
        out.append(("randomly_bin/product", "randomly_bin(%r) = %r has product %d, expected %d" % (c, bins, p, want)))
    if ndim is not None and len(bins) != ndim:
        out.append(("randomly_bin/length", "randomly_bin(%r) = %r has %d entries, ndim = %d" % (c, bins, len(bins), ndim)))
    return out


# =================================================================== stream: fillpts / SparsitySolver points (monitor only)
def gen_fill(rng):
    dim = rng.randint(1, 3)
    lo, hi = gen_box(rng, dim, "dyadic", degenerate_ok=False)
    npts = rng.choice([0, 1, 2, 3])
    data = None
    if rng.random() < 0.5:
        data = [[a + (b - a) * rng.random() for a, b in zip(lo, hi)] for _ in range(rng.randint(1, 3))]
    rtol = rng.choice([None, None, 0.3, -0.3])
    c = {"dim": dim, "lb": lo, "ub": hi, "npts": npts, "data": data, "rtol": rtol, "seed": rng.randrange(2 ** 31),
         "via": rng.choice(["fillpts", "sparsity"])}
    if rng.random() < 0.3:
        c["rtol"] = 0.25          # dyadic radius: probes at EXACTLY the radius exercise the `res < rtol` boundary
        if data is not None:      # legacy data on a dyadic grid of the (dyadic) box: x + 0.25 - x is exactly 0.25
            c["data"] = [[a + (b - a) * rng.randrange(9) / 8.0 for a, b in zip(lo, hi)] for _ in data]
    # probe points for the objective handed to the optimiser: random points of the box, a collected point itself,
    # a point at exactly |rtol| from a collected point along an axis
    c["probes"] = [[a + (b - a) * rng.random() for a, b in zip(lo, hi)] for _ in range(3)]
    return c


def impl_fill(c):
    from mystic.math.grid import fillpts
    from mystic.ensemble import SparsitySolver
    _random.seed(c["seed"]); np.random.seed(c["seed"])
    import mystic.solvers as MS
    from mystic.math.distance import euclidean
    orig = MS.diffev          # `from mystic.solvers import diffev as solver` is executed inside fillpts: looked up at call time
    outs = []; holes_probes = []
    legacy = [] if (c["data"] is None or c["via"] == "sparsity") else [list(map(float, d)) for d in c["data"]]

    def rec_diffev(holes, *a, **k):
        now = legacy + outs          # the points collected so far (`pts` of the closure)
        if now and "probes" in c and (c["rtol"] is None or c["rtol"] > 0):
            cand = [list(p_) for p_ in c["probes"]] + [list(now[-1])]
            if c["rtol"]:
                cand.append([now[0][0] + c["rtol"]] + list(now[0][1:]))
            for x in cand:
                d = [float(v) for v in np.asarray(euclidean(now, x, axis=0), dtype=float).ravel()]
                holes_probes.append({"x": x, "dists": d, "value": float(holes(x))})
                if c["rtol"] and min(d) == c["rtol"]:
                    holes_probes[-1]["at_radius"] = True
        res = orig(holes, *a, **k)
        outs.append(vecf(res))
        return res
    MS.diffev = rec_diffev
    try:
        if c["via"] == "sparsity":
            s = SparsitySolver(c["dim"], npts=c["npts"], rtol=c["rtol"])
            s.SetStrictRanges(list(c["lb"]), list(c["ub"]))
            pts = s._InitialPoints()
            return {"pts": [vecf(p) for p in pts], "nslots": len(s._allSolvers), "outs": outs, "legacy": legacy, "holes": holes_probes}
        arg = None if c["data"] is None else [list(d) for d in c["data"]]
        pts = fillpts(list(c["lb"]), list(c["ub"]), c["npts"], arg, c["rtol"])
    except Exception as e:
        return {"err": exc_enum(e) + ":" + repr(e)[:80]}
    finally:
        MS.diffev = orig
    return {"pts": [vecf(p) for p in pts], "outs": outs, "legacy": legacy, "holes": holes_probes,
            "data_after": None if arg is None else [vecf(d) for d in arg]}


def lines_fill(c, obs):
    """the deterministic contract around the optimisation runs: npts handling / legacy data dropped (model `fillpts` with the
    recorded results of the diffev runs as oracle) and the objective handed to the optimiser (model `holesNone` / `holesTol`
    from the real distances)"""
    if "err" in obs or "outs" not in obs:
        return []
    out = [("fill", "C09 fill (npts %d) (data (%s)) (outs (%s))" % (c["npts"], " ".join(fl(p_) for p_ in obs["legacy"]), " ".join(fl(p_) for p_ in obs["outs"])))]
    for i, h in enumerate(obs["holes"][:12]):
        out.append(("holes:%d" % i, "C09 holes (rtol %s) (dists %s)" % ("none" if c["rtol"] is None else f2b(c["rtol"]), fl(h["dists"]))))
    return out


def monitor_fill(c, obs):
    out = []
    if "err" in obs:
        out.append(("fillpts/raises", "%s raised %s for %r" % (c["via"], obs["err"], c)))
        return out
    pts = obs["pts"]
    if obs.get("data_after") is not None and not same_pts(obs["data_after"], [list(map(float, d)) for d in c["data"]]):
        # l.95 `pts = [] if data is None else list(data)`: the caller's legacy data (a monitor's `_x`) must not collect the new points
        out.append(("fillpts/legacy-data-modified", "fillpts changed the caller's legacy data list: %r -> %r" % (c["data"], obs["data_after"])))
        return out
    if len(pts) != c["npts"] or obs.get("nslots", c["npts"]) != c["npts"]:
        if c["npts"] == 0 and c["data"] and same_pts(pts, [list(map(float, d)) for d in c["data"]]):
            # `pts = pts[-npts:]` with npts = 0 is `pts[0:]`: the legacy data come back instead of no points
            out.append(("fillpts/count/npts=0-returns-legacy-data", "fillpts(.., npts=0, data=%r) returned the %d legacy points instead of []" % (c["data"], len(pts))))
        else:
            out.append(("fillpts/count", "requested %d space-filling points, got %d" % (c["npts"], len(pts))))
        return out
    for j, p in enumerate(pts):
        if len(p) != c["dim"] or any(not (a <= v <= b) for v, a, b in zip(p, c["lb"], c["ub"])):
            out.append(("fillpts/outside-range", "space-filling point %d = %r outside [%r, %r]" % (j, p, c["lb"], c["ub"])))
            return out
    return out


# =================================================================== stream: real ensemble solves
NESTED = ["NM", "NM", "Powell", "Powell", "DE", "DE2"]


def nested_class(name):
    from mystic.solvers import (NelderMeadSimplexSolver, PowellDirectionalSolver, DifferentialEvolutionSolver,
                                DifferentialEvolutionSolver2)
    return {"NM": NelderMeadSimplexSolver, "Powell": PowellDirectionalSolver, "DE": DifferentialEvolutionSolver,
            "DE2": DifferentialEvolutionSolver2}[name]


def gen_plateau_cost(rng, dim):
    """piecewise-constant cost: exact energy ties between members are the rule, not the exception"""
    terms = [("sq", ("rint", ("-", ("x", i), ("c", dyadic(rng, -2, 2, 2))))) for i in range(dim)]
    return ("scalar", ("sum",) + tuple(terms))


def pick_servable_item(rng, lo, hi):
    """a single distribution with at least 2% of its mass strictly inside EVERY coordinate range (else None)"""
    for _ in range(8):
        if rng.random() < 0.5:
            i = rng.randrange(len(lo)); a, b = lo[i], hi[i]
        else:
            a, b = min(lo), max(hi)
        it = gen_dist_item(rng, a, b)
        if it[3] != "nointerior" and all(mass_inside(it, 1.0, x, y) >= 0.02 for x, y in zip(lo, hi)):
            return it
    return None


def second_spec(c):
    """the configuration of the second ensemble built on the same nested instance"""
    c2 = {k: v for k, v in c.items() if k not in ("nbins", "N", "npts", "rtol", "dist", "sdist", "transport", "reuse")}
    c2.update(c["reuse"])
    return c2


def gen_ensemble(rng, tier):
    kind = rng.choice(["lattice", "lattice", "lattice", "buckshot", "buckshot", "sparsity"])
    dim = rng.randint(1, 3)
    c = {"kind": kind, "dim": dim, "api": rng.choice(["class", "class", "class", "wrapper"])}
    centre = [dyadic(rng, -3, 3, 4) for _ in range(dim)]
    regime = rng.choice(["dyadic", "dyadic", "float"])
    if rng.random() < 0.8 or kind != "lattice":
        lo, hi, bk = solvergen.gen_box(rng, dim, centre, rng.choice(["finite", "finite", "integer"]))
        if regime == "float":
            lo = [a - rng.random() * 0.1 for a in lo]; hi = [b + rng.random() * 0.1 for b in hi]
        tight, clip = rng.choice([(None, None), (None, None), (None, None), (True, None), (False, None), (True, True), (None, True)])
        c["ranges"] = (lo, hi, tight, clip)
    if kind == "lattice":
        if rng.random() < 0.7:
            nb = [rng.choice([1, 1, 2, 2, 3]) for _ in range(dim)]
            while np.prod(nb) > 9:
                nb[rng.randrange(dim)] = 1
            c["nbins"] = nb
        else:
            c["N"] = rng.choice([1, 2, 3, 4, 5, 6, 8])
    else:
        c["npts"] = rng.choice([1, 2, 3, 4, 5, 6]) if kind == "buckshot" else rng.choice([1, 2, 3])
        if kind == "sparsity":
            c["rtol"] = rng.choice([None, None, 0.3])
    c["nested"] = rng.choice(NESTED)
    if c["nested"] in ("DE", "DE2"):
        c["NP"] = rng.randint(4, 7)
    k = rng.random()
    if k < 0.3:
        c["cost"] = gen_plateau_cost(rng, dim)
    else:
        c["cost"] = solvergen.gen_cost(rng, dim, allow_vector=False)
    if rng.random() < 0.35:
        box = (c["ranges"][0], c["ranges"][1]) if c.get("ranges") else None
        con = solvergen.gen_constraints(rng, dim, box)
        # keep C03's hypothesis true: the constraint must map the box into itself EXACTLY (a pin at a + (b-a)*1.0 can
        # land one ulp outside a non-dyadic box); checked on the corners and the centre, else no constraints
        okc = True
        if box is not None:
            probes = [list(box[0]), list(box[1]), [0.5 * (a + b) for a, b in zip(*box)]]
            for pt in probes:
                y = dsl.con_apply(con, pt)
                if any(not (a <= v <= b) for v, a, b in zip(y, box[0], box[1])) or not same_vec(dsl.con_apply(con, y), y):
                    okc = False
        if okc:
            c["constraints"] = con
    if rng.random() < 0.3:
        c["penalty"] = solvergen.gen_penalty(rng, dim)
    # at least one finite limit: every run ends
    big = tier == "thorough" and rng.random() < 0.3
    maxiter = rng.choice([1, 2, 3, 5, 8, 12, 20] + ([40, 80] if big else []))
    maxfun = rng.choice([None, None, None, 1, 5, 20, 60, 200])
    if maxfun is not None and rng.random() < 0.3:
        maxiter = None
    c["limits"] = (maxiter, maxfun)
    t = solvergen.gen_termination(rng, c["nested"] if c["nested"] != "DE2" else "DE")
    if t is not None and t[0] == "CRT" and c["nested"] != "NM":
        t = ("VTR", 1e-3, 0.0)
    c["termination"] = t
    c["map"] = rng.choice(["builtin", "fwd", "rev", "shuffle", "shuffle"])
    c["map_seed"] = rng.randrange(2 ** 31)
    if c["map"] != "builtin" and rng.random() < 0.3:
        c["transport"] = "pickle"
    if kind == "lattice" and rng.random() < 0.15:
        c["dist"] = rng.choice([0.01, 0.25, 2.0])       # normal noise added to the cell centres
    if kind == "buckshot" and c.get("ranges") and rng.random() < 0.4:
        it = pick_servable_item(rng, c["ranges"][0], c["ranges"][1])
        if it is not None:
            c["sdist"] = it         # BuckshotSolver.SetDistribution / buckshot(dist=..): starting points from a distribution
    if rng.random() < 0.3:
        c["instance"] = True       # a configured nested solver INSTANCE instead of a solver class
        c["inst_monitors"] = rng.random() < 0.5
        c["inst_cfg"] = gen_inst_cfg(rng)      # which of the ensemble-level settings the instance carries ITSELF
        if rng.random() < 0.6:
            # the same configured instance is handed to a SECOND ensemble afterwards (same or other kind)
            k2 = rng.choice(["lattice", "buckshot", "buckshot", "sparsity"])
            r = {"kind": k2, "map": rng.choice(["builtin", "fwd", "rev", "shuffle"]), "map_seed": rng.randrange(2 ** 31),
                 "mode": rng.choice(["solve", "solve", "solve-step", "steps"]), "nsteps": rng.randint(1, 4)}
            if k2 == "lattice":
                nb = [rng.choice([1, 2, 2, 3]) for _ in range(dim)]
                while np.prod(nb) > 6:
                    nb[rng.randrange(dim)] = 1
                r["nbins"] = nb
            else:
                r["npts"] = rng.choice([1, 2, 3, 4]) if k2 == "buckshot" else rng.choice([1, 2])
                if k2 == "sparsity":
                    r["rtol"] = rng.choice([None, 0.3])
            if k2 == "buckshot" and c.get("ranges") and rng.random() < 0.3:
                it = pick_servable_item(rng, c["ranges"][0], c["ranges"][1])
                if it is not None:
                    r["sdist"] = it
            c["reuse"] = r
    if c["api"] == "wrapper":
        c["mode"] = "solve"
        c["ftol"] = rng.choice([1e-4, 1e-2, 1e-8]); c["gtol"] = rng.choice([10, 2, 3, None])
        c.pop("termination", None)
    else:
        c["mode"] = rng.choice(["solve", "solve", "solve-step", "steps", "steps"])
        c["nsteps"] = rng.randint(1, 6)
    c["seed"] = rng.randrange(2 ** 31)
    if c["mode"] == "solve-step":
        # an ensemble Step deep-copies every member's monitors (and pickles the member under the pickle transport):
        # keep the Step loop short
        mi, mf = c["limits"]
        c["limits"] = (min(mi, 12) if mi is not None else (8 if tier == "quick" else 12), None if mf is None else min(mf, 60))
    if c.get("reuse") and c["reuse"]["mode"] == "solve-step":
        mi, mf = c["limits"]
        if mi is None or mi > 12 or (mf is not None and mf > 60):
            c["reuse"]["mode"] = "solve"
    if c["api"] != "class":
        c.pop("reuse", None)
    return c


INST_SETTINGS = ("ranges", "constraints", "penalty", "limits", "termination")


def gen_inst_cfg(rng, consistent=0.35):
    """what a configured nested solver INSTANCE carries itself, per ensemble-level setting: 'same' (the user configured it
    consistently with the ensemble), 'absent' (only the ENSEMBLE has the setting: the member is subject to it only if the
    ensemble hands it on), ranges also 'wider' (an own box that contains the ensemble's), limits / termination 'other' (own
    settings that differ from the ensemble's).  The instance always has finite limits of its own (every run ends)."""
    if rng.random() < consistent:
        return {k: "same" for k in INST_SETTINGS}
    if rng.random() < 0.35:       # a bare instance: limits and termination as the ensemble's, nothing else
        return {"ranges": "absent", "constraints": "absent", "penalty": "absent", "limits": "same", "termination": "same"}
    return {"ranges": rng.choice(["same", "absent", "absent", "wider"]), "constraints": rng.choice(["same", "absent"]),
            "penalty": rng.choice(["same", "absent"]), "limits": rng.choice(["same", "same", "same", "other"]),
            "termination": rng.choice(["same", "same", "same", "other", "absent"])}


def inst_cfg_of(c):
    return c.get("inst_cfg") or {k: "same" for k in INST_SETTINGS}


def inst_ranges(c):
    """the strict ranges the configured instance carries itself (None: none)"""
    how = inst_cfg_of(c)["ranges"]
    if not c.get("ranges") or how == "absent":
        return None
    lo, hi, tight, clip = c["ranges"]
    if how == "wider":
        return ([a - 1.0 for a in lo], [b + 1.5 for b in hi], tight, clip)
    return (lo, hi, tight, clip)


def inst_limits(c):
    mi, mf = c["limits"]
    if inst_cfg_of(c)["limits"] == "other":
        return ((mi + 3) if mi is not None else 7, mf if mi is not None else None)
    if mi is None and mf is None:
        return (30, None)        # the one-liners accept maxiter=None / maxfun=None: the instance still needs an end
    return (mi, mf)


def inst_termination_spec(c):
    """-> ('spec', t) | ('default',): the termination the instance is configured with"""
    how = inst_cfg_of(c)["termination"]
    if how == "absent":
        return ("default",)       # the solver's own default: never satisfied, the limits end the run
    if how == "other":
        return ("spec", ("COG", 1e-7, 4))
    return ("same",)


def gen_far_cost(rng, dim, lo, hi):
    """a bowl whose FREE minimum lies outside the box [lo, hi] (beyond a face or a corner, by 0.25 .. 2 box widths): a member that
    is not subject to the ensemble's ranges walks out of the box"""
    t = []
    moved = False
    for i in range(dim):
        w = hi[i] - lo[i]
        k = rng.random()
        if k < 0.6 or (i == dim - 1 and not moved):
            moved = True
            off = rng.choice([0.25, 0.5, 1.0, 2.0]) * w + 0.25
            t.append(hi[i] + off if rng.random() < 0.5 else lo[i] - off)
        else:
            t.append(lo[i] + w * rng.choice([0.25, 0.5, 0.75]))
    terms = tuple(("*", ("c", rng.choice([1.0, 1.0, 4.0])), ("sq", ("-", ("x", i), ("c", t[i])))) for i in range(dim))
    return ("scalar", ("sum",) + terms)


def gen_ensinherit(rng, tier):
    """member inheritance of every ensemble-level setting: the ensemble ALWAYS has strict ranges and mostly a penalty and / or
    constraints, the objective's free minimum violates them (outside the box; the penalty / constraints cut through the box),
    the nested solver is a class or a configured instance that carries all / some / none of these settings itself, the run
    goes through the classes or the one-liners, run-to-completion (mostly) or step-wise"""
    c = gen_ensemble(rng, tier)
    for f in ("dist", "sdist", "rerun_solve"):
        c.pop(f, None)
    dim = c["dim"]
    if not c.get("ranges"):
        centre = [dyadic(rng, -3, 3, 4) for _ in range(dim)]
        lo, hi, _ = solvergen.gen_box(rng, dim, centre, "finite")
        c["ranges"] = (lo, hi, None, rng.choice([None, None, True]))
    lo, hi = c["ranges"][0], c["ranges"][1]
    c["cost"] = gen_far_cost(rng, dim, lo, hi)
    c.pop("constraints", None); c.pop("penalty", None)
    k = rng.random()
    if k < 0.75:
        # a penalty that is active INSIDE the box: its threshold is a point of the box
        i = rng.randrange(dim)
        thr = lo[i] + (hi[i] - lo[i]) * rng.choice([0.25, 0.5, 0.75])
        kk = rng.choice([10.0, 100.0, 1000.0])
        if rng.random() < 0.5:
            c["penalty"] = ("*", ("c", kk), ("sq", ("max", ("c", 0.0), ("-", ("x", i), ("c", thr)))))
        else:
            c["penalty"] = ("*", ("c", kk), ("sq", ("max", ("c", 0.0), ("-", ("c", thr), ("x", i)))))
    if rng.random() < 0.4:
        i = rng.randrange(dim)
        a, b = lo[i], hi[i]
        c["constraints"] = rng.choice([("pin", i, ("c", a + (b - a) * rng.choice([0.25, 0.5]))), ("clamp", i, a, a + 0.5 * (b - a)),
                                       ("clamp", i, a + 0.5 * (b - a), b)])
    c["nested"] = rng.choice(["NM", "NM", "Powell", "Powell", "DE", "DE2"])
    c.pop("NP", None)
    if c["nested"] in ("DE", "DE2"):
        c["NP"] = rng.randint(4, 7)
    if rng.random() < 0.7:
        c["instance"] = True
        c.setdefault("inst_monitors", rng.random() < 0.5)
        c["inst_cfg"] = gen_inst_cfg(rng, consistent=0.15)
    else:
        for f in ("instance", "inst_monitors", "inst_cfg", "reuse"):
            c.pop(f, None)
    if c["api"] == "class":
        c["mode"] = rng.choice(["solve", "solve", "solve", "solve", "solve-step", "steps"])
        c["nsteps"] = rng.randint(2, 6)
        if c.get("reuse"):
            c["reuse"]["mode"] = rng.choice(["solve", "solve", "steps"])
    c["limits"] = (rng.choice([5, 8, 12, 20, 30]), rng.choice([None, None, 200, 400]))
    if c["api"] == "class":
        c["termination"] = rng.choice([None, ("NCOG", 1e-6, 5), ("COG", 1e-8, 5), ("never",)])
    if c["api"] != "class":
        c.pop("reuse", None)
    if c["mode"] == "solve-step":
        c["limits"] = (min(c["limits"][0], 12), None if c["limits"][1] is None else min(c["limits"][1], 60))
    return c


def lattice_centres(lo, hi, nbins):
    bins = [[a + (j + 0.5) * (b - a) / n for j in range(n)] for a, b, n in zip(lo, hi, nbins)]
    return [list(t) for t in itertools.product(*bins)]


def gen_multiwell_cost(rng, dim, lo, hi, centres=None, cell=None):
    """min_j (a_j * |x - c_j|^2 - d_j): wells of different depth d_j and steepness a_j.  A member that starts near (or at the
    bottom of) a shallow well leads at first; one that starts on the slope of a deeper, steeper well has a high energy at
    first and overtakes after some iterations: WHICH member is the best changes during the run, so a reduction repeated
    over the same members (step-wise modes) must really look at all of them every time.  `centres` = the members' starting
    points where they are known at generation time (lattice): part of the wells sit at / near them."""
    w = [b - a for a, b in zip(lo, hi)]
    wm = sum(w) / len(w)
    cell = cell or [0.5 * v for v in w]
    nw = rng.randint(2, 5)
    depths = rng.sample([0.5, 1.0, 2.0, 3.0, 5.0, 8.0, 13.0, 21.0], nw)
    wells = []
    for j in range(nw):
        if centres and rng.random() < 0.65:
            base = rng.choice(centres)
            off = rng.choice([0.0, 0.0, 0.125, 0.25, 0.375])       # fraction of the member's own cell: the well stays inside it
            cj = [b + off * rng.choice([-1.0, 1.0]) * cw for b, cw in zip(base, cell)]
        else:
            cj = [a + v * rng.random() for a, v in zip(lo, w)]
        aj = rng.choice([0.5, 2.0, 8.0, 32.0, 128.0]) / (wm * wm)
        wells.append((aj, cj, depths[j]))
    e = None
    for aj, cj, dj in wells:
        t = ("-", ("*", ("c", aj), ("sum",) + tuple(("sq", ("-", ("x", i), ("c", cj[i]))) for i in range(dim))), ("c", dj))
        e = t if e is None else ("min", e, t)
    return ("scalar", e)


LEAD_MODES = ["steps", "steps", "solve-step", "solve-step", "steps+solve", "steps+solve-step"]


def gen_enslead(rng, tier):
    """step-wise ensembles in which the lead changes hands: >= 2 members, a multi-well cost, members that run for tens of
    iterations, a reduction after every ensemble Step (manual Step loop, Solve(step=True), Steps followed by Solve() /
    Solve(step=True)); every nested solver, map order, pickling transport (the stored best is then a STALE object)"""
    c = gen_ensemble(rng, tier)
    for f in ("instance", "inst_monitors", "reuse", "ftol", "gtol", "dist", "sdist", "rerun_solve"):
        c.pop(f, None)
    c["api"] = "class"
    dim = c["dim"]
    if not c.get("ranges") or rng.random() < 0.5:
        centre = [dyadic(rng, -3, 3, 4) for _ in range(dim)]
        lo, hi, _ = solvergen.gen_box(rng, dim, centre, "finite")
        c["ranges"] = (lo, hi, None, rng.choice([None, None, True]))
    lo, hi = c["ranges"][0], c["ranges"][1]
    if requested_count(c) < 2:
        if c["kind"] == "lattice":
            c.pop("N", None)
            nb = [1] * dim; nb[rng.randrange(dim)] = rng.choice([2, 3, 4])
            if dim > 1 and rng.random() < 0.5:
                nb[rng.randrange(dim)] = 2
            c["nbins"] = nb
        else:
            c["npts"] = rng.choice([2, 3, 4]) if c["kind"] == "buckshot" else rng.choice([2, 3])
    centres = cell = None
    if c["kind"] == "lattice" and "nbins" in c:
        centres = lattice_centres(lo, hi, c["nbins"]); cell = [(b - a) / n for a, b, n in zip(lo, hi, c["nbins"])]
    c["cost"] = gen_multiwell_cost(rng, dim, lo, hi, centres, cell)
    c["nested"] = rng.choice(["NM", "NM", "NM", "Powell", "DE", "DE2"])
    c.pop("NP", None)
    if c["nested"] in ("DE", "DE2"):
        c["NP"] = rng.randint(4, 7)
    c.pop("constraints", None)
    if c.get("penalty") is not None and rng.random() < 0.6:
        c.pop("penalty")
    c["mode"] = rng.choice(LEAD_MODES)
    long_ = c["nested"] == "NM"
    c["limits"] = (rng.choice([12, 20, 30, 40] if long_ else [3, 5, 8, 12]), rng.choice([None, None, 400]))
    c["termination"] = rng.choice([None, ("never",), ("NCOG", 1e-6, 5), ("COG", 1e-6, 5), ("VTR", 1e-4, -100.0)])
    nm_ = requested_count(c)
    if c.get("transport") and nm_ * c["limits"][0] > 80:
        # a pickling map serialises every member (with its whole monitor history) at every ensemble Step: keep it short
        c["limits"] = (max(4, 80 // nm_), c["limits"][1])
    elif nm_ * c["limits"][0] > 200:
        c["limits"] = (max(4, 200 // nm_), c["limits"][1])
    if c["mode"] == "steps":
        c["nsteps"] = rng.randint(4, c["limits"][0] + 3)
    elif c["mode"].startswith("steps+"):
        c["nsteps"] = rng.randint(1, max(2, c["limits"][0] // 2))
    if c["nested"] == "NM" and c["mode"] == "solve-step" and rng.random() < 0.5:
        c["rerun_solve"] = True
    return c


GTOL_CHOICES = [None, None, 0, 0, 1, 2, 3, 5, 10]


def gtol_class(c):
    kw = c.get("kw") or {}
    if "gtol" in kw.get("omit", ()):
        return "omitted"
    g = c["gtol"]
    return "None" if g is None else ("0" if not g else "positive")


def gen_oneliner(rng, tier):
    """the keyword plumbing of lattice() / buckshot() / sparsity(): every documented keyword given / omitted (its default) /
    given as None or 0 where that has a meaning (gtol falsy = 'no generation count: VTRChangeOverGeneration(ftol)'; maxiter,
    maxfun, rtol, tightrange, cliprange None), the first argument a tuple / an integer / omitted (8)"""
    kind = rng.choice(["lattice", "buckshot", "sparsity"])
    dim = rng.randint(1, 3)
    c = {"kind": kind, "dim": dim, "api": "wrapper", "mode": "solve", "oneliner": True}
    omit = []; explicit_none = []
    centre = [dyadic(rng, -3, 3, 4) for _ in range(dim)]
    if rng.random() < 0.85:
        lo, hi, bk = solvergen.gen_box(rng, dim, centre, rng.choice(["finite", "finite", "integer"]))
        tight, clip = rng.choice([(None, None), (None, None), (None, None), (True, None), (False, None), (True, True), (None, True)])
        c["ranges"] = (lo, hi, tight, clip)
        for nm, v in (("tightrange", tight), ("cliprange", clip)):
            if v is None:
                (explicit_none if rng.random() < 0.3 else omit).append(nm)
    else:
        omit += ["bounds", "tightrange", "cliprange"]
    if kind == "lattice":
        t = rng.random()
        if t < 0.6:
            nb = [rng.choice([1, 1, 2, 2, 3]) for _ in range(dim)]
            while np.prod(nb) > 9:
                nb[rng.randrange(dim)] = 1
            c["nbins"] = nb
        elif t < 0.9:
            c["N"] = rng.choice([1, 2, 3, 4, 5, 6, 8])
        else:
            c["N"] = 8; omit.append("nbins")
    else:
        if rng.random() < (0.12 if kind == "buckshot" else 0.06):
            c["npts"] = 8; omit.append("npts")
        else:
            c["npts"] = rng.choice([1, 2, 3, 4, 5, 6]) if kind == "buckshot" else rng.choice([1, 2, 3])
        if kind == "sparsity":
            t = rng.random()
            if t < 0.5:
                c["rtol"] = None; omit.append("rtol")
            elif t < 0.7:
                c["rtol"] = None; explicit_none.append("rtol")
            else:
                c["rtol"] = 0.3
    if rng.random() < 0.3:
        c["nested"] = "NM"; omit.append("solver")
    else:
        c["nested"] = rng.choice(NESTED)
    if c["nested"] in ("DE", "DE2"):
        c["NP"] = rng.randint(4, 7)
    if "solver" not in omit and rng.random() < 0.25:
        # solver=<a configured solver instance> ("override the default nested Solver instance")
        c["instance"] = True; c["inst_monitors"] = rng.random() < 0.3
        c["inst_cfg"] = gen_inst_cfg(rng, consistent=0.25)
    k = rng.random()
    if k < 0.35:
        c["cost"] = solvergen.gen_cost(rng, dim, allow_vector=False)           # minimum value 0: the value-to-reach stop can fire
    elif k < 0.6:
        base = solvergen.gen_cost(rng, dim, allow_vector=False)
        c["cost"] = ("scalar", ("+", base[1], ("c", rng.choice([-3.0, 2.5, 10.0]))))
    elif k < 0.85:
        lo, hi = (c["ranges"][0], c["ranges"][1]) if c.get("ranges") else ([v - 2.0 for v in centre], [v + 2.0 for v in centre])
        cen = cell = None
        if kind == "lattice" and "nbins" in c and c.get("ranges"):
            cen = lattice_centres(lo, hi, c["nbins"]); cell = [(b - a) / n for a, b, n in zip(lo, hi, c["nbins"])]
        c["cost"] = gen_multiwell_cost(rng, dim, lo, hi, cen, cell)
    else:
        c["cost"] = gen_plateau_cost(rng, dim)
    if rng.random() < 0.3:
        box = (c["ranges"][0], c["ranges"][1]) if c.get("ranges") else None
        con = solvergen.gen_constraints(rng, dim, box)
        okc = True
        if box is not None:
            for pt in [list(box[0]), list(box[1]), [0.5 * (a + b) for a, b in zip(*box)]]:
                y = dsl.con_apply(con, pt)
                if any(not (a <= v <= b) for v, a, b in zip(y, box[0], box[1])) or not same_vec(dsl.con_apply(con, y), y):
                    okc = False
        if okc:
            c["constraints"] = con
    if "constraints" not in c:
        omit.append("constraints")
    if rng.random() < 0.3:
        c["penalty"] = solvergen.gen_penalty(rng, dim)
    else:
        omit.append("penalty")
    if rng.random() < 0.3:
        c["ftol"] = 1e-4; omit.append("ftol")
    else:
        c["ftol"] = rng.choice([1e-4, 1e-2, 1e-8, 0.05, 0.5, 2.0])
    if rng.random() < 0.2:
        c["gtol"] = 10; omit.append("gtol")
    else:
        c["gtol"] = rng.choice(GTOL_CHOICES)
    lim = []
    for nm, p_omit, vals in (("maxiter", 0.25, [1, 2, 3, 5, 8, 12, 20, 50]), ("maxfun", 0.4, [1, 5, 20, 60, 200])):
        t = rng.random()
        if t < p_omit:
            lim.append(None); omit.append(nm)
        elif t < p_omit + 0.15:
            lim.append(None); explicit_none.append(nm)
        else:
            lim.append(rng.choice(vals))
    if lim[0] is None and lim[1] is None and c["nested"] in ("DE", "DE2"):
        lim[0] = rng.choice([5, 12, 20])
        for l_ in (omit, explicit_none):
            if "maxiter" in l_:
                l_.remove("maxiter")
    c["limits"] = tuple(lim)
    if rng.random() < 0.3:
        c["map"] = "builtin"; omit.append("map")
    else:
        c["map"] = rng.choice(["fwd", "rev", "shuffle"])
        if rng.random() < 0.2:
            c["transport"] = "pickle"
    c["map_seed"] = rng.randrange(2 ** 31)
    if kind != "buckshot" and rng.random() < 0.15:
        c["dist"] = rng.choice([0.01, 0.25, 2.0])
    elif kind == "buckshot" and c.get("ranges") and rng.random() < 0.3:
        it = pick_servable_item(rng, c["ranges"][0], c["ranges"][1])
        if it is not None:
            c["sdist"] = it
    if not c.get("dist") and not c.get("sdist"):
        omit.append("dist")
    kw = {"omit": omit, "none": explicit_none, "full_output": rng.random() < 0.7, "retall": rng.random() < 0.3,
          "args": rng.random() < 0.3, "callback": rng.random() < 0.25, "monitors": rng.random() < 0.3,
          "id": rng.choice([0, 3, 10]) if rng.random() < 0.2 else None, "step": rng.random() < 0.08}
    c["kw"] = kw
    c["seed"] = rng.randrange(2 ** 31)
    return c


ENS_CLASS = {"lattice": "LatticeSolver", "buckshot": "BuckshotSolver", "sparsity": "SparsitySolver"}


def requested_termination(c):
    """the termination the one-liner's ftol / gtol arguments stand for (docstrings of lattice/buckshot/sparsity: `ftol`
    acceptable relative error for convergence, `gtol` maximum iterations to run without improvement, default 10; a falsy
    gtol - None or 0 - is mystic's convention for 'no generation count': the value-to-reach stop, as in
    diffev(..., gtol=None)), built here from mystic.termination directly"""
    import mystic.termination as T
    if c["gtol"]:
        return T.NormalizedChangeOverGeneration(c["ftol"], c["gtol"])
    return T.VTRChangeOverGeneration(c["ftol"])


def ens_cfg_view(ens, tstate):
    return {"npts": int(ens._npts), "rtol": getattr(ens, "_rtol", None), "id": ens.id, "dist": ens._dist,
            "nslots": len(ens._allSolvers)}


def run_oneliner(c, explicit=False):
    """the real one-liner with exactly the case's keyword set (explicit=False), or the ensemble configured by hand through
    the class API according to what the keywords are documented to mean (explicit=True; same seeds): the reference the
    one-liner's members are compared with.  The ensemble object the one-liner builds is captured from its `Solve` call."""
    import mystic.ensemble as ME
    from mystic.termination import state as tstate
    from mystic.monitors import Monitor
    _random.seed(c["seed"]); np.random.seed(c["seed"])
    tape = Tape()
    cost, cons, pen = make_functions(c, tape)
    kw = c["kw"]; omit = set(kw["omit"]); enone = set(kw["none"])
    cls = nested_class(c["nested"])
    obs = {"err": None, "states": []}
    had_np = "NP" in cls.__dict__; old_np = cls.__dict__.get("NP")
    EC = getattr(ME, ENS_CLASS[c["kind"]])
    had_solve = "Solve" in EC.__dict__; old_solve = EC.__dict__.get("Solve")
    cap = {}
    try:
        if c.get("NP"):
            cls.NP = c["NP"]
        the_map = make_map(c, tape)
        d = None
        if c.get("dist"):
            from mystic.math import Distribution
            d = Distribution(np.random.normal, 0.0, c["dist"])
        elif c.get("sdist"):
            d = make_dist(c["sdist"], c["ranges"][0], c["ranges"][1], tape.dist_log, 0)
        first = c["N"] if "N" in c else (tuple(c["nbins"]) if "nbins" in c else c["npts"])
        args = (0.0,) if kw["args"] else ()
        fcost = the_cost_args if kw["args"] else cost
        cb = the_callback if kw["callback"] else None
        mons = (Monitor(), Monitor()) if kw["monitors"] else None
        nested_arg = cls
        if c.get("instance"):
            nested_arg = build_instance(c, cls, fcost, cons, pen, requested_termination(c), False)
            obs["inst_cfg_view"] = member_cfg(nested_arg, tstate)

        def rec_ip(ens):
            ip = ens._InitialPoints

            def f():
                pts = ip()
                tape.iv = [vecf(x) for x in pts]
                return pts
            ens._InitialPoints = f
        if not explicit:
            inherited = EC.Solve

            def rec_solve(self, *a, **k):
                cap["ens"] = self; cap["solve_kw"] = sorted(k)
                rec_ip(self)
                return inherited(self, *a, **k)
            EC.Solve = rec_solve
            fn = getattr(ME, c["kind"])
            k = dict(disp=0)
            pos = [fcost, c["dim"]]
            if not ({"nbins", "npts"} & omit):
                pos.append(first)
            if kw["full_output"]:
                k["full_output"] = 1
            if kw["retall"]:
                k["retall"] = 1
            if args:
                k["args"] = args
            if cb is not None:
                k["callback"] = cb
            if "solver" not in omit:
                k["solver"] = nested_arg
            if "ftol" not in omit:
                k["ftol"] = c["ftol"]
            if "gtol" not in omit:
                k["gtol"] = c["gtol"]
            for i, nm in enumerate(("maxiter", "maxfun")):
                if nm not in omit:
                    k[nm] = c["limits"][i]
            if c.get("ranges"):
                lo, hi, tight, clip = c["ranges"]
                k["bounds"] = list(zip(lo, hi))
                if "tightrange" not in omit:
                    k["tightrange"] = tight
                if "cliprange" not in omit:
                    k["cliprange"] = clip
            if cons is not None:
                k["constraints"] = cons
            if pen is not None:
                k["penalty"] = pen
            if the_map is not None:
                k["map"] = the_map
            if c["kind"] == "sparsity" and "rtol" not in omit:
                k["rtol"] = c["rtol"]
            if d is not None:
                k["dist"] = d
            if kw["id"] is not None:
                k["id"] = kw["id"]
            if mons:
                k["itermon"], k["evalmon"] = mons
            if kw["step"]:
                k["step"] = True
            obs["call"] = {"positional": len(pos), "keywords": sorted(k)}
            ret = fn(*pos, **k)
            ens = cap.get("ens")
            if kw["full_output"]:
                obs["ret_len"] = len(ret)
                r6 = ret[:6]
                obs["ret"] = {"x": vecf(r6[0]), "fval": fnum(r6[1]), "iterations": int(r6[2]), "fcalls": int(r6[3]),
                              "warnflag": int(r6[4]), "all_fcalls": int(r6[5])}
                if kw["retall"] and len(ret) > 6:
                    obs["allvecs_len"] = len(ret[6])
            else:
                x = ret[0] if kw["retall"] else ret
                obs["ret_len"] = 2 if kw["retall"] else 1
                obs["ret_x_only"] = vecf(x)
                if kw["retall"]:
                    obs["allvecs_len"] = len(ret[1])
        else:
            # what the keywords are documented to mean, through the class API
            if c["kind"] == "lattice":
                ens = ME.LatticeSolver(c["dim"], nbins=first)
            elif c["kind"] == "buckshot":
                ens = ME.BuckshotSolver(c["dim"], npts=first)
            else:
                ens = ME.SparsitySolver(c["dim"], npts=first, rtol=c.get("rtol"))
            ens.SetNestedSolver(nested_arg)
            ens.SetEvaluationLimits(c["limits"][0], c["limits"][1])
            em, sm = (mons[1], mons[0]) if mons else (Monitor(), Monitor())
            ens.SetEvaluationMonitor(em); ens.SetGenerationMonitor(sm)
            if kw["id"] is not None:
                ens.id = int(kw["id"])
            if d is not None:
                ens.SetDistribution(d)
            if pen is not None:
                ens.SetPenalty(pen)
            if cons is not None:
                ens.SetConstraints(cons)
            if c.get("ranges"):
                lo, hi, tight, clip = c["ranges"]
                ens.SetStrictRanges(list(lo), list(hi), tight=tight, clip=clip)
            if the_map is not None:
                ens.SetMapper(the_map)
            rec_ip(ens)
            ens.Solve(fcost, termination=requested_termination(c), disp=0, ExtraArgs=args, callback=cb)
        if ens is None:
            obs["err"] = "the one-liner never called Solve on an ensemble"
            return obs, tape
        ev = ensemble_view(ens)
        if "ret" not in obs:
            obs["ret"] = {"x": obs.get("ret_x_only", ev["x"]), "fval": ev["e"], "iterations": ev["gens"], "fcalls": ev["evals"],
                          "warnflag": None, "all_fcalls": ev["total"]}
        obs["ens"] = ev
        obs["ens_cfg"] = ens_cfg_view(ens, tstate)
        obs["ens_cfg"]["dist_is_given"] = (ens._dist is d)
        obs["ens_cfg"].pop("dist")
        obs["ens_class"] = type(ens).__name__
        obs["members"] = [member_view(m) for m in ens._allSolvers]
        obs["member_cfg"] = [member_cfg(m, tstate) for m in ens._allSolvers]
        obs["requested_term"] = tstate(requested_termination(c))
        obs["n_cost"] = len(tape.cost)
        if not kw["args"]:
            obs["probes"] = probe_members(ens._allSolvers, c, tape)
        obs["iv"] = tape.iv
        obs["at"] = int(ens.id) if ens.id else 0
        obs["callbacks"] = tape.callbacks
        if c["kind"] == "buckshot" and not c.get("sdist"):
            pass
        return obs, tape
    except Exception as e:
        import traceback
        obs["err"] = "%s: %s" % (type(e).__name__, e)
        obs["tb"] = traceback.format_exc()[-1500:]
        return obs, tape
    finally:
        if had_solve:
            EC.Solve = old_solve
        elif "Solve" in EC.__dict__:
            del EC.Solve
        if had_np:
            cls.NP = old_np
        elif "NP" in cls.__dict__:
            del cls.NP


def wrapper_term_findings(c, obs):
    """each member is subject to the ensemble's termination - for a one-liner: the termination its ftol / gtol arguments stand
    for (`requested_termination`).  The class of the gtol argument (omitted / None / 0 / positive) is part of the key."""
    out = []
    want = obs.get("requested_term")
    if want is None:
        return out
    omit = (c.get("kw") or {}).get("omit", ())
    for i, mc in enumerate(obs.get("member_cfg") or []):
        if mc["term"] != want:
            out.append(("oneliner/%s/member-termination/gtol=%s" % (c["kind"], gtol_class(c)),
                        "%s(ftol=%s, gtol=%s): member %d runs under %r, the arguments stand for %r" % (
                            c["kind"], "omitted (1e-4)" if "ftol" in omit else repr(c["ftol"]), "omitted (10)" if "gtol" in omit else repr(c["gtol"]),
                            i, sorted(mc["term"]), sorted(want))))
            break
    return out


def monitor_oneliner(c, obs, tape, hist):
    """what the one-liner adds to the ensemble clauses (those are checked by monitor_ensemble on the captured members): the
    ensemble it builds and runs IS the one its arguments describe"""
    out = []
    if obs.get("err"):
        return out          # reported by monitor_ensemble (ensemble/raises/...)
    kw = c["kw"]; kind = c["kind"]
    key = lambda clause: "oneliner/%s/%s" % (kind, clause)
    # ---- the return value is the ensemble's report
    ev = obs["ens"]; r = obs["ret"]
    want_len = (6 if kw["full_output"] else 1) + (1 if kw["retall"] else 0)
    if obs["ret_len"] != want_len:
        out.append((key("return-shape"), "full_output=%r retall=%r: %d values returned, %d documented" % (kw["full_output"], kw["retall"], obs["ret_len"], want_len)))
    bad = []
    if not same_vec(r["x"], ev["x"]):
        bad.append("xopt %r vs bestSolution %r" % (r["x"], ev["x"]))
    if kw["full_output"]:
        if not (same_float(r["fval"], ev["e"]) or r["fval"] == ev["e"]):
            bad.append("fopt %r vs bestEnergy %r" % (r["fval"], ev["e"]))
        if r["iterations"] != ev["gens"]:
            bad.append("iter %r vs generations %r" % (r["iterations"], ev["gens"]))
        if r["fcalls"] != ev["evals"]:
            bad.append("funcalls %r vs evaluations %r" % (r["fcalls"], ev["evals"]))
        if r["all_fcalls"] != ev["total"]:
            bad.append("allfuncalls %r vs _total_evals %r" % (r["all_fcalls"], ev["total"]))
    if bad:
        out.append((key("return-not-the-ensembles-report"), "; ".join(bad)))
    # ---- the ensemble's own settings
    ec = obs["ens_cfg"]
    if obs["ens_class"] != ENS_CLASS[kind]:
        out.append((key("ensemble-class"), "%s() ran a %s" % (kind, obs["ens_class"])))
    if kind == "sparsity" and ec["rtol"] != c.get("rtol"):
        out.append((key("ensemble-setting/rtol"), "rtol=%r requested (%s), the SparsitySolver has _rtol=%r" % (c.get("rtol"), "omitted" if "rtol" in kw["omit"] else "given", ec["rtol"])))
    if (c.get("dist") or c.get("sdist")) and not ec["dist_is_given"]:
        out.append((key("ensemble-setting/dist"), "the ensemble's distribution is not the `dist` argument"))
    if kw["id"] is not None and ec["id"] != kw["id"]:
        out.append((key("ensemble-setting/id"), "id=%r requested, the ensemble has id %r" % (kw["id"], ec["id"])))
    # ---- the members ran under the termination ftol / gtol stand for (class of the gtol argument in the key)
    if kw["step"]:
        bump(hist, "oneliner:step-keyword-given(no-reference-run)")
        return out
    # ---- differential: the same ensemble configured by hand (class API, same seeds) leaves the same members
    ob2, tape2 = run_oneliner(c, explicit=True)
    _ACTIVE["tape"] = tape
    if ob2.get("err"):
        out.append((key("explicit-reference-raises"), "the ensemble configured through the class API raised %s" % ob2["err"]))
        return out
    if not same_pts(obs.get("iv") or [], ob2.get("iv") or []):
        # same seeds, same generator: different starting points mean the point generator was configured differently
        out.append((key("differs-from-explicit/starting-points"), "%s(%r): starting points %r, the explicitly configured ensemble starts at %r" % (
            kind, obs.get("call"), (obs.get("iv") or [])[:4], (ob2.get("iv") or [])[:4])))
        return out
    ma = [(m["e"], m["x"], m["evals"], m["gens"], m["id"]) for m in obs["members"]]
    mb = [(m["e"], m["x"], m["evals"], m["gens"], m["id"]) for m in ob2["members"]]
    same_m = len(ma) == len(mb) and all((x[0] == y[0] or (x[0] is not None and y[0] is not None and same_float(x[0], y[0]))) and same_vec(x[1], y[1]) and x[2:] == y[2:] for x, y in zip(ma, mb))
    if not same_m:
        cfgd = [i for i, (a, b) in enumerate(zip(obs["member_cfg"], ob2["member_cfg"])) if {k_: v for k_, v in a.items() if not k_.endswith("_is")} != {k_: v for k_, v in b.items() if not k_.endswith("_is")}]
        what = ""
        if cfgd:
            a = obs["member_cfg"][cfgd[0]]; b = ob2["member_cfg"][cfgd[0]]
            what = "; member %d is configured differently: %r" % (cfgd[0], {k_: (a[k_], b[k_]) for k_ in a if not k_.endswith("_is") and a[k_] != b[k_]})
        out.append((key("differs-from-explicit/%s/gtol=%s" % (c["nested"], gtol_class(c))), "%s(%r) left members (energy, solution, evaluations, generations, id) %r; the ensemble configured through the class API with what the arguments stand for left %r%s" % (
            kind, obs.get("call"), ma[:4], mb[:4], what)))
        return out
    e1, e2 = obs["ens"], ob2["ens"]
    if not ((e1["e"] == e2["e"] or same_float(e1["e"], e2["e"])) and same_vec(e1["x"], e2["x"]) and e1["evals"] == e2["evals"] and e1["total"] == e2["total"] and e1["best_id"] == e2["best_id"]):
        out.append((key("reports-differently-from-explicit"), "same members, but the one-liner's ensemble reports %r and the explicitly configured one %r" % (
            {k_: e1[k_] for k_ in ("e", "x", "evals", "gens", "total", "best_id")}, {k_: e2[k_] for k_ in ("e", "x", "evals", "gens", "total", "best_id")})))
    elif obs["callbacks"] != ob2["callbacks"] or obs["n_cost"] != ob2["n_cost"]:
        out.append((key("calls-differ-from-explicit"), "callback calls %d vs %d, cost calls %d vs %d" % (obs["callbacks"], ob2["callbacks"], obs["n_cost"], ob2["n_cost"])))
    else:
        bump(hist, "oneliner:same-as-explicitly-configured-ensemble")
    return out


def gen_ensrun(rng, tier):
    """ensembles whose WHOLE run the model predicts: Nelder-Mead members (the ensembles' default nested solver), every
    ensemble kind / API / mode / map, ranges, constraints, penalties, limits, terminations; smooth costs (a simplex with
    tied energies cannot be compared: numpy.argsort leaves the order of ties unspecified)"""
    c = gen_ensemble(rng, tier)
    c["nested"] = "NM" if rng.random() < 0.9 else "Powell"
    c.pop("NP", None)
    c["cost"] = solvergen.gen_cost(rng, c["dim"], allow_vector=False)
    if c.get("ranges") and c["ranges"][3] is False:
        lo, hi, tight, _ = c["ranges"]
        c["ranges"] = (lo, hi, tight, None)
    if c["api"] == "wrapper" and c["map"] == "builtin":
        c["map"] = rng.choice(["fwd", "rev", "shuffle"])       # the members are only visible through the map
    if c["api"] == "class" and c.get("termination") is not None and c["termination"][0] == "CRT" and c["nested"] != "NM":
        c["termination"] = ("VTR", 1e-3, 0.0)
    if c["api"] == "class" and c["mode"] == "solve-step" and not c.get("instance"):
        c["rerun_solve"] = True         # the same configuration is run again in run-to-completion mode and compared
    return c


class Tape:
    def __init__(self):
        self.cur = None
        self.cost = []     # (member, x, y)
        self.con = []      # (member, x_in, x_out)
        self.pen = []      # (member, x, p)
        self.members = None   # the member solvers as the map saw them (last call)
        self.map_calls = 0
        self.order = []
        self.iv = None        # the starting points as generated by `_InitialPoints` (before any member touches them)
        self.created = None   # the member objects as `__init_allSolvers` created them (first map call; kept alive)
        self.dist_log = []    # recorded calls of the ensemble's Distribution
        self.callbacks = 0    # calls of the user's callback


def make_map(c, tape):
    if c["map"] == "builtin":
        return None
    mrng = _random.Random(c["map_seed"])

    def the_map(f, *args, **kw):
        n = len(args[0])
        idx = list(range(n))
        if c["map"] == "rev":
            idx.reverse()
        elif c["map"] == "shuffle":
            mrng.shuffle(idx)
        tape.map_calls += 1
        if tape.created is None:
            tape.created = list(args[0])
            if tape.iv is None and len(args) > 1 and all(x is not None for x in args[1]):
                tape.iv = [vecf(x) for x in args[1]]
        res = [None] * n
        for i in idx:
            tape.cur = i
            a = [x[i] for x in args]
            if c.get("transport") == "pickle":
                # what a process-pool map does to its arguments: a dill pickle round trip of the member solver
                import dill
                a[0] = dill.copy(a[0])
            res[i] = f(*a)
        tape.cur = None
        tape.order.append(idx)
        # the member solvers the ensemble keeps are the ones the map RETURNS
        tape.members = [r[0] for r in res]
        return res
    return the_map


# The member solvers are deep copies of the configured nested solver, and AbstractSolver.__deepcopy__ copies the
# cost with dill.copy: a closure would be pickled BY VALUE (every member would log into its own private copy of the
# tape).  Module-level functions of an importable module are pickled by reference, so all members share these.
_ACTIVE = {"tape": None, "cost": None, "cons": None, "pen": None}


def the_cost(x):
    tape = _ACTIVE["tape"]
    xv = vecf(x)
    y = dsl.ev(_ACTIVE["cost"], xv)
    tape.cost.append((tape.cur, xv, y))
    return y


def the_cost_args(x, shift):
    """the same cost reached through `args=(shift,)` / `ExtraArgs`: a one-liner that drops `args` raises TypeError"""
    return the_cost(x) + shift


def the_callback(x):
    _ACTIVE["tape"].callbacks += 1


def the_constraints(x):
    tape = _ACTIVE["tape"]
    xin = vecf(x)
    y = dsl.con_apply(_ACTIVE["cons"], xin)
    tape.con.append((tape.cur, xin, list(y)))
    return y


def the_penalty(x):
    tape = _ACTIVE["tape"]
    xv = vecf(x)
    p = dsl.ev(_ACTIVE["pen"], xv)
    tape.pen.append((tape.cur, xv, p))
    return p


def make_functions(c, tape):
    _ACTIVE["tape"] = tape
    _ACTIVE["cost"] = c["cost"][1]
    _ACTIVE["cons"] = c.get("constraints")
    _ACTIVE["pen"] = c.get("penalty")
    return the_cost, (the_constraints if c.get("constraints") is not None else None), (the_penalty if c.get("penalty") is not None else None)


def member_view(m):
    be = m.bestEnergy
    try:
        stopped = any("STOP" in str(t) for t in getattr(m._stepmon, "_info", []))
    except Exception:
        stopped = None
    return {"e": float(np.asarray(be, dtype=float).ravel()[0]) if be is not None else None,
            "x": vecf(m.bestSolution), "evals": int(m.evaluations), "gens": int(m.generations),
            "id": m.id, "stopped": stopped}


def ensemble_view(s):
    be = s.bestEnergy
    return {"e": float(np.asarray(be, dtype=float).ravel()[0]) if be is not None else None,
            "x": vecf(s.bestSolution), "evals": int(s.evaluations), "gens": int(s.generations),
            "best_id": s._is_best(), "total": int(s._total_evals), "iters": int(s._total_iters),
            "all_evals": [int(v) for v in s._all_evals], "n": len(s._allSolvers),
            "all_iters": [int(v) for v in s._all_iters],
            "all_x": [None if v is None else vecf(v) for v in s._all_bestSolution],
            "all_e": [None if v is None else float(np.asarray(v, dtype=float).ravel()[0]) for v in s._all_bestEnergy]}


def snapshot(inst):
    """the run state of a solver - everything a Solve/Step advances: counters, best, population, monitors (plus `id`,
    compared with the model only)"""
    def num(v):
        if v is None:
            return None
        try:
            return [float(t) for t in np.asarray(v, dtype=float).ravel()]
        except Exception:
            return repr(v)[:60]
    fc = getattr(inst, "_fcalls", [0])
    return {"evaluations": int(inst.evaluations), "generations": int(inst.generations), "fcalls": int(fc[0]),
            "bestEnergy": num(inst.bestEnergy), "bestSolution": num(inst.bestSolution),
            "population": [num(p_) for p_ in inst.population], "popEnergy": num(inst.popEnergy),
            "trialSolution": num(inst.trialSolution),
            "stepmon": len(inst._stepmon), "evalmon": len(inst._evalmon),
            "stepmon_x": [num(x) for x in getattr(inst._stepmon, "_x", [])][:50],
            "stepmon_y": num(getattr(inst._stepmon, "_y", [])[:50]),
            "id": getattr(inst, "id", None)}


def same_state(a, b):
    if isinstance(a, float) and isinstance(b, float):
        return same_float(a, b)
    if isinstance(a, list) and isinstance(b, list):
        return len(a) == len(b) and all(same_state(x, y) for x, y in zip(a, b))
    return a == b


def alias_pattern(objs):
    """canonical numbering of object identities (first occurrence): [template, members...] -> [0, 1, 2, ...]"""
    seen = {}; out = []
    for o in objs:
        out.append(seen.setdefault(id(o), len(seen)))
    return out


def build_instance(c, cls, cost, cons, pen, same_term, needs_objective):
    """the configured nested solver INSTANCE the user hands to SetNestedSolver / solver=: it carries, of the ensemble-level
    settings, what `inst_cfg` says (all of them, consistently, when there is no `inst_cfg`); `same_term` = the ensemble's
    termination (a mystic condition)"""
    import trace as tr
    inst = cls(c["dim"], c["NP"]) if c.get("NP") else cls(c["dim"])
    cfg = inst_cfg_of(c)
    r = inst_ranges(c)
    if r is not None:
        lo, hi, tight, clip = r
        kw = {}
        if tight is not None:
            kw["tight"] = tight
        if clip is not None:
            kw["clip"] = clip
        inst.SetStrictRanges(list(lo), list(hi), **kw)
    if cons is not None and cfg["constraints"] == "same":
        inst.SetConstraints(cons)
    if pen is not None and cfg["penalty"] == "same":
        inst.SetPenalty(pen)
    inst.SetEvaluationLimits(*inst_limits(c))
    ts = inst_termination_spec(c)
    if ts[0] == "spec":
        inst.SetTermination(tr.make_termination(ts[1]))
    elif ts[0] == "same":
        inst.SetTermination(same_term)
    if c.get("inst_monitors"):
        from mystic.monitors import Monitor
        inst.SetEvaluationMonitor(Monitor())
        inst.SetGenerationMonitor(Monitor())
    if needs_objective:
        # Step-mode ensembles never hand the objective to a configured instance (only `_solve` does, l.776-777):
        # without this the members raise TypeError('NoneType' object is not callable) - a crash, not a C09 result
        inst.SetObjective(cost)
    return inst


def probe_points(spec):
    """points at which every member's own objective is asked after the run: beyond the upper / lower corner of the ensemble's
    box, beyond one face only, and the centre (without ranges: three fixed points)"""
    dim = spec["dim"]
    if spec.get("ranges"):
        lo, hi = spec["ranges"][0], spec["ranges"][1]
        w = [(b - a) if (b > a) else 1.0 for a, b in zip(lo, hi)]
        mid = [a + 0.5 * (b - a) for a, b in zip(lo, hi)]
        pts = [[b + 0.5 * v + 0.125 for b, v in zip(hi, w)], [a - 0.5 * v - 0.125 for a, v in zip(lo, w)], list(mid)]
        one = list(mid); one[-1] = hi[-1] + 2.0 * w[-1] + 0.5
        pts.append(one)
        return pts
    return [[2.75 + 0.5 * i for i in range(dim)], [-3.25 - 0.25 * i for i in range(dim)], [0.125] * dim]


def probe_members(members, spec, tp, limit=3):
    """each member is SUBJECT to the ensemble's bounds, constraints and penalty: the objective the member itself evaluates
    (`_cost[0]`, what its Step / Solve calls) is asked at the probe points and every call of the user's cost / constraints /
    penalty it makes is recorded.  Done after all counters have been observed; the tape is restored."""
    out = []
    for i, m in enumerate(list(members)[:limit]):
        f = getattr(m, "_cost", (None,))[0]
        if f is None:
            continue
        for x in probe_points(spec):
            n0 = (len(tp.cost), len(tp.con), len(tp.pen))
            cur = tp.cur; tp.cur = ("probe", i)
            try:
                v = f(np.array(x, dtype=float))
                v = fnum(v)
            except Exception as e:
                v = "raised %s" % type(e).__name__
            finally:
                tp.cur = cur
            out.append({"member": i, "x": list(x), "value": v, "cost_at": [t[1] for t in tp.cost[n0[0]:]],
                        "con": [(t[1], t[2]) for t in tp.con[n0[1]:]], "pen_at": [t[1] for t in tp.pen[n0[2]:]]})
            del tp.cost[n0[0]:]; del tp.con[n0[1]:]; del tp.pen[n0[2]:]
    return out


def run_ensemble(c):
    """drive a real ensemble; returns observations: a list of states (one per observed moment) + the tape.
    With a configured nested INSTANCE (`instance`) the instance is snapshotted before / after every solve, and with
    `reuse` a second ensemble is built on the same instance afterwards (obs["second"], obs["_tape2"])."""
    import mystic.ensemble as ME
    from mystic.termination import state as tstate
    import trace as tr
    _random.seed(c["seed"]); np.random.seed(c["seed"])
    tape = Tape()
    cost, cons, pen = make_functions(c, tape)
    cls = nested_class(c["nested"])
    obs = {"states": [], "err": None}
    had_np = "NP" in cls.__dict__
    old_np = cls.__dict__.get("NP")

    def the_dist(spec, tp):
        if spec.get("dist"):
            from mystic.math import Distribution
            return Distribution(np.random.normal, 0.0, spec["dist"])
        if spec.get("sdist"):
            return make_dist(spec["sdist"], spec["ranges"][0], spec["ranges"][1], tp.dist_log, 0)
        return None

    def drive(spec, tp, ob, inst):
        """class API: build the ensemble described by `spec`, run it, record the observations in `ob`"""
        the_map = make_map(spec, tp)
        if spec["kind"] == "lattice":
            s = ME.LatticeSolver(spec["dim"], nbins=(spec["N"] if "N" in spec else tuple(spec["nbins"])))
        elif spec["kind"] == "buckshot":
            s = ME.BuckshotSolver(spec["dim"], npts=spec["npts"])
        else:
            s = ME.SparsitySolver(spec["dim"], npts=spec["npts"], rtol=spec.get("rtol"))
        if inst is not None:
            s.SetNestedSolver(inst)
        elif spec.get("NP"):
            s.SetNestedSolver(cls, NP=spec["NP"])
        else:
            s.SetNestedSolver(cls)
        d = the_dist(spec, tp)
        if d is not None:
            s.SetDistribution(d)
        if spec.get("ranges"):
            lo, hi, tight, clip = spec["ranges"]
            kw = {}
            if tight is not None:
                kw["tight"] = tight
            if clip is not None:
                kw["clip"] = clip
            s.SetStrictRanges(list(lo), list(hi), **kw)
        if cons is not None:
            s.SetConstraints(cons)
        if pen is not None:
            s.SetPenalty(pen)
        s.SetEvaluationLimits(*spec["limits"])
        if spec.get("termination") is not None:
            s.SetTermination(tr.make_termination(spec["termination"]))
        if the_map is not None:
            s.SetMapper(the_map)
        ob["requested_term"] = tstate(s._termination)
        ob["npts_attr"] = int(s._npts)
        # the starting points exactly as the ensemble generates them
        orig_ip = s._InitialPoints

        def rec_ip():
            pts = orig_ip()
            tp.iv = [vecf(x) for x in pts]
            return pts
        s._InitialPoints = rec_ip
        # number of ensemble `_Step`s taken (step-wise mode): `Step` looks `_Step` up on the instance
        orig_estep = s._Step
        ob["n_ens_steps"] = 0
        ob["trace"] = []          # after every ensemble `_Step`: (reported energy, the members' energies, id of the best)
        bound = step_bound(spec)

        def cnt_estep(*a, **k):
            if ob["n_ens_steps"] >= bound:
                # a loop over `Step` (Solve(step=True)) that is still running although every member must have met the
                # ensemble's limits long ago: stop it and look at what it left (monitor: step-mode-does-not-stop)
                raise StepBound(ob["n_ens_steps"])
            ob["n_ens_steps"] += 1
            r = orig_estep(*a, **k)
            if len(ob["trace"]) < 400:
                try:
                    ob["trace"].append((fnum(s.bestEnergy), [fnum(e) for e in s._all_bestEnergy], s._is_best()))
                except Exception:
                    pass
            return r
        s._Step = cnt_estep

        def bounded(tag, **kw):
            """a Solve of the ensemble; a Step loop that does not end is cut off and described"""
            try:
                s.Solve(cost, disp=0, **kw)
            except StepBound:
                ob["step_bound"] = {"steps": ob["n_ens_steps"], "bound": bound, "limits": list(spec["limits"]),
                                    "members_terminated": [bool(m.Terminated()) for m in s._allSolvers],
                                    "member_generations": [int(m.generations) for m in s._allSolvers],
                                    "ensemble_terminated": bool(s.Terminated()), "tag": tag,
                                    "ensemble_generations": int(s.generations)}
                tag = tag + ":cut-off"
            observe(tag)

        def observe(tag):
            st = ensemble_view(s)
            st["tag"] = tag
            st["members"] = [member_view(m) for m in s._allSolvers]
            st["n_cost"] = len(tp.cost)
            st["per_member_cost"] = per_member_counts(tp, len(s._allSolvers))
            ob["states"].append(st)
        with RandPatch() as rp:         # numpy.random.rand passes through unchanged and is recorded (samplepts' matrix)
            if spec["mode"] == "solve":
                bounded("solve")
            elif spec["mode"] == "solve-step":
                bounded("solve-step", step=True)
            else:
                for k in range(spec["nsteps"]):
                    s.Step(cost, disp=0)
                    observe("step%d" % k)
                # a SECOND reduction over the same members in the other mode: the members taken this far step by step
                # are run to completion by Solve() (`_solve` continues every existing member) / Solve(step=True)
                if spec["mode"] == "steps+solve":
                    bounded("then-solve")
                elif spec["mode"] == "steps+solve-step":
                    bounded("then-solve-step", step=True)
        if spec["kind"] == "buckshot" and not spec.get("sdist") and rp.log and rp.log[0].shape == (spec["dim"], spec["npts"]):
            ob["us"] = rp.log[0].tolist()
        ob["member_cfg"] = [member_cfg(m, tstate) for m in s._allSolvers]
        ob["iv"] = tp.iv
        ob["at"] = int(s.id) if s.id else 0
        if tp.created is None:
            tp.created = list(s._allSolvers)       # builtin map, in process: the created objects are the kept ones
        ob["probes"] = probe_members(s._allSolvers, spec, tp)
        return s

    try:
        if c["api"] == "wrapper":
            the_map = make_map(c, tape)
            fn = getattr(ME, c["kind"])
            first = c["N"] if "N" in c else (tuple(c["nbins"]) if "nbins" in c else c["npts"])
            kw = dict(full_output=1, disp=0, solver=cls, ftol=c["ftol"], gtol=c["gtol"],
                      maxiter=c["limits"][0], maxfun=c["limits"][1])
            if c.get("NP"):
                cls.NP = c["NP"]          # what SetNestedSolver(solver, NP=..) does
            if c.get("instance"):
                # solver=<configured instance> ("override the default nested Solver instance")
                winst = build_instance(c, cls, cost, cons, pen, requested_termination(c), False)
                kw["solver"] = winst
                obs["template"] = {"snaps": [snapshot(winst)]}
            if c.get("ranges"):
                lo, hi, tight, clip = c["ranges"]
                kw["bounds"] = list(zip(lo, hi))
                if tight is not None:
                    kw["tightrange"] = tight
                if clip is not None:
                    kw["cliprange"] = clip
            if cons is not None:
                kw["constraints"] = cons
            if pen is not None:
                kw["penalty"] = pen
            if the_map is not None:
                kw["map"] = the_map
            if c["kind"] == "sparsity" and c.get("rtol") is not None:
                kw["rtol"] = c["rtol"]
            d = the_dist(c, tape)
            if d is not None:
                kw["dist"] = d
            ret = fn(cost, c["dim"], first, **kw)
            obs["ret"] = {"x": vecf(ret[0]), "fval": float(np.asarray(ret[1], dtype=float).ravel()[0]), "iterations": int(ret[2]),
                          "fcalls": int(ret[3]), "warnflag": int(ret[4]), "all_fcalls": int(ret[5])}
            obs["n_cost"] = len(tape.cost)
            obs["iv"] = tape.iv
            if tape.members is not None:
                obs["members"] = [member_view(m) for m in tape.members]
                obs["member_cfg"] = [member_cfg(m, tstate) for m in tape.members]
                obs["probes"] = probe_members(tape.members, c, tape)
            obs["requested_term"] = tstate(requested_termination(c))
            if c.get("instance"):
                obs["template"]["snaps"].append(snapshot(winst))
                obs["inst_cfg_view"] = member_cfg(winst, tstate)
            return obs, tape
        inst = None
        if c.get("instance"):
            # the user configures the nested solver himself (all / some / none of the ensemble-level settings); it is used as it is
            if c.get("termination") is not None:
                same_term = tr.make_termination(c["termination"])
            else:
                from mystic.termination import NormalizedChangeOverGeneration
                same_term = NormalizedChangeOverGeneration(1e-4)
            inst = build_instance(c, cls, cost, cons, pen, same_term,
                                  c["mode"] != "solve" or bool(c.get("reuse") and c["reuse"]["mode"] != "solve"))
            obs["inst_has_objective"] = inst._cost[1] is not None
            obs["template"] = {"snaps": [snapshot(inst)]}
            obs["inst_cfg_view"] = member_cfg(inst, tstate)
        drive(c, tape, obs, inst)
        if inst is not None:
            obs["template"]["snaps"].append(snapshot(inst))
            objs = [inst] + list(tape.created)
            if c.get("reuse"):
                c2 = second_spec(c)
                tape2 = Tape()
                _ACTIVE["tape"] = tape2
                ob2 = {"states": [], "err": None}
                obs["second"] = ob2; obs["_tape2"] = tape2
                try:
                    drive(c2, tape2, ob2, inst)
                except Exception as e:
                    import traceback
                    ob2["err"] = "%s: %s" % (type(e).__name__, e)
                    ob2["tb"] = traceback.format_exc()[-1500:]
                obs["template"]["snaps"].append(snapshot(inst))
                objs += list(tape2.created or [])
                ob2["inst_cfg_view"] = obs["inst_cfg_view"]; ob2["inst_has_objective"] = obs["inst_has_objective"]
            obs["template"]["alias"] = alias_pattern(objs)
        return obs, tape
    except Exception as e:
        import traceback
        obs["err"] = "%s: %s" % (type(e).__name__, e)
        obs["tb"] = traceback.format_exc()[-1500:]
        return obs, tape
    finally:
        if had_np:
            cls.NP = old_np
        elif "NP" in cls.__dict__:
            del cls.NP


class StepBound(Exception):
    pass


def step_bound(spec):
    """ensemble Steps after which every member has met the ensemble's limits for certain: a member takes one iteration
    (at least one evaluation) per ensemble Step, so it stops within max(maxiter, maxfun) + 2 of them; None = no finite
    limit was set (the nested solver's own defaults, dim * 200 / 1000 at most... per member): a generous constant"""
    fin = [v for v in spec["limits"] if v is not None]
    return 2 * max(fin) + 20 if fin else 20000


def fnum(v):
    return None if v is None else float(np.asarray(v, dtype=float).ravel()[0])


def clip_box(x, lo, hi):
    return [min(max(v, a), b) for v, a, b in zip(x, lo, hi)]


def per_member_counts(tape, n):
    if any(t[0] is None for t in tape.cost):
        return None
    cnt = [0] * n
    for m, _, _ in tape.cost:
        if 0 <= m < n:
            cnt[m] += 1
    return cnt


def member_cfg(m, tstate):
    return {"cons_given": m._constraints is the_constraints, "pen_given": m._penalty is the_penalty,
            "useStrict": bool(m._useStrictRange), "min": vecf(m._strictMin), "max": vecf(m._strictMax),
            "tight": m._useTightRange, "clip": m._useClipRange, "maxiter": m._maxiter, "maxfun": m._maxfun,
            "term": tstate(m._termination), "cons_is": id(m._constraints), "pen_is": id(m._penalty),
            "class": type(m).__name__, "dim": int(m.nDim)}


def line_best(members):
    ms = " ".join("(%s %s %d %d %d)" % (f2b(m["e"]), fl(m["x"]), m["evals"], m["gens"], m["id"]) for m in members)
    return "C09 best (prev none) (members (%s))" % ms


def line_bestseq(c, ob):
    """a reduction repeated over the same members: the member lists every reduction saw (after each ensemble Step, after the
    final Solve of the mixed modes) -> the model threads `_bestSolver` through them as the code does (live member with an
    in-process map, stale copy with a pickling one)"""
    sts = ob.get("states") or []
    if c["api"] != "class" or len(sts) < 2 or any(m["e"] is None or m["id"] is None for st in sts for m in st["members"]) or not sts[0]["members"]:
        return None
    steps = " ".join("(" + " ".join("(%s %s %d %d %d)" % (f2b(m["e"]), fl(m["x"]), m["evals"], m["gens"], m["id"]) for m in st["members"]) + ")" for st in sts)
    return "C09 bestseq (live %s) (steps (%s))" % ("false" if c.get("transport") == "pickle" else "true", steps)


def compare_bestseq(c, ob, rep):
    r = parse_reply(rep)
    if r[0] != "ok":
        return ["model replied %r" % rep[:200]]
    d = []
    best = r[1]["best"]; sts = ob["states"]
    if len(best) != len(sts):
        return ["model returned %d reductions, %d observed" % (len(best), len(sts))]
    for b, st in zip(best, sts):
        if b == "none":
            d.append("%s: the model has no best member" % st["tag"]); break
        bad = []
        if not same_float(b2f(b[0]), st["e"]):
            bad.append("energy model=%r impl=%r" % (b2f(b[0]), st["e"]))
        if not same_vec(floats_of(b[1]), st["x"]):
            bad.append("solution model=%r impl=%r" % (floats_of(b[1]), st["x"]))
        if int(b[2]) != st["evals"]:
            bad.append("evaluations model=%s impl=%r" % (b[2], st["evals"]))
        if c["nested"] != "Powell" and int(b[3]) != st["gens"]:
            bad.append("generations model=%s impl=%r" % (b[3], st["gens"]))
        if st["best_id"] is not None and int(b[4]) != st["best_id"]:
            bad.append("best member id model=%s impl=%r" % (b[4], st["best_id"]))
        if bad:
            d.append("%s (reduction %d of %d over the same members): %s" % (st["tag"], sts.index(st), len(sts), "; ".join(bad)))
            break
    return d


def term_tokens(state):
    """mystic.termination.state(cond) of a primitive condition -> the model's token form"""
    if len(state) != 1:
        return ("other", sorted(state))
    doc, kw = list(state.items())[0]
    g = lambda v: "none" if v is None else str(int(v))
    if doc.startswith("NormalizedChangeOverGeneration"):
        return ("ncog", f2b(kw["tolerance"]), g(kw["generations"]))
    if doc.startswith("VTRChangeOverGeneration"):
        return ("vtrcog", f2b(kw["ftol"]), f2b(kw["gtol"]), g(kw["generations"]), f2b(kw["target"]))
    return ("other", doc)


def line_oneliner(c, ob):
    """the one-liner's arguments -> the members' configuration, by the model (Model/EnsembleRun `oneliner`)"""
    if ob.get("err") or not ob.get("member_cfg") or c.get("instance"):
        return None
    kw = c.get("kw") or {"omit": [], "id": None}
    omit = set(kw["omit"])
    first = "(nbinsInt %d)" % c["N"] if "N" in c else ("(nbins %s)" % nl(c["nbins"]) if "nbins" in c else "(npts %d)" % c["npts"])
    g = "absent" if "gtol" in omit else ("none" if c["gtol"] is None else str(int(c["gtol"])))
    ob_ = lambda v: "none" if v is None else ("true" if v else "false")
    on_ = lambda v: "none" if v is None else str(int(v))
    if c.get("ranges"):
        lo, hi, tight, clip = c["ranges"]
        bnd = "(%s %s)" % (fl(lo), fl(hi))
    else:
        bnd = "none"; tight = clip = None
    return "C09 oneliner (kind %s) (first %s) (ftol %s) (gtol %s) (maxiter %s) (maxfun %s) (bounds %s) (tight %s) (clip %s) (cons %s) (pen %s) (dist %s) (rtol %s) (id %s)" % (
        c["kind"], first, f2b(c["ftol"]), g, on_(c["limits"][0]), on_(c["limits"][1]), bnd, ob_(tight), ob_(clip),
        ob_(c.get("constraints") is not None), ob_(c.get("penalty") is not None), ob_(bool(c.get("dist") or c.get("sdist"))),
        "none" if c.get("rtol") is None else f2b(c["rtol"]), on_(kw.get("id")))


def compare_oneliner(c, ob, rep):
    r = parse_reply(rep)
    if r[0] != "ok":
        return ["model replied %r" % rep[:200]]
    kv = r[1]; d = []
    cfgs = ob["member_cfg"]; ms = ob["members"]
    if int(kv["n"]) != len(cfgs):
        return ["member count model=%s impl=%d" % (kv["n"], len(cfgs))]
    ec = ob.get("ens_cfg")
    if ec is not None:
        if int(kv["at"]) != (int(ec["id"]) if ec["id"] else 0):
            d.append("ensemble id model=%s impl=%r" % (kv["at"], ec["id"]))
        mr = None if kv["rtol"] == "none" else b2f(kv["rtol"])
        if c["kind"] == "sparsity" and not (mr == ec["rtol"]):
            d.append("rtol model=%r impl=%r" % (mr, ec["rtol"]))
        if (kv["dist"] == "true") != bool(ec["dist_is_given"]) and (c.get("dist") or c.get("sdist")):
            d.append("distribution model=%s impl: the ensemble's _dist is%s the argument" % (kv["dist"], "" if ec["dist_is_given"] else " not"))
    for i, (mm, mc, mv) in enumerate(zip(kv["members"], cfgs, ms)):
        bad = []
        if mv["id"] is not None and int(mm[0]) != mv["id"]:
            bad.append("id model=%s impl=%r" % (mm[0], mv["id"]))
        tt = term_tokens(mc["term"])
        if tuple(mm[1]) != tuple(tt):
            bad.append("termination model=%r impl=%r" % (tuple(mm[1]), tt))
        for j, nm in enumerate(("maxiter", "maxfun")):
            if mm[2][j] != "none" and int(mm[2][j]) != mc[nm]:
                bad.append("%s model=%s impl=%r" % (nm, mm[2][j], mc[nm]))
        if mm[3] == "none":
            if mc["useStrict"]:
                bad.append("strict ranges: none in the model, impl %r..%r" % (mc["min"], mc["max"]))
        else:
            tb = lambda t: None if t == "none" else (t == "true")
            if not mc["useStrict"] or not same_vec(floats_of(mm[3][0]), mc["min"]) or not same_vec(floats_of(mm[3][1]), mc["max"]) or tb(mm[3][2]) != mc["tight"] or tb(mm[3][3]) != mc["clip"]:
                bad.append("ranges model=%r impl=%r..%r tight=%r clip=%r strict=%r" % (mm[3], mc["min"], mc["max"], mc["tight"], mc["clip"], mc["useStrict"]))
        if (mm[4] == "true") != bool(mc["cons_given"]):
            bad.append("constraints given: model=%s impl=%r" % (mm[4], mc["cons_given"]))
        if (mm[5] == "true") != bool(mc["pen_given"]):
            bad.append("penalty given: model=%s impl=%r" % (mm[5], mc["pen_given"]))
        if bad:
            d.append("member %d: %s" % (i, "; ".join(bad)))
            break
    return d


def requested_count(c):
    if "N" in c:
        return c["N"]
    if "nbins" in c:
        n = 1
        for b in c["nbins"]:
            n *= b
        return n
    return c["npts"]


def leaders_of(trace):
    """index of the member with the least energy after every ensemble Step (None where an energy is missing)"""
    out = []
    for _, es, _ in trace:
        out.append(None if (not es or any(e is None or e != e for e in es)) else es.index(min(es)))
    return out


def lead_stats(trace, hist, n):
    """coverage of 'a repeated reduction over the same members': does the lead change hands, who takes it"""
    ld = [l for l in leaders_of(trace) if l is not None]
    if len(ld) < 2:
        return
    bump(hist, "lead:runs-with->=2-reductions")
    ch = [(a, b) for a, b in zip(ld, ld[1:]) if a != b]
    if not ch:
        bump(hist, "lead:never-changes"); return
    bump(hist, "lead:changes-hands")
    if len(ch) >= 2:
        bump(hist, "lead:changes-hands->=2-times")
    if any(b == 0 for _, b in ch):
        bump(hist, "lead:member-0-overtakes-later")
    if any(b == n - 1 for _, b in ch):
        bump(hist, "lead:last-member-overtakes-later")
    if any(0 < b < n - 1 for _, b in ch):
        bump(hist, "lead:inner-member-overtakes-later")
    if any(b < a for a, b in ch):
        bump(hist, "lead:earlier-member-overtakes-a-later-one")
    if any(b > a for a, b in ch):
        bump(hist, "lead:later-member-overtakes-an-earlier-one")


F71_KEY = "ensemble/members-not-subject-to-ensemble-ranges-constraints-penalty/nested-instance-runs-its-own-objective"


def inst_own_objective(c, obs):
    """a configured INSTANCE that already has an objective runs that objective in every mode (`_solve` hands the ensemble's
    decorated cost over only `if solver._cost[1] is None`, `_step` hands over nothing)"""
    return bool(c.get("instance")) and (c["mode"] != "solve" or bool(obs.get("inst_has_objective")))


def monitor_ensemble(c, obs, tape, hist, tag=""):
    """the property on the real results (no model involved); `tag` marks the clauses of a second ensemble built on a
    reused nested instance"""
    out = []
    if obs["err"]:
        if c.get("instance") and (c.get("kw") or {}).get("args") and obs["err"].startswith("TypeError") and "takes at most" in obs["err"]:
            # known finding F73: `_solve` hands a configured instance the ensemble's DECORATED cost (ExtraArgs already bound by
            # wrap_function) together with ExtraArgs again (l.776-777 SetObjective(cost, ExtraArgs=ExtraArgs))
            out.append(("ensemble/raises/nested-instance-handed-the-decorated-cost-with-ExtraArgs-again",
                        "%s(cost, args=(..), solver=<configured %s instance>) raised %s" % (c["kind"], c["nested"], obs["err"])))
            return out
        out.append(("ensemble/raises%s/%s/%s" % (tag, c["kind"], c["nested"]), "ensemble run raised %s" % obs["err"]))
        return out
    want_n = requested_count(c)
    tagged = c["map"] != "builtin"
    lo = hi = None
    if c.get("ranges"):
        lo, hi = c["ranges"][0], c["ranges"][1]
    key = lambda clause: "ensemble/%s%s/%s/%s" % (clause, tag, c["kind"], c["nested"])

    def check_members(members, rep_e, rep_x, rep_evals, total, n_cost, per_member, where):
        es = [m["e"] for m in members]
        if any(e is None or e != e for e in es):
            out.append((key("member-energy-missing"), "%s: member energies %r" % (where, es))); return
        mn = min(es)
        if not same_float(rep_e, mn) and rep_e != mn:
            out.append((key("best-not-minimum"), "%s: reported best energy %r, minimum over the members is %r (%r)" % (where, rep_e, mn, es)))
        elif not any(m["e"] == mn and same_vec(m["x"], rep_x) for m in members):
            out.append((key("solution-not-of-best-member"), "%s: reported solution %r is not the solution of a member with the minimal energy %r: %r" % (
                where, rep_x, mn, [(m["e"], m["x"]) for m in members])))
        elif rep_evals is not None and not any(m["e"] == mn and same_vec(m["x"], rep_x) and m["evals"] == rep_evals for m in members):
            out.append((key("evaluations-not-of-best-member"), "%s: reported evaluations %r do not belong to the best member" % (where, rep_evals)))
        s = sum(m["evals"] for m in members)
        if total != s:
            out.append((key("total-not-sum"), "%s: total evaluations %r, sum over members %r" % (where, total, s)))
        # known finding F72: a member copied from a configured instance WITHOUT the ensemble's ranges receives the ensemble's
        # decorated cost as its raw objective and counts every call of it - also those the ensemble's bounds wrapper answers
        # with inf without calling the user's cost (tools.wrap_bounds l.419-425).  Strongest true statement inside the class:
        # no member reports FEWER evaluations than real calls.
        counted_rejections = (bool(c.get("instance")) and c["mode"] == "solve" and not obs.get("inst_has_objective") and bool(c.get("ranges"))
                              and inst_cfg_of(c)["ranges"] != "same")
        if total != n_cost:
            if counted_rejections and total > n_cost:
                out.append(("ensemble/total-not-real-calls/nested-instance-counts-evaluations-rejected-by-the-ensemble-bounds",
                            "%s: total evaluations %r, the cost was really called %d times (members are copies of a configured %s instance without the ensemble's ranges: calls of the handed-over objective that its bounds wrapper rejects are counted)" % (where, total, n_cost, c["nested"])))
            else:
                out.append((key("total-not-real-calls"), "%s: total evaluations %r, the cost was really called %d times" % (where, total, n_cost)))
        if per_member is not None:
            bad = [i for i, m in enumerate(members) if m["evals"] != per_member[i]]
            if bad and counted_rejections:
                bad = [i for i in bad if members[i]["evals"] < per_member[i]]
            if bad:
                out.append((key("member-count-not-real-calls"), "%s: member evaluations %r, real calls per member %r" % (where, [m["evals"] for m in members], per_member)))
        if len(members) != want_n:
            out.append((key("member-count"), "%s: %d members, %d requested" % (where, len(members), want_n)))
        ids = [m["id"] for m in members]
        at = obs.get("at") or 0          # `op.id = i + at`, `at` = the ensemble's own id (the one-liners' `id` keyword)
        if ids != list(range(at, at + len(members))):
            out.append((key("member-ids"), "%s: member ids %r (ensemble id %r)" % (where, ids, at)))

    if c["api"] == "wrapper":
        r = obs["ret"]
        if "members" in obs:
            check_members(obs["members"], r["fval"], r["x"], r["fcalls"], r["all_fcalls"], obs["n_cost"],
                          per_member_counts(tape, len(obs["members"])), "return tuple")
        else:
            if r["all_fcalls"] != obs["n_cost"]:
                if (c.get("instance") and c.get("ranges") and inst_cfg_of(c)["ranges"] != "same" and r["all_fcalls"] > obs["n_cost"]):
                    out.append(("ensemble/total-not-real-calls/nested-instance-counts-evaluations-rejected-by-the-ensemble-bounds",
                                "return tuple: all_fcalls %r, the cost was really called %d times (solver=<configured %s instance without the ensemble's ranges>)" % (r["all_fcalls"], obs["n_cost"], c["nested"])))
                else:
                    out.append((key("total-not-real-calls"), "return tuple: all_fcalls %r, the cost was really called %d times" % (r["all_fcalls"], obs["n_cost"])))
    else:
        if obs["npts_attr"] != want_n:
            out.append((key("member-count"), "_npts = %d, %d requested" % (obs["npts_attr"], want_n)))
        for st in obs["states"]:
            check_members(st["members"], st["e"], st["x"], st["evals"], st["total"], st["n_cost"], st["per_member_cost"], st["tag"])
            if st["all_evals"] != [m["evals"] for m in st["members"]]:
                out.append((key("all-evals"), "%s: _all_evals %r vs members %r" % (st["tag"], st["all_evals"], [m["evals"] for m in st["members"]])))
            # the `_all_*` views are the members' own values, slot by slot (in member order)
            if st.get("all_iters") is not None and st["all_iters"] != [m["gens"] for m in st["members"]]:
                out.append((key("all-iters"), "%s: _all_iters %r vs the members' generations %r" % (st["tag"], st["all_iters"], [m["gens"] for m in st["members"]])))
            elif st.get("all_iters") is not None and st["iters"] != sum(m["gens"] for m in st["members"]):
                out.append((key("total-iters-not-sum"), "%s: _total_iters %r, sum of the members' generations %r" % (st["tag"], st["iters"], sum(m["gens"] for m in st["members"]))))
            if st.get("all_e") is not None and not (len(st["all_e"]) == len(st["members"]) and all(
                    (a is None and m["e"] is None) or (a is not None and m["e"] is not None and (same_float(a, m["e"]) or a == m["e"])) for a, m in zip(st["all_e"], st["members"]))):
                out.append((key("all-bestEnergy"), "%s: _all_bestEnergy %r vs the members' best energies %r" % (st["tag"], st["all_e"], [m["e"] for m in st["members"]])))
            if st.get("all_x") is not None and not (len(st["all_x"]) == len(st["members"]) and all(
                    a is not None and same_vec(a, m["x"]) for a, m in zip(st["all_x"], st["members"]))):
                out.append((key("all-bestSolution"), "%s: _all_bestSolution %r vs the members' best solutions %r" % (st["tag"], st["all_x"], [m["x"] for m in st["members"]])))
            if out:
                break
        # step-wise mode, seen from inside: after EVERY ensemble Step of a Solve(step=True) / Step loop the reported energy is
        # the least of the members' (the reduction is repeated over the same members; whoever leads may change)
        if not out:
            for k_, (re_, es_, bid_) in enumerate(obs.get("trace") or []):
                if re_ is None or any(e is None or e != e for e in es_):
                    continue
                if re_ != min(es_):
                    out.append((key("best-not-minimum"), "%s mode, after ensemble Step %d: reported best energy %r (member id %r), minimum over the members is %r (member %d): %r; leaders so far %r" % (
                        c["mode"], k_, re_, bid_, min(es_), es_.index(min(es_)), es_, leaders_of(obs["trace"][:k_ + 1])[:40])))
                    break
        sb = obs.get("step_bound")
        if sb:
            # every member is subject to the ensemble's limits and termination - in step-wise mode as well: once all of
            # them have stopped, the loop over Step must end
            out.append((key("step-mode-does-not-stop"), "Solve(step=True) was still taking ensemble Steps after %d of them (limits %r: every member stops within %d): members terminated %r (generations %r), ensemble.Terminated() = %r with generations = %r" % (
                sb["steps"], sb["limits"], sb["bound"], sb["members_terminated"], sb["member_generations"], sb["ensemble_terminated"], sb["ensemble_generations"])))
        # step-wise mode: a member that has stopped (its own Step() returned a message: STOP record in its step monitor)
        # is not advanced by later ensemble Steps - same result, same counters, no further cost calls
        for a, b in zip(obs["states"], obs["states"][1:]):
            if out:
                break
            for i, (ma, mb) in enumerate(zip(a["members"], b["members"])):
                if not ma.get("stopped"):
                    continue
                same = (ma["evals"] == mb["evals"] and ma["gens"] == mb["gens"] and same_vec(ma["x"], mb["x"]) and
                        (same_float(ma["e"], mb["e"]) or ma["e"] == mb["e"]))
                calls_same = a["per_member_cost"] is None or b["per_member_cost"] is None or a["per_member_cost"][i] == b["per_member_cost"][i]
                rest_same = (ma["evals"] == mb["evals"] and ma["gens"] == mb["gens"] and (same_float(ma["e"], mb["e"]) or ma["e"] == mb["e"]) and calls_same)
                if rest_same and not same and inst_own_objective(c, obs) and lo is not None and same_vec(clip_box(ma["x"], lo, hi), mb["x"]):
                    # known finding F71 (members of a configured instance that runs its own objective are not confined to the
                    # ensemble's ranges) seen after the member has stopped: `__update_state` makes the ensemble's population the
                    # best member's (same arrays), and the ensemble's own `_decorate_objective` clips it in place at the next Step
                    out.append((F71_KEY, "member %d had stopped at %s with bestSolution %r outside the ensemble's ranges; the next ensemble Step replaced it by its clipped image %r, keeping the energy %r (no work done: counters and cost calls unchanged)" % (
                        i, a["tag"], ma["x"], mb["x"], ma["e"])))
                    break
                if rest_same and not same and c["nested"] == "NM" and lo is not None and same_vec(clip_box(ma["x"], lo, hi), mb["x"]):
                    # known finding F20 seen through the ensemble: the stopped member's Step re-decorates its objective
                    # (`_live` is False after Finalize) and Nelder-Mead's `_decorate_objective` clips population[0] into the
                    # strict ranges, keeping the old energy.  No work is done (checked: counters, energy, cost calls).
                    out.append(("ensemble/finished-member-solution-clipped/NM-strict-ranges-redecoration",
                                "member %d had stopped at %s with bestSolution %r (outside the strict ranges: Nelder-Mead stores pre-constraint vertices) and the next ensemble Step replaced it by its clipped image %r, keeping the energy %r" % (
                                    i, a["tag"], ma["x"], mb["x"], ma["e"])))
                    break
                if not same or not calls_same:
                    out.append((key("finished-member-advanced"), "member %d had stopped at %s (%r) and was changed by the next ensemble Step (%r); its cost calls %r -> %r" % (
                        i, a["tag"], {k_: ma[k_] for k_ in ("e", "x", "evals", "gens")}, {k_: mb[k_] for k_ in ("e", "x", "evals", "gens")},
                        None if a["per_member_cost"] is None else a["per_member_cost"][i], None if b["per_member_cost"] is None else b["per_member_cost"][i])))
                    break
                bump(hist, "ens:finished-member-left-alone")
    # ---- starting points as the ensemble generates them (what `_InitialPoints` hands to the members)
    iv = obs.get("iv")
    if iv is not None:
        if len(iv) != want_n or any(len(p_) != c["dim"] for p_ in iv):
            out.append((key("starting-points-count"), "%d starting points of dimensions %r generated, %d members of dimension %d requested" % (
                len(iv), sorted(set(len(p_) for p_ in iv)), want_n, c["dim"])))
        else:
            blo, bhi = (lo, hi) if lo is not None else ([-1000.0] * c["dim"], [1000.0] * c["dim"])
            noisy = bool(c.get("dist")) and c["kind"] != "buckshot"
            for i, p_ in enumerate(iv):
                if any(not (a <= v <= b) for v, a, b in zip(p_, blo, bhi)):
                    if noisy:
                        # lattice / sparsity add the distribution's noise to the grid / space-filling points without
                        # clipping (gridpts l.33-38, fillpts l.115-120); the member clips its start (checked below on
                        # the first evaluated point): counted, not reported
                        bump(hist, "ens:noisy-start-generated-outside-ranges")
                        break
                    out.append((key("start-generated-outside-ranges"), "member %d: generated starting point %r outside [%r, %r]%s" % (
                        i, p_, blo, bhi, " (distribution %r)" % (c.get("sdist"),) if c.get("sdist") else "")))
                    break
            else:
                bump(hist, "ens:generated-starts-inside-ranges")
            if c["kind"] == "lattice" and "nbins" in c and not c.get("dist") and not out:
                for i, p_ in enumerate(iv):
                    r = i; idx = [0] * c["dim"]
                    for d in range(c["dim"] - 1, -1, -1):
                        idx[d] = r % c["nbins"][d]; r //= c["nbins"][d]
                    if not all(cell_centre_ok(p_[d], blo[d], bhi[d], idx[d], c["nbins"][d], False) for d in range(c["dim"])):
                        out.append((key("generated-start-not-cell-centre"), "member %d: generated starting point %r is not the centre of its cell %r of %r in [%r, %r]" % (i, p_, idx, c["nbins"], blo, bhi)))
                        break
    # ---- starting points: the first point each member works on
    if tagged:
        nmem = want_n
        first_cost = {}; first_con = {}
        for m, x, _ in tape.cost:
            first_cost.setdefault(m, x)
        for m, xin, xout in tape.con:
            first_con.setdefault(m, (xin, xout))
        for i in range(nmem):
            if i not in first_cost:
                bump(hist, "ens:member-without-evaluation")
                continue
            # with constraints the first evaluated point is constraints(start): the start is the first constraints input
            x0 = first_con[i][0] if i in first_con else first_cost[i]
            ev0 = first_cost[i]
            if lo is not None and not inst_own_objective(c, obs):      # (else: every evaluation is looked at below, F71)
                if any(not (a <= v <= b) for v, a, b in zip(ev0, lo, hi)):
                    out.append((key("first-evaluation-outside-ranges"), "member %d: first evaluated point %r outside [%r, %r]" % (i, ev0, lo, hi)))
                    break
                if c.get("instance") and inst_cfg_of(c)["ranges"] != "same" and c.get("dist") and c["kind"] != "buckshot":
                    # a noisy generated start (outside the box, see above) is clipped by a member that HAS the ranges; a copy of
                    # an instance without them keeps it as its own iterate and the handed-over objective maps it into the box
                    # before the first evaluation (checked just above): the pre-constraint iterate is F58's (C02) subject
                    bump(hist, "ens:instance-without-ranges:noisy-start-mapped-by-the-handed-over-objective")
                elif any(not (a <= v <= b) for v, a, b in zip(x0, lo, hi)):
                    out.append((key("start-outside-ranges"), "member %d: starting point %r outside [%r, %r]" % (i, x0, lo, hi)))
                    break
            if c["kind"] == "lattice" and "nbins" in c and not c.get("dist"):
                blo, bhi = (lo, hi) if lo is not None else ([-1000.0] * c["dim"], [1000.0] * c["dim"])
                r = i; idx = [0] * c["dim"]
                for d in range(c["dim"] - 1, -1, -1):
                    idx[d] = r % c["nbins"][d]; r //= c["nbins"][d]
                okc = all(cell_centre_ok(x0[d], blo[d], bhi[d], idx[d], c["nbins"][d], False) for d in range(c["dim"]))
                if not okc:
                    out.append((key("start-not-cell-centre"), "member %d starts at %r, not the centre of its cell %r of %r in [%r, %r]" % (i, x0, idx, c["nbins"], blo, bhi)))
                    break
                bump(hist, "ens:start-is-cell-centre")
    # ---- every member carries the ensemble's configuration
    cfgs = obs.get("member_cfg")
    is_inst = bool(c.get("instance"))
    # a configured INSTANCE that already has an objective runs that objective in every mode (`_solve` hands the ensemble's
    # decorated cost over only `if solver._cost[1] is None`, `_step` hands over nothing): known finding F71
    own_objective = inst_own_objective(c, obs)
    if cfgs and is_inst:
        # members of a configured instance are COPIES of it (strongest true statement on the members' own attributes); the
        # ensemble's ranges / constraints / penalty reach them through the objective (checked below on the real calls and on
        # the members' own objective); the ensemble's limits and termination have no other carrier than the members' attributes
        iv_ = obs.get("inst_cfg_view")
        for i, mc in enumerate(cfgs):
            if iv_ is not None:
                diff = [k_ for k_ in ("cons_given", "pen_given", "useStrict", "min", "max", "tight", "clip", "maxiter", "maxfun", "term", "class", "dim")
                        if mc[k_] != iv_[k_] and not (isinstance(mc[k_], list) and same_vec(mc[k_], iv_[k_]))
                        and not (k_ in ("maxiter", "maxfun") and iv_[k_] is None)]      # a limit left open is filled in by the member's own Solve
                if diff:
                    out.append((key("member-not-a-copy-of-the-nested-instance"), "member %d differs from the configured instance it was copied from in %r: %r vs %r" % (
                        i, diff, {k_: mc[k_] for k_ in diff}, {k_: iv_[k_] for k_ in diff})))
                    break
            mi, mf = c["limits"]
            if (mi is not None and mc["maxiter"] != mi) or (mf is not None and mc["maxfun"] != mf):
                out.append(("ensemble/member-keeps-own-limits/nested-instance-used-as-configured",
                            "the ensemble's limits are (%r, %r); member %d (a copy of the configured %s instance) runs under (%r, %r)" % (mi, mf, i, c["nested"], mc["maxiter"], mc["maxfun"])))
                break
            want_t = obs.get("requested_term")
            if want_t is not None and mc["term"] != want_t:
                out.append(("ensemble/member-keeps-own-termination/nested-instance-used-as-configured",
                            "the ensemble's termination is %r; member %d (a copy of the configured %s instance) runs under %r" % (sorted(want_t), i, c["nested"], sorted(mc["term"]))))
                break
    if cfgs:
        for i, mc in enumerate(cfgs):
            if is_inst:
                break
            bad = []
            if mc["class"] != nested_class(c["nested"]).__name__ or mc["dim"] != c["dim"]:
                bad.append("class/dim %s/%d" % (mc["class"], mc["dim"]))
            if c.get("ranges"):
                rl, rh, tight, clip = c["ranges"]
                if not mc["useStrict"] or not same_vec(mc["min"], rl) or not same_vec(mc["max"], rh):
                    bad.append("ranges %r..%r (strict=%r)" % (mc["min"], mc["max"], mc["useStrict"]))
                if mc["tight"] != tight or mc["clip"] != clip:
                    bad.append("tight/clip %r/%r" % (mc["tight"], mc["clip"]))
            elif mc["useStrict"]:
                bad.append("strict ranges although the ensemble has none")
            mi, mf = c["limits"]
            if mi is not None and mc["maxiter"] != mi:
                bad.append("maxiter %r" % (mc["maxiter"],))
            if mf is not None and mc["maxfun"] != mf:
                bad.append("maxfun %r" % (mc["maxfun"],))
            if c["api"] == "class" and mc["term"] != obs["requested_term"]:
                bad.append("termination %r vs %r" % (mc["term"], obs["requested_term"]))
            if bad:
                out.append((key("member-config"), "member %d does not carry the ensemble's configuration (%r requested): %s" % (i, {k: c.get(k) for k in ("ranges", "limits", "termination")}, "; ".join(bad))))
                break
        if c["api"] == "wrapper" and not is_inst:
            out += wrapper_term_findings(c, obs)
        if tagged and not own_objective:
            ncon = {}; npen = {}; ncost = {}
            for m, _, _ in tape.con:
                ncon[m] = ncon.get(m, 0) + 1
            for m, _, _ in tape.pen:
                npen[m] = npen.get(m, 0) + 1
            for m, _, _ in tape.cost:
                ncost[m] = ncost.get(m, 0) + 1
            for i in range(len(cfgs)):
                if not ncost.get(i):
                    continue
                if c.get("constraints") is not None and not ncon.get(i):
                    out.append((key("member-without-constraints"), "member %d evaluated the cost %d times and never applied the ensemble's constraints" % (i, ncost[i]))); break
                if c.get("penalty") is not None and not npen.get(i):
                    out.append((key("member-without-penalty"), "member %d evaluated the cost %d times and never applied the ensemble's penalty" % (i, ncost[i]))); break
    # every evaluation obeys the ensemble's ranges and (pure, idempotent, box-compatible) constraints, and is penalised
    n0 = len(out)
    if lo is not None:
        for m, x, _ in tape.cost:
            if any(not (a <= v <= b) for v, a, b in zip(x, lo, hi)):
                out.append((key("evaluation-outside-ranges"), "member %r evaluated the cost at %r outside [%r, %r]" % (m, x, lo, hi)))
                break
    if c.get("constraints") is not None:
        for m, x, _ in tape.cost:
            if not same_vec(dsl.con_apply(c["constraints"], x), x):
                out.append((key("evaluation-not-constrained"), "member %r evaluated the cost at %r which the ensemble's constraints move to %r" % (m, x, dsl.con_apply(c["constraints"], x))))
                break
    if c.get("penalty") is not None and tape.cost:
        # y = cost(x) + penalty(x): every point at which the cost was really called was also handed to the ensemble's penalty
        pen_at = set(tuple(f2b(v) for v in x) for _, x, _ in tape.pen)
        for m, x, _ in tape.cost:
            if tuple(f2b(v) for v in x) not in pen_at:
                out.append((key("evaluation-not-penalised"), "member %r evaluated the cost at %r and the ensemble's penalty was never asked at that point (%d cost calls, %d penalty calls)" % (m, x, len(tape.cost), len(tape.pen))))
                break
    # the objective each member itself evaluates, asked at points outside / inside the ensemble's box after the run
    for pr in obs.get("probes") or []:
        if len(out) > n0:
            break
        where = "member %d's own objective asked at %r (value %r)" % (pr["member"], pr["x"], pr["value"])
        if isinstance(pr["value"], str):
            out.append((key("member-objective-raises"), "%s: %s" % (where, pr["value"]))); break
        for x in pr["cost_at"]:
            if lo is not None and any(not (a <= v <= b) for v, a, b in zip(x, lo, hi)):
                out.append((key("member-objective-not-subject-to-ranges"), "%s called the user's cost at %r, outside the ensemble's ranges [%r, %r]" % (where, x, lo, hi))); break
            # (differential evolution applies the constraints to its trial population inside `_Step`, not inside the objective it
            # stores: differential_evolution.py l.220-250 / l.464-499 have no `wrap_nested`; its real calls are checked above)
            if c.get("constraints") is not None and (c["nested"] in ("NM", "Powell") or (is_inst and not own_objective)) and not same_vec(dsl.con_apply(c["constraints"], x), x):
                out.append((key("member-objective-not-subject-to-constraints"), "%s called the user's cost at %r, which the ensemble's constraints move to %r" % (where, x, dsl.con_apply(c["constraints"], x)))); break
            if c.get("penalty") is not None and not any(same_vec(x, q) for q in pr["pen_at"]):
                out.append((key("member-objective-not-subject-to-penalty"), "%s called the user's cost at %r without asking the ensemble's penalty there (penalty calls: %r)" % (where, x, pr["pen_at"][:3]))); break
        else:
            bump(hist, "ens:member-objective-probed%s" % ("" if pr["cost_at"] else ":no-cost-call(rejected-by-the-bounds)"))
    if len(out) > n0 and own_objective:
        # known finding F71: only what the instance carries ITSELF acts on such members - re-keyed to the narrow class, and the
        # strongest true statement checked instead: every real call obeys the INSTANCE's own ranges / constraints
        what = "; ".join(w for _, w in out[n0:])
        del out[n0:]
        out.append((F71_KEY,
                    "%s ensemble, %s mode, configured %s instance with its own objective (carrying itself: %r): %s" % (c["kind"], c["mode"], c["nested"], inst_cfg_of(c), what)))
        ir = inst_ranges(c)
        if ir is not None:
            for m, x, _ in tape.cost:
                if any(not (a <= v <= b) for v, a, b in zip(x, ir[0], ir[1])):
                    out.append((key("evaluation-outside-the-instances-own-ranges"), "member %r evaluated the cost at %r outside the instance's own ranges [%r, %r]" % (m, x, ir[0], ir[1])))
                    break
        if c.get("constraints") is not None and inst_cfg_of(c)["constraints"] == "same":
            for m, x, _ in tape.cost:
                if not same_vec(dsl.con_apply(c["constraints"], x), x):
                    out.append((key("evaluation-not-constrained-by-the-instances-own-constraints"), "member %r evaluated the cost at %r" % (m, x)))
                    break
    return out


def monitor_step_vs_solve(c, obs, hist):
    """step-vs-solve modes (deterministic members): the ensemble run with Solve(step=True) and the same ensemble run to
    completion leave the same members (result, counters) and report the same best"""
    out = []
    c2 = dict(c, mode="solve"); c2.pop("rerun_solve", None)
    ob2, tape2 = run_ensemble(c2)
    key = lambda clause: "ensemble/%s/%s/%s" % (clause, c["kind"], c["nested"])
    if ob2.get("err") or not ob2.get("states") or not obs.get("states"):
        out.append((key("step-vs-solve/rerun-raises"), "the run-to-completion re-run raised %r" % (ob2.get("err"),)))
        return out
    a = obs["states"][-1]; b = ob2["states"][-1]
    if not same_pts(obs["iv"] or [], ob2["iv"] or []):
        bump(hist, "ens:step-vs-solve:different-starts")        # not comparable (should not happen: same seeds)
        return out
    ma = [(m["e"], m["x"], m["evals"], m["gens"]) for m in a["members"]]
    mb = [(m["e"], m["x"], m["evals"], m["gens"]) for m in b["members"]]
    same_m = len(ma) == len(mb) and all((same_float(x[0], y[0]) or x[0] == y[0]) and same_vec(x[1], y[1]) and x[2:] == y[2:] for x, y in zip(ma, mb))
    lo_hi = (c["ranges"][0], c["ranges"][1]) if c.get("ranges") else None
    rest_m = len(ma) == len(mb) and all((same_float(x[0], y[0]) or x[0] == y[0]) and x[2:] == y[2:] for x, y in zip(ma, mb))
    if not same_m and rest_m and c["nested"] == "NM" and lo_hi is not None and all(
            same_vec(x[1], y[1]) or same_vec(clip_box(y[1], lo_hi[0], lo_hi[1]), x[1]) for x, y in zip(ma, mb)):
        out.append(("ensemble/finished-member-solution-clipped/NM-strict-ranges-redecoration",
                    "Solve(step=True) leaves members whose best solutions are the CLIPPED images of the run-to-completion members' (energies and counters equal): step %r solve %r" % (
                        [m_[1] for m_ in ma], [m_[1] for m_ in mb])))
    elif not same_m:
        out.append((key("step-mode-differs-from-solve"), "members after Solve(step=True): %r; after Solve(): %r" % (ma, mb)))
    elif not ((same_float(a["e"], b["e"]) or a["e"] == b["e"]) and same_vec(a["x"], b["x"]) and a["total"] == b["total"] and a["best_id"] == b["best_id"]):
        out.append((key("step-mode-reports-differently"), "Solve(step=True) reports (%r, %r, total %r, best %r), Solve() reports (%r, %r, total %r, best %r)" % (
            a["e"], a["x"], a["total"], a["best_id"], b["e"], b["x"], b["total"], b["best_id"])))
    else:
        bump(hist, "ens:step-vs-solve:same-members-and-report")
    return out


def snap_diff(a, b):
    return ["%s: %r -> %r" % (k, a[k], b[k]) for k in a if k != "id" and not same_state(a[k], b[k])]


def monitor_template(c, obs, hist):
    """the configured nested solver INSTANCE handed to SetNestedSolver is a template: the members are distinct new
    objects, and no solve changes the instance (counters, best, population, monitors, id)"""
    out = []
    t = obs.get("template")
    if not t or len(t["snaps"]) < 2:
        return out
    key = lambda clause: "ensemble/%s/%s/%s" % (clause, c["kind"], c["nested"])
    names = ["the first ensemble's %s" % c["mode"], "the second ensemble's %s" % (c.get("reuse") or {}).get("mode")]
    for k in range(1, len(t["snaps"])):
        d = snap_diff(t["snaps"][k - 1], t["snaps"][k])
        if d:
            out.append((key("nested-instance-changed-by-solve"), "the configured %s instance handed to SetNestedSolver was changed by %s: %s" % (
                c["nested"], names[k - 1], "; ".join(d)[:900])))
            break
    al = t.get("alias")
    if al is not None:
        if al[0] in al[1:]:
            out.append((key("member-is-the-nested-instance"), "member %d of the ensembles IS the configured nested solver object (not a copy): identities %r" % (al[1:].index(al[0]), al)))
        elif len(set(al)) != len(al):
            out.append((key("members-share-an-object"), "two members are the same object: identities %r" % (al,)))
        else:
            bump(hist, "ens:template-untouched-members-fresh")
    return out


def line_template(c, obs):
    """model request: the template's counters before the first solve + per ensemble (at, n, members' REAL (evals, gens))"""
    t = obs.get("template")
    if not t or "alias" not in t or not obs.get("states"):
        return None
    ens = []
    for ob in [obs] + ([obs["second"]] if obs.get("second") and obs["second"].get("states") else []):
        ms = ob["states"][-1]["members"]
        ens.append("(%d %d (%s))" % (ob.get("at", 0), len(ms), " ".join("(%d %d)" % (m["evals"], m["gens"]) for m in ms)))
    s0 = t["snaps"][0]
    return "C09 template (t (%d %d)) (ens (%s))" % (s0["evaluations"], s0["generations"], " ".join(ens))


def line_start_dsamples(c, obs, tape):
    """buckshot with a distribution: the generated starting points against the model of samplepts(lb, ub, npts, dist)"""
    if not c.get("sdist") or c["kind"] != "buckshot" or obs.get("iv") is None or not tape.dist_log:
        return None
    init, calls = split_dist_log(tape.dist_log, "single", c["npts"], c["dim"])
    if init is None:
        return None
    return "C09 dsamples (lb %s) (ub %s) (npts %d) (clip false) (T true) (init (%s)) (calls (%s))" % (
        fl(c["ranges"][0]), fl(c["ranges"][1]), c["npts"], " ".join(fl(r) for r in init), " ".join(fl(r) for r in calls))


# =================================================================== whole ensemble runs replayed by the model
def ensrun_replayable(c):
    """configurations the Float driver reproduces from the starting points alone: Nelder-Mead members (the default nested
    solver), DSL cost / penalty / constraints, no randomising clip=False ranges, an expressible termination"""
    if c["nested"] != "NM":
        return False
    if c.get("ranges") and c["ranges"][3] is False:
        return False
    if c.get("instance") and any(v != "same" for v in inst_cfg_of(c).values()):
        # the members are copies of an instance that does not carry the ensemble's settings: not the configuration the member
        # model is given (the monitor evaluates the clauses on the real calls instead)
        return False
    if c.get("instance") and c["api"] != "class":
        return False
    if c.get("instance") and c["mode"] == "solve" and (c.get("penalty") is not None or c.get("constraints") is not None or c.get("ranges")):
        # a configured nested INSTANCE without an objective receives the ENSEMBLE's decorated cost as its raw objective
        # (`_solve` l.776-777 `if solver._cost[1] is None: solver.SetObjective(cost)`, `cost` = the ensemble's
        # `_bootstrap_objective` product) and decorates it again: penalty added twice, constraints applied twice - a
        # different objective from the one the member model is given (counted, not replayed)
        return False
    return ensrun_term(c) is not None


def ensrun_term(c):
    import solvermodel
    if c["api"] == "wrapper":
        # lattice()/buckshot()/sparsity() l.262-268: NCOG(ftol, gtol) if gtol else VTRChangeOverGeneration(ftol)
        t = ("NCOG", c["ftol"], c["gtol"]) if c["gtol"] else ("VTRCOG", c["ftol"], 1e-6, 30, 0.0)
    else:
        t = c.get("termination") or ("NCOG", 1e-4, 10)        # the ensembles' default (ensemble.py l.55-57)
    return solvermodel.term_sexp(t)


def line_ensrun(c, ob, hist):
    """-> (label, request line) or None.  The members are predicted from the starting points alone; for a lattice with a
    tuple of bins (no noise) and a buckshot with the uniform sampler the starting points themselves come from the model
    (configuration -> result), otherwise the points `_InitialPoints` generated are passed on."""
    import solvermodel
    if not ensrun_replayable(c) or ob.get("err") or ob.get("iv") is None:
        return None
    if c["api"] == "wrapper":
        ms = ob.get("members")
        if not ms:
            return None
        mode = "solve"
    else:
        if not ob.get("states"):
            return None
        ms = ob["states"][-1]["members"]
        mode = c["mode"]
    if len(ob["iv"]) != len(ms) or not ms or ob.get("step_bound"):
        return None
    spec = {"cost": c["cost"], "penalty": c.get("penalty"), "constraints": c.get("constraints"), "ranges": c.get("ranges")}
    N = c["dim"]; lim = c["limits"]
    if c["kind"] == "lattice" and "nbins" in c and not c.get("dist"):
        lo, hi = (c["ranges"][0], c["ranges"][1]) if c.get("ranges") else ([-1000.0] * N, [1000.0] * N)
        src = "(lattice (%s %s %s %s))" % (fl(lo), fl(hi), nl(c["nbins"]), "true" if c.get("ranges") else "false")
        bump(hist, "ensrun:starts-from-lattice-model")
    elif c["kind"] == "buckshot" and ob.get("us") is not None and not c.get("sdist"):
        lo, hi = (c["ranges"][0], c["ranges"][1]) if c.get("ranges") else ([-1000.0] * N, [1000.0] * N)
        src = "(samples (%s %s %d (%s)))" % (fl(lo), fl(hi), c["npts"], " ".join(fl(r) for r in ob["us"]))
        bump(hist, "ensrun:starts-from-samplepts-model")
    else:
        src = "(pts (%s))" % " ".join(fl(p_) for p_ in ob["iv"])
        bump(hist, "ensrun:starts-recorded")
    fuel = max(m["gens"] for m in ms) + 50
    head = "%s (term %s) (scale %d %d) (limits %s %s) (fuel %d) (radius %s) (at %d) %s" % (
        solvermodel.setup_sexp(spec), ensrun_term(c), N * 200, N * 200, solvermodel.lim_str(lim[0]), solvermodel.lim_str(lim[1]),
        fuel, f2b(0.05), ob.get("at", 0), src)
    if mode == "solve":
        return ("run:solve", "C09 ensolve " + head)
    if mode == "solve-step":
        return ("run:solve-step", "C09 ensteps " + head + " (untilstop true)")
    if mode == "steps+solve":
        return ("run:steps", "C09 ensteps " + head + " (nsteps %d) (thensolve true)" % c["nsteps"])
    if mode == "steps+solve-step":
        return ("run:steps", "C09 ensteps " + head + " (nsteps %d) (thensolvestep true)" % c["nsteps"])
    return ("run:steps", "C09 ensteps " + head + " (nsteps %d)" % c["nsteps"])


def _x_same(mx, ix, box, hist):
    """model solution vs implementation solution.  In step-wise mode a STOPPED Nelder-Mead member under strict ranges has its
    stored best vertex clipped into the ranges by the next ensemble Step (known finding F20, class
    ensemble/finished-member-solution-clipped/...): the clipped image of the model's solution is accepted there (counted)"""
    if same_vec(mx, ix):
        return True
    if box is not None and same_vec(clip_box(mx, box[0], box[1]), ix):
        bump(hist, "ensrun:stopped-member-solution-clipped(F20)")
        return True
    return False


def _mem_diffs(mm, ms, where, box=None, hist=None):
    """model members ((e x evals gens id) ...) vs the real members' views"""
    d = []
    if len(mm) != len(ms):
        return ["%s: %d members in the model, %d in the implementation" % (where, len(mm), len(ms))]
    for i, (a, m) in enumerate(zip(mm, ms)):
        bad = []
        if m["e"] is None or not same_float(b2f(a[0]), m["e"]):
            bad.append("bestEnergy model=%r impl=%r" % (b2f(a[0]), m["e"]))
        if not _x_same(floats_of(a[1]), m["x"], box, hist):
            bad.append("bestSolution model=%r impl=%r" % (floats_of(a[1]), m["x"]))
        if int(a[2]) != m["evals"]:
            bad.append("evaluations model=%s impl=%d" % (a[2], m["evals"]))
        if int(a[3]) != m["gens"]:
            bad.append("generations model=%s impl=%d" % (a[3], m["gens"]))
        if m["id"] is not None and int(a[4]) != m["id"]:
            bad.append("id model=%s impl=%r" % (a[4], m["id"]))
        if bad:
            d.append("%s: member %d: %s" % (where, i, "; ".join(bad)))
            break
    return d


def _report_diffs(kvbest, total, iters, allevals, st, where, nested, box=None, hist=None):
    """the model's reduction vs what the ensemble reports"""
    d = []
    if not same_float(b2f(kvbest[0]), st["e"]):
        d.append("%s: reported best energy model=%r impl=%r" % (where, b2f(kvbest[0]), st["e"]))
    if not _x_same(floats_of(kvbest[1]), st["x"], box, hist):
        d.append("%s: reported best solution model=%r impl=%r" % (where, floats_of(kvbest[1]), st["x"]))
    if int(kvbest[2]) != st["evals"]:
        d.append("%s: reported evaluations model=%s impl=%r" % (where, kvbest[2], st["evals"]))
    if st.get("gens") is not None and int(kvbest[3]) != st["gens"]:
        d.append("%s: reported generations model=%s impl=%r" % (where, kvbest[3], st["gens"]))
    if st.get("best_id") is not None and int(kvbest[4]) != st["best_id"]:
        d.append("%s: best member id model=%s impl=%r" % (where, kvbest[4], st["best_id"]))
    if int(total) != st["total"]:
        d.append("%s: total evaluations model=%s impl=%r" % (where, total, st["total"]))
    if st.get("iters") is not None and int(iters) != st["iters"]:
        d.append("%s: total iterations model=%s impl=%r" % (where, iters, st["iters"]))
    if st.get("all_evals") is not None and [int(t) for t in allevals] != st["all_evals"]:
        d.append("%s: _all_evals model=%r impl=%r" % (where, allevals, st["all_evals"]))
    return d


def compare_ensrun(c, ob, label, rep, hist):
    """whole-run replay: every member's result and counters, the ensemble's reduction, the `_all_*` views, the number of
    cost calls (= the model's evaluation-log lengths), the number of ensemble Steps in step-wise mode - bit for bit"""
    r = parse_reply(rep)
    if r[0] != "ok":
        return ["model replied %r" % rep[:200]]
    kv = r[1]; d = []
    mode = label.split(":")[1]
    box = (c["ranges"][0], c["ranges"][1]) if (c.get("ranges") and mode != "solve") else None
    if mode in ("solve", "solve-step"):
        info = kv["info"]
        if any(i_[-1] == "true" for i_ in info):
            bump(hist, "ensrun:%s:skipped-simplex-energy-tie" % mode)   # numpy.argsort leaves the order of ties unspecified
            return []
        if c["api"] == "wrapper":
            ret = ob["ret"]
            st = {"e": ret["fval"], "x": ret["x"], "evals": ret["fcalls"], "gens": ret["iterations"], "total": ret["all_fcalls"]}
            ms = ob["members"]; ncost = ob["n_cost"]; pmc = None
        else:
            st = ob["states"][-1]; ms = st["members"]; ncost = st["n_cost"]; pmc = st["per_member_cost"]
        d += _mem_diffs(kv["members"], ms, mode, box, hist)
        if not d:
            d += _report_diffs(kv["best"], kv["total"], kv["iters"], kv["allevals"], st, mode, c["nested"], box, hist)
        if not d and st.get("all_e") is not None:
            if not same_vec(floats_of(kv["allE"]), [float("nan") if v is None else v for v in st["all_e"]]):
                d.append("_all_bestEnergy model=%r impl=%r" % (floats_of(kv["allE"]), st["all_e"]))
            if not (len(kv["allX"]) == len(st["all_x"]) and all(_x_same(floats_of(x), y, box, hist) for x, y in zip(kv["allX"], st["all_x"]))):
                d.append("_all_bestSolution model=%r impl=%r" % ([floats_of(x) for x in kv["allX"]], st["all_x"]))
            if [int(t) for t in kv["alliters"]] != st["all_iters"]:
                d.append("_all_iters model=%r impl=%r" % (kv["alliters"], st["all_iters"]))
        if not d:
            # the model's evaluation logs ARE the calls of the user's cost: per member and in total
            if mode == "solve":
                logs = [int(i_[3]) for i_ in info]
            else:
                logs = [int(i_[2]) for i_ in info]
            if sum(logs) != ncost:
                d.append("real cost calls %d, the members' evaluation logs in the model hold %d records (%r)" % (ncost, sum(logs), logs))
            elif pmc is not None and pmc != logs:
                d.append("real cost calls per member %r, evaluation-log lengths in the model %r" % (pmc, logs))
        if not d and mode == "solve-step":
            if int(kv["nsteps"]) != ob.get("n_ens_steps"):
                d.append("ensemble Steps taken by Solve(step=True): model=%s impl=%r" % (kv["nsteps"], ob.get("n_ens_steps")))
            elif kv["stopped"] != "true":
                d.append("the model's ensemble has not stopped after %s Steps" % kv["nsteps"])
        if not d:
            bump(hist, "ensrun:%s:replayed" % mode)
            bump(hist, "ensrun:members-replayed", len(ms))
            bump(hist, "ensrun:member-iterations-replayed", sum(m["gens"] for m in ms))
            for i_ in info:
                bump(hist, "ensrun:member-stop=%s" % i_[0])
        return d
    # manual Step loop: the state after EVERY ensemble Step
    steps = kv["steps"]
    if len(steps) != len(ob["states"]):
        return ["model returned %d step states, %d observed" % (len(steps), len(ob["states"]))]
    for j, (sj, st) in enumerate(zip(steps, ob["states"])):
        if any(i_[-1] == "true" for i_ in sj[5]):
            bump(hist, "ensrun:steps:skipped-simplex-energy-tie")
            return []
        d += _mem_diffs(sj[0], st["members"], st["tag"], box, hist)
        if not d:
            d += _report_diffs(sj[1], sj[2], sj[3], sj[4], st, st["tag"], c["nested"], box, hist)
        if not d:
            logs = [int(i_[2]) for i_ in sj[5]]
            if sum(logs) != st["n_cost"]:
                d.append("%s: real cost calls %d, evaluation logs in the model %r" % (st["tag"], st["n_cost"], logs))
            elif st["per_member_cost"] is not None and st["per_member_cost"] != logs:
                d.append("%s: real cost calls per member %r, evaluation-log lengths in the model %r" % (st["tag"], st["per_member_cost"], logs))
            stopped_model = [i_[0] != "none" for i_ in sj[5]]
            stopped_impl = [m.get("stopped") for m in st["members"]]
            if not d and None not in stopped_impl and stopped_model != stopped_impl:
                d.append("%s: members that have stopped: model %r impl %r" % (st["tag"], stopped_model, stopped_impl))
        if d:
            return d
    bump(hist, "ensrun:steps:replayed")
    if "+" in c["mode"]:
        bump(hist, "ensrun:%s:replayed" % c["mode"])
    bump(hist, "ensrun:ensemble-steps-replayed", len(steps))
    bump(hist, "ensrun:members-replayed", len(ob["states"][-1]["members"]))
    return d


# =================================================================== one case
def pick_stream(rng, tier):
    k = rng.random()
    if k < 0.12:
        return "grid"
    if k < 0.23:
        return "lattice"
    if k < 0.32:
        return "samples"
    if k < 0.44:
        return "dsamples"
    if k < 0.54:
        return "rbin"
    if k < 0.60:
        return "ensinh"
    if k < 0.77:
        return "ensemble"
    if k < 0.85:
        return "ensrun"
    if k < 0.90:
        return "enslead"
    if k < 0.96:
        return "oneliner"
    return "fill"


def run_case(seed, shard, k, tier, stream=None):
    """-> dict(stream, case, obs, lines[list of (label, line)], monitor[list of (key, what)], hist{})"""
    rng = case_rng(PID, seed, shard, k)
    st = stream or pick_stream(rng, tier)
    hist = {}
    # "stream" is the FORCED stream (None when it was picked from the case's own PRNG): replay must consume the same draws
    rec = {"stream": st, "gen": {"seed": seed, "shard": shard, "k": k, "tier": tier, "stream": stream, "picked": st}, "lines": [], "monitor": [], "hist": hist}
    if st == "grid":
        c = gen_grid(rng); obs = impl_grid(c)
        rec["lines"].append(("grid", line_grid(c)))
        rec["monitor"] = monitor_grid(c, obs)
        empt = any(len(b) == 0 for b in c["q"])
        bump(hist, "grid:%s" % ("empty-q" if not c["q"] else ("empty-bin" if empt else "bins=%d" % len(c["q"]))))
        rec["nontrivial"] = len(c["q"]) >= 2 and not empt and len(obs.get("pts", [])) >= 4
    elif st == "lattice":
        c = gen_lattice(rng); obs = impl_lattice(c, rng)
        rec["lines"].append(("lattice", line_lattice(c, obs)))
        rec["monitor"] = monitor_lattice(c, obs)
        bump(hist, "lattice:%s:%s:%s" % ("N" if "N" in c else "tuple", c["regime"], c.get("malformed") or ("strict" if c["strict"] else "default-ranges")))
        rec["nontrivial"] = len(obs.get("pts", [])) >= 2
    elif st == "samples":
        c = gen_samples(rng); obs = impl_samples(c)
        rec["lines"].append(("samples", line_samples(c, obs)))
        rec["monitor"] = monitor_samples(c, obs, hist)
        bump(hist, "samples:%s:%s:%s" % (c["via"], c["regime"], c.get("malformed") or ("real-rng" if c.get("real_rng") else "injected")))
        rec["nontrivial"] = c["npts"] >= 1 and "pts" in obs
    elif st == "dsamples":
        c = gen_dsamples(rng); obs = impl_dsamples(c)
        ln = line_dsamples(c, obs)
        if ln is not None:
            rec["lines"].append(("dsamples", ln))
        rec["monitor"] = monitor_dsamples(c, obs, hist)
        bump(hist, "dsamples:%s:%s:%s%s" % (c["via"], c["mode"], c.get("malformed") or ("clip" if c.get("clip") else "resample"), ":norm" if c.get("norm") is not None else ""))
        for fam in sorted(set("%s-%s" % (it[0], it[3]) for it in c["dists"])):
            bump(hist, "dsamples:dist=%s" % fam)
        nred = len(obs["log"]) - (1 if c["mode"] == "single" else c["dim"])
        rec["nontrivial"] = c["npts"] >= 1 and "pts" in obs and nred >= 1
        obs = {k2: v for k2, v in obs.items() if k2 != "log"}
        obs["ncalls"] = nred
    elif st == "rbin":
        c = gen_rbin(rng); obs = impl_rbin(c, rng)
        rec["lines"].append(("rbin", line_rbin(c, obs)))
        rec["monitor"] = monitor_rbin(c, obs)
        ties = len(obs["keys"]) != len(set(obs["keys"]))
        bump(hist, "rbin:ndim=%s:ones=%s:exact=%s%s" % ("none" if c["ndim"] is None else ("0" if c["ndim"] == 0 else "n"), c["ones"], c["exact"], ":key-ties" if ties else ""))
        if c["N"] == 0:
            bump(hist, "rbin:N=0")
        if not c["exact"] and c["N"] > 3 and is_prime(c["N"]):
            bump(hist, "rbin:inexact-prime-recursion")
        rec["nontrivial"] = len(obs["keys"]) >= 3
    elif st in ENS_STREAMS:
        if st == "oneliner":
            c = gen_oneliner(rng, tier)
            obs, tape = run_oneliner(c)
        else:
            c = {"ensemble": gen_ensemble, "ensrun": gen_ensrun, "enslead": gen_enslead, "ensinh": gen_ensinherit}[st](rng, tier)
            obs, tape = run_ensemble(c)
        tape2 = obs.pop("_tape2", None)
        rec["monitor"] = monitor_ensemble(c, obs, tape, hist)
        if st == "oneliner":
            rec["monitor"] += monitor_oneliner(c, obs, tape, hist)
            kw_ = c["kw"]
            bump(hist, "oneliner:%s:%s:gtol=%s" % (c["kind"], c["nested"], gtol_class(c)))
            for nm in kw_["omit"]:
                bump(hist, "oneliner:omitted:" + nm)
            for nm in kw_["none"]:
                bump(hist, "oneliner:given-as-None:" + nm)
            for nm in ("full_output", "retall", "args", "callback", "monitors", "step"):
                if kw_[nm]:
                    bump(hist, "oneliner:with:" + nm)
            if kw_["id"] is not None:
                bump(hist, "oneliner:with:id")
        rec["monitor"] += monitor_template(c, obs, hist)
        if c.get("rerun_solve") and not obs.get("err"):
            rec["monitor"] += monitor_step_vs_solve(c, obs, hist)
        ln = line_ensrun(c, obs, hist)
        if ln is not None:
            rec["lines"].append(ln)
        if c["api"] == "wrapper":
            if obs.get("members"):
                rec["lines"].append(("best:return", line_best(obs["members"])))
        else:
            for s in obs["states"]:
                if all(m["e"] is not None for m in s["members"]):
                    rec["lines"].append(("best:" + s["tag"], line_best(s["members"])))
        ln = line_start_dsamples(c, obs, tape)
        if ln is not None:
            rec["lines"].append(("start", ln)); bump(hist, "ens:buckshot-starts-from-distribution")
        ln = line_bestseq(c, obs) if not obs.get("err") else None
        if ln is not None:
            rec["lines"].append(("bestseq", ln)); bump(hist, "ens:repeated-reduction-replayed:%s" % ("stale-copy" if c.get("transport") == "pickle" else "live-member"))
        if c["api"] == "wrapper":
            ln = line_oneliner(c, obs)
            if ln is not None:
                rec["lines"].append(("oneliner", ln)); bump(hist, "oneliner:configuration-replayed")
        if obs.get("second") is not None:
            c2 = second_spec(c); ob2 = obs["second"]
            rec["monitor"] += monitor_ensemble(c2, ob2, tape2, hist, tag="@reuse")
            for s in ob2["states"]:
                if all(m["e"] is not None for m in s["members"]):
                    rec["lines"].append(("best2:" + s["tag"], line_best(s["members"])))
            ln = line_start_dsamples(c2, ob2, tape2)
            if ln is not None:
                rec["lines"].append(("start2", ln))
            ln = line_ensrun(c2, ob2, hist)
            if ln is not None:
                rec["lines"].append(("run2:" + ln[0].split(":")[1], ln[1]))
            bump(hist, "ens:second-ensemble:%s->%s:%s" % (c["kind"], c2["kind"], c2["mode"]))
        ln = line_template(c, obs)
        if ln is not None:
            rec["lines"].append(("template", ln))
        bump(hist, "ens:%s:%s:%s:%s:map=%s" % (c["kind"], c["nested"], c["api"], c["mode"], c["map"]))
        if st == "enslead":
            bump(hist, "enslead:%s:%s%s" % (c["nested"], c["mode"], ":pickle" if c.get("transport") else ""))
        lead_stats(obs.get("trace") or [], hist, len(obs["states"][-1]["members"]) if obs.get("states") else 0)
        for f in ("transport", "dist", "sdist", "instance", "reuse"):
            if c.get(f) and not (f == "reuse" and c["api"] != "class"):
                bump(hist, "ens:with-" + f)
        if c.get("instance"):
            ic_ = inst_cfg_of(c)
            bump(hist, "ens:instance:%s:%s:%s" % (c["api"], c["mode"], "own-objective" if (c["mode"] != "solve" or obs.get("inst_has_objective")) else "objective-from-the-ensemble"))
            for f in INST_SETTINGS:
                if f in ("limits", "termination") or c.get(f) is not None:
                    bump(hist, "ens:instance-carries:%s=%s" % (f, ic_[f]))
            if c["mode"] == "solve" and not obs.get("inst_has_objective") and any(c.get(f) is not None and ic_[f] != "same" for f in ("ranges", "constraints", "penalty")):
                bump(hist, "ens:instance:ensemble-setting-carried-by-the-handed-over-objective-only")
                outside = c.get("ranges") and any(any(not (a <= v <= b) for v, a, b in zip(m_["x"], c["ranges"][0], c["ranges"][1])) for m_ in (obs["states"][-1]["members"] if obs.get("states") else obs.get("members") or []))
                if outside:
                    bump(hist, "ens:instance:member-best-outside-the-ensemble-box(pre-constraint point, F58 of C02)")
        for f in ("ranges", "constraints", "penalty"):
            if c.get(f) is not None:
                bump(hist, "ens:with-" + f)
        ms = obs["states"][-1]["members"] if obs.get("states") else obs.get("members") or []
        es = [m["e"] for m in ms]
        tie = len(es) >= 2 and es.count(min(es)) >= 2 if es and all(e is not None for e in es) else False
        if tie:
            bump(hist, "ens:energy-tie-for-best")
            xs = [tuple(m["x"]) for m in ms if m["e"] == min(es)]
            if len(set(xs)) >= 2:
                bump(hist, "ens:energy-tie-with-different-solutions")
        rec["nontrivial"] = len(ms) >= 2 and len(tape.cost) > len(ms)
        obs = {k2: v for k2, v in obs.items() if k2 not in ("tb",)} if not obs.get("err") else obs
    else:
        c = gen_fill(rng); obs = impl_fill(c)
        rec["monitor"] = monitor_fill(c, obs)
        rec["lines"] += lines_fill(c, obs)
        bump(hist, "fill:%s:rtol=%r" % (c["via"], c["rtol"]))
        bump(hist, "fill:objective-probes", len(obs.get("holes", [])[:12]))
        bump(hist, "fill:objective-probes-at-exactly-the-radius", sum(1 for h_ in obs.get("holes", [])[:12] if h_.get("at_radius")))
        if c["rtol"] and c["rtol"] > 0 and "pts" in obs:
            # the code as it is: `-res if res < rtol else 0.0` draws the optimiser to points just INSIDE the radius
            # (Lean: holes_tol_prefers_points_inside_the_radius); not part of C09's statement: counted only
            allp = obs.get("legacy", []) + obs["pts"]
            for j, p_ in enumerate(obs["pts"]):
                others = [q for q in obs.get("legacy", []) + obs["pts"][:j]]
                if others and min(math.dist(p_, q) for q in others) < c["rtol"]:
                    bump(hist, "fill:point-closer-than-rtol-to-a-collected-point")
                    break
        rec["nontrivial"] = c["npts"] >= 1
    rec["case"] = c; rec["obs"] = obs
    return rec


def compare(rec, label, line, rep):
    """model reply vs implementation observation -> list of divergence strings"""
    st = rec["stream"]; obs = rec["obs"]; c = rec["case"]
    r = parse_reply(rep)
    if r[0] == "bad-op":
        return ["driver answered bad-op"]
    if st in ("grid", "lattice", "samples", "dsamples"):
        if "err" in obs:
            return [] if (r[0] == "err" and r[1] == obs["err"]) else ["impl raised %s, model replied %r" % (obs["err"], rep[:80])]
        if r[0] != "ok":
            return ["impl returned %d points, model replied %r" % (len(obs["pts"]), rep)]
        mp = pts_of(r[1]["pts"])
        d = []
        if st == "dsamples":
            mp = unsign_zero(mp); obs = dict(obs, pts=unsign_zero(obs["pts"]))
        if int(r[1]["n"]) != len(obs["pts"]):
            d.append("count model=%s impl=%d" % (r[1]["n"], len(obs["pts"])))
        elif not same_pts(mp, obs["pts"]):
            bad = [i for i, (a, b) in enumerate(zip(mp, obs["pts"])) if not same_vec(a, b)][:3]
            d.append("points differ at %r: model %r impl %r" % (bad, [mp[i] for i in bad], [obs["pts"][i] for i in bad]))
        if st == "lattice" and "N" in c and int(r[1]["draws"]) != len(obs["keys"]):
            d.append("sort-key draws model=%s impl=%d" % (r[1]["draws"], len(obs["keys"])))
        if st == "dsamples" and int(r[1]["calls"]) != obs["ncalls"]:
            d.append("redraw calls of the distribution model=%s impl=%d" % (r[1]["calls"], obs["ncalls"]))
        return d
    if st == "rbin":
        if "err" in obs:
            return [] if (r[0] == "err" and r[1] == obs["err"]) else ["impl raised %s, model replied %r" % (obs["err"], rep[:80])]
        if r[0] != "ok":
            return ["impl returned %r, model replied %r" % (obs["bins"], rep)]
        mb = [int(t) for t in r[1]["bins"]]
        d = []
        if mb != obs["bins"]:
            d.append("bins model=%r impl=%r" % (mb, obs["bins"]))
        if int(r[1]["draws"]) != len(obs["keys"]):
            d.append("draws model=%s impl=%d" % (r[1]["draws"], len(obs["keys"])))
        return d
    if st == "fill":
        if label == "fill":
            if r[0] != "ok":
                return ["fillpts returned %d points, model replied %r" % (len(obs["pts"]), rep[:100])]
            mp = pts_of(r[1]["pts"])
            if int(r[1]["n"]) != len(obs["pts"]) or not same_pts(mp, obs["pts"]):
                return ["fillpts: model %r impl %r (legacy %r, optimiser results %r)" % (mp, obs["pts"], obs["legacy"], obs["outs"])]
            return []
        h = obs["holes"][int(label.split(":")[1])]
        if r[0] != "ok":
            return ["objective value %r, model replied %r" % (h["value"], rep[:100])]
        mv = b2f(r[1]["v"])
        if not (same_float(mv, h["value"]) or mv == h["value"]):     # -0.0 == 0.0: the sign of a zero distance is numpy's
            return ["objective handed to the optimiser at %r (distances %r): model %r impl %r" % (h["x"], h["dists"], mv, h["value"])]
        return []
    if st in ENS_STREAMS and label.startswith("run"):
        if label.startswith("run2:"):
            return compare_ensrun(second_spec(c), obs["second"], label, rep, rec["hist"])
        return compare_ensrun(c, obs, label, rep, rec["hist"])
    if st in ENS_STREAMS:
        st = "ensemble"
    if st == "ensemble" and label == "bestseq":
        return compare_bestseq(c, obs, rep)
    if st == "ensemble" and label == "oneliner":
        return compare_oneliner(c, obs, rep)
    if st == "ensemble" and label in ("start", "start2"):
        ob = obs if label == "start" else obs["second"]
        if r[0] != "ok":
            return ["the ensemble generated %d starting points, model replied %r" % (len(ob["iv"]), rep[:120])]
        mp = unsign_zero(pts_of(r[1]["pts"]))
        if not same_pts(mp, unsign_zero(ob["iv"])):
            return ["starting points from the distribution differ: model %r impl %r" % (mp[:4], ob["iv"][:4])]
        return []
    if st == "ensemble" and label == "template":
        if r[0] != "ok":
            return ["model replied %r" % rep]
        kv = r[1]; d = []
        t = obs["template"]
        last = t["snaps"][-1]
        want_t = [last["evaluations"], last["generations"], -1 if last["id"] is None else int(last["id"])]
        if [int(v) for v in kv["tmpl"]] != want_t:
            d.append("nested instance after the solves (evaluations, generations, id): model %r impl %r" % ([int(v) for v in kv["tmpl"]], want_t))
        flat = [0] + [int(a) for grp in kv["members"] for a in grp]
        if flat != t["alias"]:
            d.append("object identities [instance, members...]: model %r impl %r" % (flat, t["alias"]))
        obl = [obs] + ([obs["second"]] if obs.get("second") and obs["second"].get("states") else [])
        for grp, ob in zip(kv["states"], obl):
            ms = ob["states"][-1]["members"]
            got = [[m["evals"], m["gens"], m["id"]] for m in ms]
            if [[int(v) for v in st_] for st_ in grp] != got:
                d.append("member states (evaluations, generations, id): model %r impl %r" % (grp, got))
        return d
    if st == "ensemble":
        if label.startswith("best2:"):
            rep_view = [s for s in obs["second"]["states"] if "best2:" + s["tag"] == label][0]
        elif label == "best:return":
            ret = obs["ret"]
            rep_view = {"e": ret["fval"], "x": ret["x"], "evals": ret["fcalls"], "gens": ret["iterations"], "best_id": None,
                        "total": ret["all_fcalls"], "iters": None, "all_evals": None, "n": len(obs["members"])}
        else:
            rep_view = [s for s in obs["states"] if "best:" + s["tag"] == label][0]
        if r[0] != "ok":
            return ["model replied %r" % rep]
        kv = r[1]; d = []
        if not same_float(b2f(kv["e"]), rep_view["e"]):
            d.append("best energy model=%r impl=%r" % (b2f(kv["e"]), rep_view["e"]))
        if not same_vec(floats_of(kv["x"]), rep_view["x"]):
            d.append("best solution model=%r impl=%r" % (floats_of(kv["x"]), rep_view["x"]))
        if int(kv["evals"]) != rep_view["evals"]:
            d.append("evaluations model=%s impl=%r" % (kv["evals"], rep_view["evals"]))
        # the ensemble's `generations` is len(step monitor of the best member)-1; PowellDirectionalSolver keeps its own
        # iteration counter and defers its step record (known findings C04 F2/F2b), so the two notions only coincide
        # for the other nested solvers.  `generations` is not part of C09's statement.
        if c["nested"] != "Powell" and int(kv["gens"]) != rep_view["gens"]:
            d.append("generations model=%s impl=%r" % (kv["gens"], rep_view["gens"]))
        if rep_view["best_id"] is not None and int(kv["id"]) != rep_view["best_id"]:
            d.append("best member id model=%s impl=%r" % (kv["id"], rep_view["best_id"]))
        if int(kv["total"]) != rep_view["total"]:
            d.append("total evaluations model=%s impl=%r" % (kv["total"], rep_view["total"]))
        if rep_view["iters"] is not None and int(kv["iters"]) != rep_view["iters"]:
            d.append("total iterations model=%s impl=%r" % (kv["iters"], rep_view["iters"]))
        if rep_view["all_evals"] is not None and [int(t) for t in kv["all"]] != rep_view["all_evals"]:
            d.append("_all_evals model=%r impl=%r" % (kv["all"], rep_view["all_evals"]))
        if int(kv["n"]) != rep_view["n"]:
            d.append("member count model=%s impl=%r" % (kv["n"], rep_view["n"]))
        return d
    return []


def run_cases(specs):
    """specs: list of (seed, shard, k, tier, stream|None) -> (recs, findings, nlines)"""
    recs = [run_case(*s) for s in specs]
    lines = []; owner = []
    for i, rec in enumerate(recs):
        for label, line in rec["lines"]:
            lines.append(line); owner.append((i, label))
    replies = leandrv.run_driver(lines)
    findings = []
    for (i, label), line, rep in zip(owner, lines, replies):
        rec = recs[i]
        rec.setdefault("replies", []).append((label, rep))
        divs = compare(rec, label, line, rep)
        if divs:
            case = {"gen": rec["gen"], "case": rec["case"], "request": line[:4000], "model": rep[:4000], "impl": trim(rec["obs"])}
            findings.append(Finding("correspondence", "%s/diverges%s" % ("ensemble" if rec["stream"] in ENS_STREAMS else rec["stream"], "/" + label.split(":")[0] if rec["stream"] in ENS_STREAMS else ""),
                                    "; ".join(divs)[:1500], case))
    for rec in recs:
        for key, what in rec["monitor"]:
            case = {"gen": rec["gen"], "case": rec["case"], "impl": trim(rec["obs"])}
            findings.append(Finding("monitor", key, what[:1500], case))
    return recs, findings, len(lines)


def trim(obs):
    s = json.dumps(common.jsonable(obs))
    if len(s) < 6000:
        return obs
    return {"truncated": s[:6000]}


# =================================================================== shard / main / replay
def run_shard(pid, seed, shard, ncases, tier, extra):
    common.import_mystic()
    import warnings
    warnings.simplefilter("ignore"); np.seterr(all="ignore")
    stream = (extra or {}).get("stream")
    specs = [(seed, shard, k, tier, stream) for k in range(ncases)]
    recs, findings, nlines = run_cases(specs)
    hist = {}
    nontrivial = 0
    samples = []
    for rec in recs:
        for k, v in rec["hist"].items():
            hist[k] = hist.get(k, 0) + v
        if rec.get("nontrivial"):
            nontrivial += 1
            if len(samples) < 2 and rec["stream"] in ("lattice",) + ENS_STREAMS and rec["lines"]:
                samples.append({"gen": rec["gen"], "case": rec["case"], "request": rec["lines"][0][1][:1500],
                                "model": rec.get("replies", [("", "")])[0][1][:1500], "impl": trim(rec["obs"])})
    return {"evaluations": len(recs), "nontrivial": nontrivial, "model_lines": nlines, "findings": findings,
            "samples": samples, "hist": hist}


def witnesses():
    """known-finding witness, run first: gridpts with an empty bin that is not the last one"""
    common.import_mystic()
    c = {"q": [[], [1.0, 2.0]]}
    obs = impl_grid(c)
    line = line_grid(c)
    rep = leandrv.run_driver([line])[0]
    rec = {"stream": "grid", "obs": obs, "case": c}
    out = []
    for d in compare(rec, "grid", line, rep):
        out.append(Finding("correspondence", "grid/diverges", d, {"case": c, "request": line, "model": rep, "impl": obs}))
    for key, what in monitor_grid(c, obs):
        out.append(Finding("monitor", key, what, {"case": c, "request": line, "model": rep, "impl": obs, "witness": True}))
    return out


def main(tier, seed):
    t0 = time.time()
    proof = framework.proof_stage(PID, MODULE, THEOREMS, tier)
    nshards, per = (16, 150) if tier == "quick" else (64, 650)
    run = framework.run_shards("c09", "run_shard", PID, seed, nshards, per, tier)
    run["findings"] = witnesses() + run["findings"]

    def search_more():
        r = framework.run_shards("c09", "run_shard", PID, seed + 7919, 32, 60, tier)
        return r["findings"]
    rule = ("cases: gridpts on 0-4 bins of 0-5 int/dyadic/float values (incl. empty q and empty bins); LatticeSolver._InitialPoints for "
            "tuple / integer nbins, strict / default ranges, dyadic / float / wide boxes (random.random sort keys recorded, ties injected); "
            "samplepts / BuckshotSolver._InitialPoints with the numpy.random.rand matrix injected (u in {0, 1-2^-53, ...}) or recorded; "
            "random_samples / samplepts / BuckshotSolver.SetDistribution with a user-supplied Distribution (one for all coordinates or one per "
            "coordinate; normal narrow / wide / shifted to either side, uniform over a larger interval on one or both sides, scripted values on, "
            "one ulp beside and far from the bounds, signed zeros, infinities, no interior mass; Distribution*factor; clip on/off; every call of the "
            "distribution recorded and replayed by the model of the resample loop); "
            "randomly_bin over N in 0..6000, ndim None/0/1..7, ones, exact; real Lattice/Buckshot/Sparsity solves (class API and "
            "lattice()/buckshot()/sparsity() wrappers) with nested NM/Powell/DE/DE2, serial/reversed/shuffled maps, Solve / Solve(step=True) / "
            "manual Step loops, ranges (tight/clip), DSL constraints, penalties, limits, terminations, plateau costs (exact energy ties), "
            "buckshot starting points from a Distribution, a configured nested solver INSTANCE (with / without its own monitors) snapshotted "
            "around every solve and handed to a SECOND ensemble of the same or another kind (all clauses checked on both; object identities and "
            "the instance's counters compared with the template model); "
            "WHOLE ensemble runs with Nelder-Mead members replayed by the closed-loop model from the starting points alone (stream ensrun + every "
            "NM case of the ensemble stream: Solve, Solve(step=True) with the number of ensemble Steps predicted, manual Step loops compared after "
            "every Step; lattice starting points from the lattice model, buckshot ones from the samplepts model with the recorded rand matrix; "
            "every member's result, counters, id, the reduction, _all_* views, cost calls per member = evaluation-log lengths; runs in which a "
            "simplex has tied energies are skipped and counted), Solve(step=True) re-run in run-to-completion mode and compared; "
            "stream enslead - a reduction REPEATED over the same members while the lead changes hands: >= 2 members on a multi-well cost "
            "(min_j a_j|x-c_j|^2 - d_j: wells of different depth and steepness, part of them at / near the lattice cell centres), members running "
            "for tens of iterations, manual Step loops up to maxiter+3 Steps, Solve(step=True), Steps followed by Solve() / Solve(step=True) (the "
            "members are continued), every nested solver, map order, pickling transport (the stored best is then a stale copy); the clause "
            "'reported energy = least member energy' is evaluated after EVERY ensemble Step (also inside Solve(step=True)); the member lists of all "
            "reductions are replayed by the model with `_bestSolver` threaded (bestseq); a Step loop still running after 2*max(limits)+20 ensemble "
            "Steps is cut off and reported with what it left (step-mode-does-not-stop); coverage measured: lead changes hands / member 0, an inner, "
            "the last member overtakes later; "
            "stream oneliner - the keyword plumbing of lattice() / buckshot() / sparsity(): every documented keyword given / omitted (default) / "
            "given as None or 0 where that has a meaning (gtol falsy = value-to-reach stop; maxiter, maxfun, rtol, tightrange, cliprange None), first "
            "argument a tuple / an integer / omitted (8), args, callback, id, itermon/evalmon, full_output/retall, step; the ensemble object the "
            "one-liner builds is captured from its Solve call: the members' termination must be the one ftol/gtol stand for (built independently "
            "from mystic.termination), limits / ranges / tight / clip / constraints / penalty / rtol / dist / id as given (model: oneliner), the "
            "return value must be the ensemble's report, and the run must equal - member by member - the ensemble configured by hand through the "
            "class API with the same seeds; "
            "stream ensinh (and the instance cases of ensemble / oneliner) - member inheritance of every ensemble-level setting: the ensemble has strict "
            "ranges and mostly a penalty / constraints cutting through the box, the cost is a bowl whose free minimum lies 0.25..2 box widths outside "
            "the box, the nested solver is a class or a configured INSTANCE carrying all / some / none of ranges, constraints, penalty itself (ranges "
            "also wider, limits / termination also differing or default), with or without its own objective, class API (Solve / Solve(step=True) / Step "
            "loops, reuse in a second ensemble) and the one-liners (solver=<instance>); judged on every real call (inside the ensemble's ranges, fixed "
            "point of its constraints, penalty asked at the same point) and on post-run probes of each member's own objective at points beyond the "
            "corners / one face / the centre of the box; members of an instance must be exact copies of it; "
            "fillpts / SparsitySolver._InitialPoints (count and range monitored; npts handling / legacy data dropped replayed with the recorded "
            "diffev results as oracle; the objective handed to the optimiser probed at random points, at a collected point and at exactly the "
            "radius). non-trivial = grid with >= 2 non-empty bins and >= 4 points; "
            ">= 2 lattice points; >= 1 sample point; a distribution sample with >= 1 redraw call; randomly_bin with >= 3 sort keys; "
            "ensemble with >= 2 members that evaluated beyond their start")
    tb = ["Lean 4.33 kernel; axioms per theorem listed under coverage.theorems",
          "hand-written model Model/Ensemble.lean tied to grid.py / samples.py / ensemble.py / abstract_ensemble_solver.py by this bit-exact differential run only",
          "Nelder-Mead members are the closed-loop model of C01-C05 (Model/ClosedLoop.lean): whole ensemble runs are predicted from the starting points alone; for Powell / DE / DE2 members the members' real (bestEnergy, bestSolution, evaluations, generations) are inputs of the bookkeeping model",
          "'total = number of real cost calls' is proved on the model (sum of the members' evaluation-log lengths) and tied to the code by comparing the log lengths with the recorded cost calls per member; member inheritance of bounds/constraints/penalty/limits/termination through copy.deepcopy is checked on the implementation by the monitor and, for Nelder-Mead members, by the replay (a member that ran under other settings diverges)",
          "object identity of the members / 'the nested instance is a template' is proved on a store model (Model/Ensemble.lean, section Template) whose allocation step stands for copy.deepcopy; that deepcopy returns an independent object is observed on every run (identities, snapshot of the instance around each solve), not proved",
          "fillpts: the optimisation runs (diffev) are an oracle of the model; count, 'no legacy point returned' and range (given that each run returns a point of its bounds: C02) are proved for every oracle; the distance objective is modelled from the distances (the metric itself is numpy's)",
          "the one-liners: what each keyword is documented to mean is written down twice, independently of ensemble.py - in the model (`oneliner`, compared with the captured members' settings) and in the harness (the explicitly configured reference ensemble); 'gtol falsy = VTRChangeOverGeneration(ftol)' is mystic's convention (diffev / fmin_powell / fillpts use it), taken as the meaning of the argument",
          "a reduction repeated over the same members: `reduce_seq_min` needs 'a member's best energy never increases' (C04) only for the pickling-map mode, where the stored best is a stale copy; whether the map returns the same objects is an input of the model (live = no pickle transport)",
          "step-wise mode = run-to-completion mode is proved for every nested solver but Powell (Finalize moves generations); on the implementation it is monitored by re-running Solve(step=True) cases in run-to-completion mode; known finding F20e (a finished Nelder-Mead member's stored best vertex is clipped into the strict ranges by later ensemble Steps) is the one observed difference"]
    assumptions = ["maps are in-process and order-preserving in their RESULT (any evaluation order); a pickling / process-pool map is not exercised",
                   "costs, constraints and penalties are deterministic DSL closures (deep copy keeps the same function object)",
                   "IEEE binary64 + - * / and comparisons agree between Lean Float and CPython / numpy",
                   "samples within [lb, ub]: the upper end is a field statement; in general floats an excess by rounding is counted, not reported (DESIGN 3); "
                   "with a user-supplied distribution the statement involves comparisons only and is checked exactly",
                   "distributions never return NaN (numpy.clip propagates NaN; the model's clip does not)",
                   "a RuntimeError('bounds could not be applied') of random_samples is accepted only when some coordinate has less than 2% of its distribution's mass strictly inside its range"]
    return framework.finish(PID, tier, seed, t0, proof, run, rule, tb, assumptions, search_more=search_more)


def replay(path):
    """re-execute one stored case (implementation, model and monitor) and reprint the verdict"""
    common.import_mystic()
    import warnings
    warnings.simplefilter("ignore"); np.seterr(all="ignore")
    leandrv.ensure_driver()
    data = json.load(open(path))
    case = data.get("case") or {}
    if data.get("kind") == "no-failing-input-found":
        cs = data.get("correspondence_not_checking") or []
        case = cs[0]["case"] if cs else {}
    if case.get("witness"):
        fs = witnesses()
    else:
        g = case.get("gen")
        if not g:
            print("replay: no generator coordinates in %s" % path); return 2
        recs, fs, _ = run_cases([(g["seed"], g["shard"], g["k"], g["tier"], g.get("stream"))])
    known = {e["class_key"] for e in framework.load_known(PID)}
    rc = 0
    for f in fs:
        if f["kind"] == "monitor" and f["class_key"] in known:
            print("KNOWN-FINDING: property=%s %s [%s]" % (PID, f["what"][:300], f["class_key"]))
        else:
            print("VIOLATION property=%s replay=%s%s  # %s: %s" % (PID, path, "" if f["kind"] == "monitor" else " no-failing-input-found", f["class_key"], f["what"][:300]))
            rc = 1
    if not fs:
        print("replay: case passes on the current tree")
    return rc


if __name__ == "__main__":
    sys.exit(main(os.environ.get("VERIF_TIER", "quick"), common.seed_env()))
