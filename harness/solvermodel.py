"""Correspondence between real solver traces (trace.py) and the Lean solver model S (Drv/SolverDrv.lean):
 - `de`  : differential evolution (1 and 2) replayed from the recorded trial vectors
 - `nm`  : Nelder-Mead replayed from the initial guess alone (bit-exact vertex arithmetic)
 - `ctl` : the Step/Terminated/limits/Finalize control loop replayed from the observed per-step deltas and
           termination verdicts
Each function returns (request_line or None, compare(reply) -> list of (class_key, what))."""
import math
import common, dsl
from common import fl, fll, f2b, b2f, parse_sexp, same_vec, same_float


def setup_sexp(spec):
    kind, e = spec["cost"]
    if kind == "scalar":
        cost = "(scalar %s)" % dsl.expr_sexp(e)
    else:
        cost = "(%s %s)" % ("vsum" if spec.get("reducer") == "sum" else "vmax", " ".join(dsl.expr_sexp(t) for t in e))
    pen = dsl.expr_sexp(spec["penalty"]) if spec.get("penalty") is not None else "none"
    cons = dsl.con_sexp(spec["constraints"]) if spec.get("constraints") is not None else "none"
    if spec.get("ranges"):
        lo, hi, tight, clip = spec["ranges"]
        mode = 2 if clip is True else (1 if tight else 0)
        box = "(%s %s %d)" % (fl(lo), fl(hi), mode)
    else:
        box = "none"
    return "(cost %s) (pen %s) (cons %s) (box %s)" % (cost, pen, cons, box)


def modelable(spec):
    """configurations the Float driver reproduces: fixed configuration, no randomising clip=False,
    a vector cost only with its reducer"""
    if any(op[0] not in ("step",) or len(op) > 1 for op in spec["ops"]) or spec.get("pushing"):
        return False
    if spec.get("ranges") and spec["ranges"][3] is False:
        return False
    if spec["cost"][0] == "vector" and not spec.get("reducer"):
        return False
    return True


def performed_snaps(rec, until_stop=False):
    """snapshots of the step ops in which an iteration really ran (optionally only up to the first stop:
    after a stop the objective is re-decorated, which the algorithm models do not cover - see F20)"""
    out = []
    for sn in rec.snaps:
        if sn["op"][0] == "step" and sn["pre"] is not None:
            if sn["n_cb"] > sn["pre"]["n_cb"] or sn["n_cost_calls"] > sn["pre"]["n_cost_calls"]:
                out.append(sn)
        if until_stop and sn["ret"] is not None:
            break
    return out


def parse_steps(reply):
    """'ok steps=((..) (..)) ...' -> list of dicts"""
    r = common.parse_reply(reply)
    if r[0] != "ok":
        return None, r
    steps = []
    for st in r[1]["steps"]:
        d = {}
        it = iter(st)
        first = True
        toks = list(st)
        # DE: (pop .. popE .. best .. bestE .. nlog n nstep n) ; NM: (branch sim .. fsim .. nlog n nstep n)
        i = 0
        if toks and isinstance(toks[0], str) and toks[0] not in ("pop",):
            d["branch"] = toks[0]; i = 1
        while i + 1 < len(toks):
            d[toks[i]] = toks[i + 1]; i += 2
        steps.append(d)
    return steps, r


def fvec(sx):
    return [b2f(t) for t in sx]


# ------------------------------------------------------------------ DE
def de_request(spec, rec):
    if spec["solver"] not in ("DE", "DE2") or not modelable(spec):
        return None, None
    snaps = performed_snaps(rec, until_stop=True)
    if not snaps:
        return None, None
    npop = len(rec.init_population)
    # trials grouped by generation (len(stepmon) at the time the strategy ran), candidate order
    gens = {}
    for g, cand, t in rec.trials:
        gens.setdefault(g, []).append((cand, t))
    groups = []
    for g in sorted(gens):
        groups.append([t for _, t in gens[g]])
    groups = groups[:max(0, len(snaps) - 1)]
    if len(groups) != len(snaps) - 1 or any(len(g) != npop for g in groups):
        return None, None      # a stop happened mid-way in an unusual manner: covered by ctl
    line = "C01 de %s (pop %s) (trials (%s)) (two %s)" % (setup_sexp(spec), fll(rec.init_population),
                                                            " ".join(fll(g) for g in groups), "true" if spec["solver"] == "DE2" else "false")

    def compare(reply):
        steps, r = parse_steps(reply)
        if steps is None:
            return [("%s/model-%s" % (spec["solver"], r[0]), "model replied %r" % (reply[:200],))]
        out = []
        if len(steps) != len(snaps):
            return [("%s/model-step-count" % spec["solver"], "model ran %d steps, implementation %d" % (len(steps), len(snaps)))]
        for k, (st, sn) in enumerate(zip(steps, snaps)):
            mpop = [fvec(p) for p in st["pop"]]
            diffs = []
            if len(mpop) != len(sn["population"]) or not all(same_vec(a, b) for a, b in zip(mpop, sn["population"])):
                diffs.append("population")
            if not same_vec(fvec(st["popE"]), sn["popEnergy"]):
                diffs.append("popEnergy model=%r impl=%r" % (fvec(st["popE"]), sn["popEnergy"]))
            if not same_vec(fvec(st["best"]), sn["bestSolution"]):
                diffs.append("bestSolution model=%r impl=%r" % (fvec(st["best"]), sn["bestSolution"]))
            if not same_float(b2f(st["bestE"]), sn["bestEnergy"]):
                diffs.append("bestEnergy model=%r impl=%r" % (b2f(st["bestE"]), sn["bestEnergy"]))
            if int(st["nlog"]) != sn["n_cost_calls"]:
                diffs.append("cost calls model=%s impl=%d" % (st["nlog"], sn["n_cost_calls"]))
            if diffs:
                out.append(("%s/step-diverges" % spec["solver"], "generation %d: %s" % (k, "; ".join(diffs))))
                break
        return out
    return line, compare



# ------------------------------------------------------------------ reconfigured runs (DE, NM)
DEC_OPS = ("step", "setpenalty", "setconstraints", "setranges", "finalize", "setlimits", "settermination", "earlyexit", "clearexit", "monadd")


def _cfg_sexp(spec, cfg):
    sub = dict(spec); sub["penalty"] = cfg.get("penalty"); sub["constraints"] = cfg.get("constraints"); sub["ranges"] = cfg.get("ranges")
    return setup_sexp(sub)


def reconfig_events(spec, rec, de):
    """walk the op list: every Step op that finds the solver not live re-decorates the objective FIRST (`Step` l.1096:
    `_bootstrap_objective`), whether or not an iteration follows; a Step handed settings re-decorates inside `_Step`.
    -> (events, snaps of the performed iterations, why the walk stopped); an event is ('redec', cfg, allclip) or
    ('gen', cfg, redec, allclip, trials-or-None, op index)"""
    import solvermon
    tl = solvermon.config_timeline(spec, rec)
    events, snaps = [], []
    prev = None
    why = "end"
    for oi, op in enumerate(spec["ops"]):
        if oi >= len(rec.snaps):
            break
        sn = rec.snaps[oi]
        if op[0] not in DEC_OPS:
            why = "op:" + op[0]; break
        if op[0] == "step":
            ran = solvermon.step_ran(sn)
            cfg = tl[oi][0]
            redec = prev is None or (not prev["live"]) or (ran and len(op) > 1)
            if redec and cfg.get("ranges") and cfg["ranges"][3] is False:
                why = "randomising-box"; break
            ngen = prev["generations"] if prev is not None else 0
            allclip = ngen == 0
            if de and redec and cfg.get("ranges") and not allclip and prev is not None:
                lo, hi = cfg["ranges"][0], cfg["ranges"][1]
                try:
                    idx = prev["popEnergy"].index(prev["bestEnergy"])
                except ValueError:
                    why = "best-not-in-popEnergy"; break
                if any(i != idx and any(v < l or v > h for v, l, h in zip(m, lo, hi)) for i, m in enumerate(prev["population"])):
                    why = "random-redraw"; break
            if ran:
                trs = None
                if de:
                    n0 = prev["n_trials"] if prev is not None else 0
                    trs = [t for _, _, t in rec.trials[n0:sn["n_trials"]]]
                    first = not snaps and (prev is None or prev["n_stepmon"] == 0)
                    if first:
                        if trs:
                            why = "trials-at-generation-0"; break
                        trs = None
                    elif len(trs) != len(rec.init_population):
                        why = "partial-generation"; break
                elif prev is not None and prev["n_stepmon"] != len(snaps):
                    why = "step-monitor-out-of-phase"; break
                events.append(("gen", cfg, redec, allclip, trs, oi))
                snaps.append(sn)
            elif redec and prev is not None:
                events.append(("redec", cfg, allclip))
        prev = sn
    return events, snaps, why


def _event_stats(events):
    gens = [e for e in events if e[0] == "gen"]
    nredec = sum(1 for e in events[1:] if e[0] == "redec" or e[2])
    ncfg = len({repr(e[1]) for e in gens})
    nidle = sum(1 for e in events if e[0] == "redec")
    return nredec, ncfg, nidle


def dec_request(spec, rec):
    """differential evolution through ANY sequence of Step / Set* ops (Model/Reconfig.lean): one `gen` per performed
    iteration with the settings in force at that iteration, one `redec` per re-decoration made by a Step that then
    found the solver stopped; the replay ends before the first event the model does not cover (a monitor replaced, a
    Solve op, a re-decoration that re-draws an out-of-box member at random, a randomising box)"""
    if spec["solver"] not in ("DE", "DE2") or spec.get("pushing"):
        return None, None
    if spec["cost"][0] == "vector" and not spec.get("reducer"):
        return None, None
    events, snaps, why = reconfig_events(spec, rec, True)
    if len(snaps) < 2:
        return None, None
    two = "true" if spec["solver"] == "DE2" else "false"
    parts = []
    for e in events:
        if e[0] == "redec":
            parts.append("(redec (cfg %s) (allclip %s))" % (_cfg_sexp(spec, e[1]), "true" if e[2] else "false"))
        else:
            parts.append("(gen (cfg %s) (redec %s) (allclip %s) (two %s) (trials %s))" % (
                _cfg_sexp(spec, e[1]), "true" if e[2] else "false", "true" if e[3] else "false", two,
                "members" if e[4] is None else fll(e[4])))
    line = "C01 dec (pop %s) (gens (%s))" % (fll(rec.init_population), " ".join(parts))

    def compare(reply):
        steps, r = parse_steps(reply)
        if steps is None:
            return [("%s/reconfigured/model-%s" % (spec["solver"], r[0]), "model replied %r" % (reply[:200],))]
        if len(steps) != len(snaps):
            return [("%s/reconfigured/model-step-count" % spec["solver"], "model ran %d steps, implementation %d" % (len(steps), len(snaps)))]
        out = []
        for k, (st, sn) in enumerate(zip(steps, snaps)):
            mpop = [fvec(p) for p in st["pop"]]
            diffs = []
            if len(mpop) != len(sn["population"]) or not all(same_vec(a, b) for a, b in zip(mpop, sn["population"])):
                diffs.append("population model=%r impl=%r" % (mpop, sn["population"]))
            if not same_vec(fvec(st["popE"]), sn["popEnergy"]):
                diffs.append("popEnergy model=%r impl=%r" % (fvec(st["popE"]), sn["popEnergy"]))
            if not same_vec(fvec(st["best"]), sn["bestSolution"]):
                diffs.append("bestSolution model=%r impl=%r" % (fvec(st["best"]), sn["bestSolution"]))
            if not same_float(b2f(st["bestE"]), sn["bestEnergy"]):
                diffs.append("bestEnergy model=%r impl=%r" % (b2f(st["bestE"]), sn["bestEnergy"]))
            if int(st["nlog"]) != sn["n_cost_calls"]:
                diffs.append("cost calls model=%s impl=%d" % (st["nlog"], sn["n_cost_calls"]))
            if diffs:
                out.append(("%s/reconfigured/step-diverges" % spec["solver"], "performed iteration %d (op %r): %s" % (k, sn["op"], "; ".join(diffs)[:900])))
                break
        if not out:
            r1 = r[1]
            if spec["cost"][0] == "scalar" and "logsum" in r1 and int(r1["logsum"]) != log_checksum(rec.cost_calls[:snaps[-1]["n_cost_calls"]]):
                out.append(("%s/reconfigured/evaluation-log-differs" % spec["solver"], "the sequence of (point, cost) pairs the user's cost was called with differs from the model's evaluation log"))
        return out
    nredec, ncfg, nidle = _event_stats(events)
    compare.dec_info = (len(snaps), why, nredec, ncfg, nidle)
    return line, compare


def nmc_request(spec, rec):
    """Nelder-Mead through any sequence of Step / Set* ops: one `gen` per performed iteration with the settings in
    force, one `redec` per re-decoration by a Step that then found the solver stopped; under strict ranges a
    re-decoration rebuilds the simplex and keeps the energies (the model follows the code: known finding F20)"""
    if spec["solver"] != "NM" or spec.get("pushing") or spec["dim"] > 15:
        return None, None
    if spec["cost"][0] == "vector" and not spec.get("reducer"):
        return None, None
    events, snaps, why = reconfig_events(spec, rec, False)
    if len(snaps) < 3:
        return None, None
    parts = []
    for e in events:
        cfg = e[1]
        if e[0] == "redec":
            parts.append("(redec (cfg %s))" % _cfg_sexp(spec, cfg))
        else:
            mut = bool(spec.get("inplace")) and cfg.get("constraints") is not None and not cfg.get("ranges")
            parts.append("(gen (cfg %s) (redec %s) (inplace %s))" % (_cfg_sexp(spec, cfg), "true" if e[2] else "false", "true" if mut else "false"))
    line = "C01 nmc (x0 %s) (radius %s) (gens (%s))" % (fl(spec["x0"]), f2b(0.05), " ".join(parts))

    def compare(reply):
        steps, r = parse_steps(reply)
        if steps is None:
            return [("NM/reconfigured/model-%s" % r[0], "model replied %r" % (reply[:200],))]
        out = []
        complete = True
        for k, (st, sn) in enumerate(zip(steps, snaps)):
            msim = [fvec(p) for p in st["sim"]]
            diffs = []
            if k >= 1 and len(set(sn["popEnergy"])) < len(sn["popEnergy"]):
                a = sorted((e, tuple(p)) for p, e in zip(msim, fvec(st["fsim"])))
                b = sorted((e, tuple(p)) for p, e in zip(sn["population"], sn["popEnergy"]))
                if [(common.f2b(e), tuple(common.f2b(v) for v in p)) for e, p in a] != [(common.f2b(e), tuple(common.f2b(v) for v in p)) for e, p in b]:
                    out.append(("NM/reconfigured/step-diverges", "performed iteration %d (ties): simplex multisets differ model=%r impl=%r" % (k, a, b)))
                complete = False
                break
            if len(msim) != len(sn["population"]) or not all(same_vec(a, b) for a, b in zip(msim, sn["population"])):
                diffs.append("simplex model=%r impl=%r" % (msim, sn["population"]))
            if not same_vec(fvec(st["fsim"]), sn["popEnergy"]):
                diffs.append("energies model=%r impl=%r" % (fvec(st["fsim"]), sn["popEnergy"]))
            if int(st["nlog"]) != sn["n_cost_calls"]:
                diffs.append("cost calls model=%s impl=%d" % (st["nlog"], sn["n_cost_calls"]))
            if diffs:
                out.append(("NM/reconfigured/step-diverges", "performed iteration %d (op %r, model branch %s): %s" % (k, sn["op"], st.get("branch"), "; ".join(diffs)[:900])))
                complete = False
                break
        if complete and not out and len(steps) == len(snaps) and spec["cost"][0] == "scalar":
            r1 = r[1]
            if "logsum" in r1 and int(r1["logsum"]) != log_checksum(rec.cost_calls[:snaps[-1]["n_cost_calls"]]):
                out.append(("NM/reconfigured/evaluation-log-differs", "the sequence of (point, cost) pairs the user's cost was called with differs from the model's evaluation log"))
        return out
    nredec, ncfg, nidle = _event_stats(events)
    k = 0
    nreset = 0
    for e in events:
        if (e[0] == "redec" or e[2]) and k >= 2 and e[1].get("ranges"):
            nreset += 1
        if e[0] == "gen":
            k += 1
    compare.dec_info = (len(snaps), why, nredec, ncfg, nidle, nreset)
    return line, compare


# ------------------------------------------------------------------ NM
def nm_request(spec, rec):
    if spec["solver"] != "NM" or not modelable(spec) or spec["dim"] > 15:
        return None, None
    snaps = performed_snaps(rec, until_stop=True)
    if not snaps:
        return None, None
    # an in-place constraints function rewrites the candidate vertex through the numpy view wrap_nested passes
    # (only without strict ranges: and_ copies to a list first)
    mut = bool(spec.get("inplace")) and spec.get("constraints") is not None and not spec.get("ranges")
    line = "C01 nm %s (x0 %s) (radius %s) (steps %d) (inplace %s)" % (setup_sexp(spec), fl(spec["x0"]), f2b(0.05), len(snaps), "true" if mut else "false")

    def compare(reply):
        steps, r = parse_steps(reply)
        if steps is None:
            return [("NM/model-%s" % r[0], "model replied %r" % (reply[:200],))]
        out = []
        for k, (st, sn) in enumerate(zip(steps, snaps)):
            msim = [fvec(p) for p in st["sim"]]
            diffs = []
            if k >= 1 and len(set(sn["popEnergy"])) < len(sn["popEnergy"]):
                # equal energies: numpy.argsort's tie order is unspecified (SIMD sort); compare as multisets, stop here
                a = sorted((e, tuple(p)) for p, e in zip(msim, fvec(st["fsim"])))
                b = sorted((e, tuple(p)) for p, e in zip(sn["population"], sn["popEnergy"]))
                if [(common.f2b(e), tuple(common.f2b(v) for v in p)) for e, p in a] != [(common.f2b(e), tuple(common.f2b(v) for v in p)) for e, p in b]:
                    out.append(("NM/step-diverges", "generation %d (ties): simplex multisets differ model=%r impl=%r" % (k, a, b)))
                break
            if len(msim) != len(sn["population"]) or not all(same_vec(a, b) for a, b in zip(msim, sn["population"])):
                diffs.append("simplex model=%r impl=%r" % (msim, sn["population"]))
            if not same_vec(fvec(st["fsim"]), sn["popEnergy"]):
                diffs.append("energies model=%r impl=%r" % (fvec(st["fsim"]), sn["popEnergy"]))
            if int(st["nlog"]) != sn["n_cost_calls"]:
                diffs.append("cost calls model=%s impl=%d" % (st["nlog"], sn["n_cost_calls"]))
            if diffs:
                out.append(("NM/step-diverges", "generation %d (model branch %s): %s" % (k, st.get("branch"), "; ".join(diffs)[:600])))
                break
        return out
    return line, compare


def nm_branches(reply):
    steps, r = parse_steps(reply)
    return [st.get("branch") for st in steps] if steps else []


# ------------------------------------------------------------------ Powell on the decorated objective
M64 = (1 << 64) - 1


def _bits(v):
    v = float(v)
    if v != v:
        return 0x7ff8000000000000
    return int(f2b(v)[1:])


def log_checksum(calls):
    """order-sensitive checksum of [(x, y)] (twin of SolverDrv.logSum)"""
    h = 0
    for x, y in calls:
        for v in x:
            h = (h * 6364136223846793005 + _bits(v) + 1442695040888963407) & M64
        h = (h * 6364136223846793005 + _bits(y) + 1442695040888963407) & M64
    return h


def pwb_request(spec, rec):
    """Powell replayed from the initial guess ALONE: the Brent line search is the Lean model (Model/Brent.lean)"""
    return pw_request(spec, rec, brent=True)


def pw_request(spec, rec, brent=False):
    """Powell replayed from the initial guess and the RECORDED line searches (which points Brent evaluated, which one
    it returned): everything else - constraints, box test, cost, penalty, delta/bigind bookkeeping, extrapolation
    test, direction replacement, step records, evaluation log - is recomputed by the model and compared."""
    if spec["solver"] != "Powell" or not modelable(spec):
        return None, None
    snaps = performed_snaps(rec, until_stop=True)
    if not snaps:
        return None, None
    last = snaps[-1]
    lss = rec.linesearch[:last["n_ls"]]
    pre_findings = []
    recs = []
    for k, (p, xi, fret, xn, xin, pts) in enumerate(lss):
        idx = None
        for j, (z, v) in enumerate(pts):
            if same_vec(z, xn):
                idx = j
                break
        if idx is None:
            pre_findings.append(("Powell/linesearch-contract/returned-point-not-evaluated",
                                 "line search %d returned %r, which is none of the %d points it evaluated" % (k, xn, len(pts))))
            return None, (lambda reply, pf=pre_findings: pf)
        if pts and all(a == b for a, b in zip(pts[0][0], p)) and len(pts[0][0]) == len(p):
            f0 = pts[0][1]
            if f0 == f0 and fret == fret and not (fret <= f0):
                pre_findings.append(("Powell/linesearch-contract/returned-worse-than-start",
                                     "line search %d from %r returned energy %r > energy at its start %r (LsMono, hypothesis of the history theorems)" % (k, p, fret, f0)))
        recs.append("((pre (%s)) (y %s) (post (%s)) (xi %s))" % (" ".join(fl(z) for z, _ in pts[:idx]), fl(xn),
                                                                " ".join(fl(z) for z, _ in pts[idx + 1:]), fl(xin)))
    record = not (spec.get("limits") is not None and spec["limits"][0] == 0)
    if brent:
        pre_findings = []      # the oracle contract is the recorded-oracle replay's business
        line = "C01 pw %s (x0 %s) (record %s) (steps %d) (brent true) (tol %s) (imax %d)" % (
            setup_sexp(spec), fl(spec["x0"]), "true" if record else "false", len(snaps), f2b(1e-4 * 100), 500)
    else:
        line = "C01 pw %s (x0 %s) (record %s) (steps %d) (ls (%s))" % (setup_sexp(spec), fl(spec["x0"]), "true" if record else "false",
                                                                         len(snaps), " ".join(recs))
    tagp = "PowellBrent" if brent else "Powell"
    scalar = spec["cost"][0] == "scalar"

    def compare(reply):
        out = list(pre_findings)
        r = common.parse_reply(reply)
        if r[0] != "ok":
            return out + [("%s/model-%s" % (tagp, r[0]), "model replied %r" % (reply[:200],))]
        steps = []
        for st in r[1]["steps"]:
            toks = list(st)
            steps.append({toks[i]: toks[i + 1] for i in range(0, len(toks) - 1, 2)})
        if len(steps) != len(snaps):
            return out + [("%s/model-step-count" % tagp, "model ran %d steps, implementation %d" % (len(steps), len(snaps)))]
        for k, (st, sn) in enumerate(zip(steps, snaps)):
            diffs = []
            if not same_vec(fvec(st["x"]), sn["bestSolution"]):
                diffs.append("bestSolution model=%r impl=%r" % (fvec(st["x"]), sn["bestSolution"]))
            if not same_float(b2f(st["fval"]), sn["bestEnergy"]):
                diffs.append("bestEnergy model=%r impl=%r" % (b2f(st["fval"]), sn["bestEnergy"]))
            if int(st["nlog"]) != sn["n_cost_calls"]:
                diffs.append("cost calls model=%s impl=%d" % (st["nlog"], sn["n_cost_calls"]))
            # a Step that detects the stop ends in Finalize, which (Powell) appends a record of its own: control model Ctl
            if sn["ret"] is None and int(st["nstep"]) != sn["n_stepmon"]:
                diffs.append("step records model=%s impl=%d" % (st["nstep"], sn["n_stepmon"]))
            if int(st["nls"]) != sn["n_ls"]:
                diffs.append("line searches model=%s impl=%d" % (st["nls"], sn["n_ls"]))
            if diffs:
                out.append(("%s/step-diverges" % tagp, "generation %d: %s" % (k, "; ".join(diffs)[:600])))
                return out
        # the model asked for exactly the searches the implementation made
        reqs = r[1]["reqs"]
        if len(reqs) != len(lss) or not all(same_vec(fvec(q[0]), l[0]) and same_vec(fvec(q[1]), l[1]) for q, l in zip(reqs, lss)):
            bad = next((i for i, (q, l) in enumerate(zip(reqs, lss)) if not (same_vec(fvec(q[0]), l[0]) and same_vec(fvec(q[1]), l[1]))), min(len(reqs), len(lss)))
            out.append(("%s/linesearch-requests-diverge" % tagp, "model requested %d searches, implementation %d; first difference at #%d" % (len(reqs), len(lss), bad)))
            return out
        sl = r[1]["steplog"]
        stopped = last["ret"] is not None
        nrec = last["n_stepmon"]
        if stopped and nrec == len(sl) + 1 and same_vec(last["stepmon_x"][-1], last["bestSolution"]) and same_float(last["stepmon_y"][-1], last["bestEnergy"]):
            nrec = len(sl)          # Finalize's record (bestSolution, bestEnergy)
        if len(sl) != nrec or not all(same_vec(fvec(a[0]), x) and same_float(b2f(a[1]), y) for a, x, y in zip(sl, last["stepmon_x"], last["stepmon_y"])):
            out.append(("%s/step-monitor-diverges" % tagp, "model step log %r != implementation %r" % ([(fvec(a[0]), b2f(a[1])) for a in sl][-3:], list(zip(last["stepmon_x"], last["stepmon_y"]))[-3:])))
        if not stopped and not same_vec(fvec(r[1]["hist"]), last["energy_history"]):
            out.append(("%s/energy-history-diverges" % tagp, "model %r != implementation %r" % (fvec(r[1]["hist"])[-4:], last["energy_history"][-4:])))
        if scalar:
            want = log_checksum(rec.cost_calls[:last["n_cost_calls"]])
            if int(r[1]["logsum"]) != want:
                out.append(("%s/evaluation-log-diverges" % tagp, "the sequence of (x, cost x) the model evaluates differs from the %d real cost calls" % last["n_cost_calls"]))
        return out
    return line, compare


def pw_stats(reply, dim):
    """(iterations replayed, extrapolation line searches among them) for the coverage histogram"""
    r = common.parse_reply(reply)
    if r[0] != "ok" or not r[1]["steps"]:
        return 0, 0
    steps = r[1]["steps"]
    toks = list(steps[-1])
    d = {toks[i]: toks[i + 1] for i in range(0, len(toks) - 1, 2)}
    its = max(0, len(steps) - 1)
    return its, max(0, int(d["nls"]) - dim * its)


# ------------------------------------------------------------------ the closed loop (whole Solve() runs)
def term_sexp(t, ctr=None):
    """solver-spec termination -> expression of the termination model (Drv/C10 syntax); None if not expressible"""
    ctr = ctr if ctr is not None else [0]

    def prim(body):
        i = ctr[0]; ctr[0] += 1
        return "(p %d %d %s)" % (i, i, body)

    def gens(g):
        return "none" if g is None else str(int(g))
    if t is None:
        return None
    k = t[0]
    if k == "VTR":
        return prim("vtr %s %s" % (f2b(t[1]), f2b(t[2])))
    if k == "COG":
        return prim("cog %s %s" % (f2b(t[1]), gens(t[2])))
    if k == "NCOG":
        return prim("ncog %s %s" % (f2b(t[1]), gens(t[2])))
    if k == "CRT":
        return prim("crt %s %s" % (f2b(t[1]), f2b(t[2])))
    if k == "VTRCOG":
        return prim("vtrcog %s %s %s %s" % (f2b(t[1]), f2b(t[2]), gens(t[3]), f2b(t[4])))
    if k == "never":
        return prim("vtr %s %s" % (f2b(-1.0), f2b(0.0)))
    if k == "EVL":
        return prim("evallimits %s %s" % (gens(t[1]), gens(t[2])))
    if k in ("Or", "And"):
        a = term_sexp(t[1], ctr); b = term_sexp(t[2], ctr)
        if a is None or b is None:
            return None
        return "(%s %s %s)" % ("or" if k == "Or" else "and", a, b)
    return None


def solve_request(spec, rec):
    """a whole `Solve()` replayed by the closed-loop model: the number of iterations, the stop message, the counters,
    the resolved limits and the reported best are all predicted (DE/DE2: from the recorded trial vectors; Nelder-Mead:
    from the initial guess alone)."""
    solver = spec["solver"]
    if solver not in ("DE", "DE2", "NM", "Powell") or not spec["ops"] or spec["ops"][0][0] != "solve" or spec.get("pushing"):
        return None, None
    if spec.get("ranges") and spec["ranges"][3] is False:
        return None, None
    if spec["cost"][0] == "vector" and not spec.get("reducer"):
        return None, None
    if not spec.get("evalmon", True) and solver == "DE2":
        return None, None
    te = term_sexp(spec.get("termination"))
    if te is None or not rec.snaps:
        return None, None
    sn = rec.snaps[0]
    npop = max(spec["npop"], spec["dim"], 4) if solver in ("DE", "DE2") else 1
    si, se = SCALE[solver]
    N = spec["dim"]
    lim = spec.get("limits") or (None, None)
    head = "C05 solve %s (kind %s) (term %s) (scale %d %d) (limits %s %s) (fuel %d)" % (
        setup_sexp(spec), {"DE": "de", "DE2": "de2", "NM": "nm", "Powell": "pw"}[solver], te, N * npop * si, N * npop * se,
        lim_str(lim[0]), lim_str(lim[1]), sn["generations"] + 50)
    lss = None
    if solver == "Powell":
        lss = rec.linesearch[:sn["n_ls"]]
        recs = []
        for (p, xi, fret, xn, xin, pts) in lss:
            idx = next((j for j, (z, v) in enumerate(pts) if same_vec(z, xn)), None)
            if idx is None:
                return None, None          # reported by the step-wise replay (pw_request) as a broken oracle contract
            recs.append("((pre (%s)) (y %s) (post (%s)) (xi %s))" % (" ".join(fl(z) for z, _ in pts[:idx]), fl(xn),
                                                                    " ".join(fl(z) for z, _ in pts[idx + 1:]), fl(xin)))
        record = not (spec.get("limits") is not None and spec["limits"][0] == 0)
        # from the initial guess alone: the line searches are the Lean model of bracket/brent (tol = xtol*100, maxiter = imax)
        line = head + " (x0 %s) (record %s) (brent true) (tol %s) (imax %d)" % (fl(spec["x0"]), "true" if record else "false", f2b(1e-4 * 100), 500)
    elif solver == "NM":
        if spec["dim"] > 15:
            return None, None
        mut = bool(spec.get("inplace")) and spec.get("constraints") is not None and not spec.get("ranges")
        line = head + " (x0 %s) (radius %s) (inplace %s)" % (fl(spec["x0"]), f2b(0.05), "true" if mut else "false")
    else:
        gens = {}
        for g, cand, t in rec.trials[:sn["n_trials"]]:
            gens.setdefault(g, []).append(t)
        groups = [gens[g] for g in sorted(gens)]
        if any(len(g) != len(rec.init_population) for g in groups):
            return None, None
        line = head + " (pop %s) (trials (%s))" % (fll(rec.init_population), " ".join(fll(g) for g in groups))

    def compare(reply):
        r = common.parse_reply(reply)
        if r[0] != "ok":
            return [("%s/solve-model-%s" % (solver, r[0]), "model replied %r" % (reply[:200],))]
        d = r[1]
        if solver == "NM" and d.get("ties") == "true":
            return []          # tie order of numpy.argsort is unspecified: not comparable (counted by the caller)
        diffs = []
        if int(d["gens"]) != sn["generations"]:
            diffs.append("generations model=%s impl=%d" % (d["gens"], sn["generations"]))
        if int(d["evals"]) != sn["n_cost_calls"]:
            diffs.append("cost calls model=%s impl=%d" % (d["evals"], sn["n_cost_calls"]))
        if int(d["evals"]) != sn["evaluations"] and not diffs:
            diffs.append("evaluations model=%s impl=%d" % (d["evals"], sn["evaluations"]))
        if int(d["nstep"]) != sn["n_stepmon"]:
            diffs.append("step records model=%s impl=%d" % (d["nstep"], sn["n_stepmon"]))
        if d["msg"] != msg_kind(sn.get("stop_msg")):
            diffs.append("stop message model=%s impl=%s (%r)" % (d["msg"], msg_kind(sn.get("stop_msg")), sn.get("stop_msg")))
        if d["maxiter"] != lim_str(sn["maxiter"]) or d["maxfun"] != lim_str(sn["maxfun"]):
            diffs.append("limits model=(%s,%s) impl=(%s,%s)" % (d["maxiter"], d["maxfun"], lim_str(sn["maxiter"]), lim_str(sn["maxfun"])))
        if (d["live"] == "true") != sn["live"]:
            diffs.append("live model=%s impl=%s" % (d["live"], sn["live"]))
        if lss is not None and not diffs:
            reqs = d["reqs"]
            if int(d["nls"]) != len(lss) or len(reqs) != len(lss) or not all(same_vec(fvec(q[0]), l[0]) and same_vec(fvec(q[1]), l[1]) for q, l in zip(reqs, lss)):
                diffs.append("line searches requested by the model (%s) differ from the %d the implementation made" % (d["nls"], len(lss)))
        if not diffs:
            if not same_vec(fvec(d["best"]), sn["bestSolution"]):
                diffs.append("bestSolution model=%r impl=%r" % (fvec(d["best"]), sn["bestSolution"]))
            if not same_float(b2f(d["bestE"]), sn["bestEnergy"]):
                diffs.append("bestEnergy model=%r impl=%r" % (b2f(d["bestE"]), sn["bestEnergy"]))
        if diffs:
            return [("%s/solve-diverges" % solver, "Solve(): " + "; ".join(diffs)[:700])]
        return []
    return line, compare


# ------------------------------------------------------------------ control loop
SCALE = {"DE": (10, 1000), "DE2": (10, 1000), "NM": (200, 200), "Powell": (1000, 1000)}


def msg_kind(ret):
    if ret is None:
        return "none"
    if ret.startswith("EvaluationLimits with {'evaluations'"):
        return "lim"        # the solver's own limits (Terminated l.688: evaluations first); the termination CONDITION of the
                            # same name writes "{'generations': .., 'evaluations': ..}" and counts as a condition
    if ret.startswith("SolverInterrupt"):
        return "sig"
    return "cond"


def lim_str(v):
    return "none" if v is None else ("star" if v == "*" else str(int(v)))


def ctl_request(spec, rec):
    if any(op[0] == "solve" or (op[0] == "step" and len(op) > 1) for op in spec["ops"]):
        return None, None      # settings handed to Step are processed inside `_Step` (a Finalize after the stop test)
    solver = spec["solver"]
    npop = spec.get("npop", 1) if solver in ("DE", "DE2") else 1
    if solver in ("DE", "DE2"):
        npop = max(spec["npop"], spec["dim"], 4)
    si, se = SCALE[solver]
    N = spec["dim"]
    ops = []
    expect = []
    prev = None
    lim_seed = None
    if spec.get("limits") is not None:
        g, e = spec["limits"]
        ops.append("(limits %s %s false)" % (lim_str(g), lim_str(e))); expect.append(None)
    prev_maxiter = spec["limits"][0] if spec.get("limits") is not None else None
    for sn in rec.snaps:
        op = sn["op"]; k = op[0]
        if k == "step":
            pre = sn["pre"]
            ran = sn["n_cb"] > pre["n_cb"] or sn["n_cost_calls"] > pre["n_cost_calls"]
            tpre = bool(pre.get("term_cond", False))
            tpost = bool(sn.get("post_term_cond", False))
            dE = sn["evaluations"] - pre["evaluations"]
            dG = sn["generations"] - pre["generations"]
            dS = sn["n_stepmon"] - pre["n_stepmon"]
            if solver == "Powell":
                # Powell._Step itself logs at generation 0 (unless maxiter == 0) and at generations >= 2
                own = 0
                if ran:
                    if pre["n_stepmon"] == 0:
                        own = 0 if (prev_maxiter == 0) else 1
                    elif pre["generations"] >= 1:
                        own = 1
                dS = own
            if solver == "DE2" and ran and len(rec.trials) and dE != (sn["n_cost_calls"] - pre["n_cost_calls"]) and prev is not None and prev["maxfun"] in (None, "*"):
                # the counter restart below happens INSIDE `_Step`, after this Step resolved a pending default limit
                # from the old counter: an order the `setevals` device cannot express - the replay stops here
                break
            if solver == "DE2" and ran and len(rec.trials) and dE != (sn["n_cost_calls"] - pre["n_cost_calls"]):
                # DE2 re-reads its counter from len(evaluation monitor) (or counts finite energies without one): the
                # counter is an observation of the monitor, not an accumulation (known findings F21 / F21b)
                ops.append("(setevals %d)" % max(0, sn["evaluations"] - (sn["n_cost_calls"] - pre["n_cost_calls"]))); expect.append(None)
                dE = sn["n_cost_calls"] - pre["n_cost_calls"]
            ops.append("(step %s %s %d %d %d)" % ("true" if tpre else "false", "true" if tpost else "false", max(dE, 0), max(dG, 0), max(dS, 0)))
            expect.append(("step", msg_kind(sn["ret"]), ran, sn["generations"], sn["evaluations"], sn["n_stepmon"], sn["maxiter"], sn["maxfun"], sn["live"]))
        elif k == "setlimits":
            ops.append("(limits %s %s %s)" % (lim_str(op[1]), lim_str(op[2]), "true" if op[3] else "false"))
            expect.append(("limits", sn["maxiter"], sn["maxfun"]))
        elif k == "setstepmon":
            ops.append("(stepmon %s)" % ("true" if op[1] else "false")); expect.append(("stepmon", sn["generations"], sn["n_stepmon"]))
        elif k == "earlyexit":
            ops.append("(exit true)"); expect.append(None)
        elif k == "clearexit":
            ops.append("(exit false)"); expect.append(None)
        elif k == "finalize" or (k in ("setpenalty", "setconstraints", "setranges", "setevalmon") and not (k == "setconstraints" and solver in ("DE", "DE2"))):
            ops.append("(finalize)"); expect.append(("finalize", sn["generations"], sn["n_stepmon"], sn["live"]))
        else:
            prev = sn; prev_maxiter = sn["maxiter"]
            continue
        prev = sn; prev_maxiter = sn["maxiter"]
    if not ops:
        return None, None
    line = "C05 ctl (scale %d %d) (powell %s) (ops (%s))" % (N * npop * si, N * npop * se, "true" if solver == "Powell" else "false", " ".join(ops))

    def compare(reply):
        r = common.parse_reply(reply)
        if r[0] != "ok":
            return [("%s/ctl-model-%s" % (solver, r[0]), "model replied %r" % (reply[:200],))]
        res = r[1]["ops"]
        out = []
        for j, (m, e) in enumerate(zip(res, expect)):
            if e is None:
                continue
            if e[0] == "step":
                _, kind, ran, g, ev, ns, mi, mf, live = e
                mk, mran = m[1], m[2] == "true"
                mg, mev, mns = int(m[3][1:]), int(m[4][1:]), int(m[5][1:])
                mmi, mmf, mlive = m[6], m[7], m[8] == "true"
                diffs = []
                if mk != kind:
                    diffs.append("stop message model=%s impl=%s" % (mk, kind))
                if mran != ran:
                    diffs.append("iteration ran model=%s impl=%s" % (mran, ran))
                if mg != g:
                    diffs.append("generations model=%d impl=%d" % (mg, g))
                if mev != ev:
                    diffs.append("evaluations model=%d impl=%d" % (mev, ev))
                if mns != ns:
                    diffs.append("step records model=%d impl=%d" % (mns, ns))
                if mmi != lim_str(mi) or mmf != lim_str(mf):
                    diffs.append("limits model=(%s,%s) impl=(%s,%s)" % (mmi, mmf, lim_str(mi), lim_str(mf)))
                if mlive != live:
                    diffs.append("live model=%s impl=%s" % (mlive, live))
                if diffs:
                    out.append(("%s/control-diverges" % solver, "op %d %s: %s" % (j, ops[j], "; ".join(diffs))))
                    break
            elif e[0] == "stepmon":
                mg, mns = int(m[1][1:]), int(m[2][1:])
                if (mg, mns) != (e[1], e[2]):
                    out.append(("%s/control-diverges" % solver, "op %d %s: after SetGenerationMonitor model=(gens %d, records %d) impl=(%d, %d)" % (j, ops[j], mg, mns, e[1], e[2])))
                    break
            elif e[0] == "finalize":
                mg, mns, mlive = int(m[1][1:]), int(m[2][1:]), m[3] == "true"
                if (mg, mns, mlive) != (e[1], e[2], e[3]):
                    out.append(("%s/control-diverges" % solver, "op %d %s: after Finalize model=(gens %d, records %d, live %s) impl=(%d, %d, %s)" % (j, ops[j], mg, mns, mlive, e[1], e[2], e[3])))
                    break
            elif e[0] == "limits":
                if m[1] != lim_str(e[1]) or m[2] != lim_str(e[2]):
                    out.append(("%s/control-diverges" % solver, "op %d %s: limits model=(%s,%s) impl=(%s,%s)" % (j, ops[j], m[1], m[2], lim_str(e[1]), lim_str(e[2]))))
                    break
        return out
    return line, compare
