"""Property monitors on real solver traces (trace.py) for C01-C05: the failing-input search on the
implementation, independent of the Lean model.  Every function returns a list of
(class_key, what, extra) tuples; class keys are as narrow as the mechanism."""
import math
import numpy as np
import common, dsl
from common import same_float, same_vec

INF = float("inf")


def is_finite(v):
    return v is not None and v == v and abs(v) != INF


# ---------------------------------------------------------------- harness-side recomputation
def raw_cost(spec, x):
    kind, e = spec["cost"]
    if kind == "scalar":
        return dsl.ev(e, x)
    ys = [dsl.ev(t, x) for t in e]
    red = spec.get("reducer")
    if red == "sum":
        acc = ys[0]
        for t in ys[1:]:
            acc = acc + t
        return acc
    if red == "max":
        acc = ys[0]
        for t in ys[1:]:
            acc = acc if acc >= t else t
        return acc
    if red == "sumsq":
        acc = ys[0] * ys[0]
        for t in ys[1:]:
            acc = acc + t * t
        return acc
    return ys


def penalty_at(pen_expr, x):
    return dsl.ev(pen_expr, x) if pen_expr is not None else 0.0


def in_box(box, x):
    if box is None:
        return True
    lo, hi = box
    return all((not (x[i] < lo[i])) and (not (x[i] > hi[i])) and x[i] == x[i] for i in range(len(x)))


def clip_box(box, x):
    lo, hi = box
    return [min(max(x[i], lo[i]), hi[i]) for i in range(len(x))]


def K_harness(spec_now, x):
    """the constraints the solver is documented to apply before an evaluation, for idempotent box-compatible
    members: cons, then (tight / clip modes) the bounds, repeated until both leave the point unchanged"""
    x = [float(v) for v in x]
    term = spec_now.get("constraints")
    rng = spec_now.get("ranges")
    tight = bool(rng and (rng[2] or rng[3] is not None))
    for _ in range(8):
        y = dsl.con_apply(term, x) if term is not None else list(x)
        if tight:
            y = clip_box((rng[0], rng[1]), y)
        if y == x:
            return y
        x = y
    return x


def step_ran(sn):
    """`_Step` was really executed during this Step op (every solver evaluates the cost in `_Step`)"""
    pre = sn.get("pre")
    return pre is not None and (sn["n_cb"] > pre["n_cb"] or sn["n_cost_calls"] > pre["n_cost_calls"])


def config_timeline(spec, rec=None):
    """configuration (penalty, constraints, ranges) in force after each op; list aligned with ops.
    Settings handed to Step itself are processed by `_process_inputs` INSIDE `_Step`: a Step that finds the solver
    stopped returns before that and installs nothing (so they count only when the iteration really ran)."""
    cur = {"penalty": spec.get("penalty"), "constraints": spec.get("constraints"), "ranges": spec.get("ranges")}
    out = []
    changed = False
    for oi, op in enumerate(spec["ops"]):
        if op[0] == "step" and len(op) > 1:
            if rec is None or (oi < len(rec.snaps) and step_ran(rec.snaps[oi])):
                cur = dict(cur); changed = True
                for name, val in op[1].items():
                    cur[name] = val
        elif op[0] == "setpenalty":
            cur = dict(cur); cur["penalty"] = op[1]; changed = True
        elif op[0] == "setconstraints":
            cur = dict(cur); cur["constraints"] = op[1]; changed = True
        elif op[0] == "setranges":
            cur = dict(cur); cur["ranges"] = None if op[1] is None else (op[1], op[2], op[3], op[4]); changed = True
        out.append((cur, changed))
    return out


def kw_step(op):
    """a Step that was handed settings (constraints= / penalty=)"""
    return op[0] == "step" and len(op) > 1


def reconfigured(spec):
    return any(op[0] in ("setpenalty", "setconstraints", "setranges", "settermination") or kw_step(op) for op in spec["ops"])


def has_nan(rec):
    """NaN costs are excluded by the properties (no total order)"""
    for x, y in rec.cost_calls:
        ys = y if isinstance(y, list) else [y]
        if any(v != v for v in ys) or any(v != v for v in x):
            return True
    return False


def stopped_before(rec, si):
    """a stop (Finalize -> objective re-decorated at the next Step) happened before snapshot si"""
    return any(not sn["live"] for sn in rec.snaps[:si])


def evaluated_set(rec, upto):
    return {tuple(common.f2b(v) for v in x) for x, _ in rec.cost_calls[:upto]}


def key_of(x):
    return tuple(common.f2b(v) for v in x)


# ---------------------------------------------------------------- C01
def mon_c01_extra(spec, rec):
    """runs whose ExtraArgs are (re)given through Step(cost, ExtraArgs=...): "the user's cost" is cost(x, *ExtraArgs) with
    the arguments IN FORCE - every call must receive exactly the arguments handed over last (an empty tuple included),
    and a finite reported best energy is the value one of the calls at the reported point returned"""
    out = []
    solver = spec["solver"]
    cur = ()
    start = 0
    for si, sn in enumerate(rec.snaps):
        op = sn["op"]
        if op[0] == "step" and len(op) > 1 and "extra" in op[1]:
            cur = tuple(float(a) for a in op[1]["extra"])
        end = sn["n_cost_calls"]
        for j in range(start, end):
            if rec.cost_args[j] != cur:
                out.append(("%s/cost-called-with-other-ExtraArgs-than-in-force" % solver,
                            "cost call %d (during op %d) received the extra arguments %r; the arguments handed to Step last are %r" % (j, si, rec.cost_args[j], cur), {"op_index": si, "call_index": j}))
                return out
        start = end
        if sn["n_stepmon"] and is_finite(sn["bestEnergy"]):
            best = sn["bestSolution"]
            ys = [y for (x, y) in rec.cost_calls[:end] if same_vec(x, best)]
            if not ys:
                out.append(("%s/best-not-evaluated" % solver, "reported best %r (energy %r) was never passed to the user's cost" % (best, sn["bestEnergy"]), {"op_index": si}))
                return out
            if not any(y == sn["bestEnergy"] for y in ys):
                out.append(("%s/best-energy-mismatch/ExtraArgs" % solver, "bestEnergy %r is none of the values %r the cost returned at the reported best %r" % (sn["bestEnergy"], ys[:6], best), {"op_index": si}))
                return out
    return out


def mon_c01(spec, rec):
    """fixed-configuration traces only (step / solve / finalize ops)"""
    out = []
    if spec.get("extra_run"):
        return mon_c01_extra(spec, rec)
    if reconfigured(spec):
        return mon_c01_reconfigured(spec, rec)
    solver = spec["solver"]
    pen = spec.get("penalty")
    vector_pen = spec["cost"][0] == "vector" and pen is not None
    cfg = {"penalty": pen, "constraints": spec.get("constraints"), "ranges": spec.get("ranges")}
    box = (spec["ranges"][0], spec["ranges"][1]) if spec.get("ranges") else None
    E0 = None
    for si, sn in enumerate(rec.snaps):
        if sn["n_stepmon"] == 0:
            continue
        ev = evaluated_set(rec, sn["n_cost_calls"])
        best, bE = sn["bestSolution"], sn["bestEnergy"]
        if is_finite(bE):
            moved = K_harness(cfg, best) != best
            if key_of(best) not in ev:
                if solver == "NM" and moved:
                    key = "NelderMead/best-not-evaluated/constraints-move-stored-vertex"
                else:
                    key = "%s/best-not-evaluated" % solver
                out.append((key, "reported best %r (energy %r) was never passed to the user's cost" % (best, bE), {"op_index": si}))
            else:
                want = raw_cost(spec, best) + penalty_at(pen, best)
                if not same_float(want, bE) and not (want == bE):
                    key = "%s/best-energy-mismatch" % solver
                    out.append((key, "bestEnergy %r != reducer(cost(best)) + penalty(best) = %r at best=%r" % (bE, want, best), {"op_index": si}))
        # member clause: stored energy == objective (after bounds and constraints) at that member
        for mi, (m, e) in enumerate(zip(sn["population"], sn["popEnergy"])):
            if not is_finite(e):
                # an energy of inf stands for "outside the strict ranges" (or "not evaluated yet"): a member that every
                # solver has evaluated by now, whose constrained image lies INSIDE the closed box and has a finite cost,
                # does not carry its own energy
                evaluated_by_now = sn["generations"] >= 1 and e == INF
                if evaluated_by_now and box is not None and not vector_pen and not spec.get("pushing") and solver != "NM":
                    km = K_harness(cfg, m)
                    if in_box(box, km) and km == m:
                        want = raw_cost(spec, km) + penalty_at(pen, km)
                        if is_finite(want):
                            out.append(("%s/member-energy-inf-inside-box" % solver, "member %r lies inside the closed strict ranges %r and is left unchanged by the constraints, objective there = %r, but its stored energy is inf" % (m, box, want), {"op_index": si}))
                            break
                continue
            km = K_harness(cfg, m)
            if box is not None and not in_box(box, km):
                want = INF
            else:
                want = raw_cost(spec, km) + penalty_at(pen, km)
            if not (want == e):
                key = "%s/member-energy-mismatch" % solver
                if solver == "NM" and box is not None and stopped_before(rec, si):
                    key = "NelderMead/member-energy-stale/simplex-reset-on-redecoration"
                out.append((key, "member %r stores energy %r but objective(K(member)) = %r" % (m, e, want), {"op_index": si}))
                break
            if key_of(km) not in ev:
                out.append(("NelderMead/member-energy-stale/simplex-reset-on-redecoration" if (solver == "NM" and box is not None and stopped_before(rec, si)) else "%s/member-not-evaluated" % solver, "member %r (K -> %r) has finite energy %r but K(member) was never evaluated" % (m, km, e), {"op_index": si}))
                break
        # never worse than the initial guess
        if E0 is None and rec.cost_calls:
            x_first = rec.cost_calls[0][0]
            if solver in ("NM", "Powell"):
                E0 = raw_cost(spec, x_first) + penalty_at(pen, x_first)
                # the initial guess itself (clipped onto the box when it starts outside, then constrained) is the first point
                # the objective is asked for: inside the closed box it must really be evaluated
                if box is not None and not spec.get("pushing") and spec.get("x0") is not None:
                    xi = K_harness(cfg, clip_box(box, list(spec["x0"])))
                    if in_box(box, xi) and K_harness(cfg, xi) == xi and key_of(xi) != key_of(x_first):
                        out.append(("%s/initial-guess-not-evaluated" % solver, "the (clipped, constrained) initial guess %r lies inside the closed strict ranges but the first cost call was at %r" % (xi, x_first), {"op_index": si}))
        if E0 is not None and is_finite(E0) and bE is not None and not (bE <= E0):
            if True:
                out.append(("%s/best-worse-than-initial" % solver, "bestEnergy %r > energy of the initial guess %r" % (bE, E0), {"op_index": si}))
    return out


def mon_c01_reconfigured(spec, rec):
    """penalty changed between iterations (SetPenalty, or penalty= handed to Step): the reported energy must be the
    user's cost plus the penalty that was ACTIVE when the reported point was evaluated.  A point can have been
    evaluated under several configurations (Powell re-evaluates its current point at the start of every line
    search; DE can meet a vector twice): the energy must match one of the evaluations of exactly that point.
    Only penalty changes are followed (constraints / ranges changed mid-run: C02, C03); Nelder-Mead is left to the
    fixed-configuration monitor (its stored vertices are pre-constraint and it resets its simplex on re-decoration:
    F3, F20)."""
    out = []
    solver = spec["solver"]
    if solver == "NM" or spec["cost"][0] == "vector":
        return out
    if any(op[0] in ("setconstraints", "setranges") or (kw_step(op) and "constraints" in op[1]) for op in spec["ops"]):
        return out
    tl = config_timeline(spec, rec)
    # op index during which each cost call happened
    call_op = []
    start = 0
    for si, sn in enumerate(rec.snaps):
        call_op.extend([si] * (sn["n_cost_calls"] - start)); start = sn["n_cost_calls"]
    for si, sn in enumerate(rec.snaps):
        if sn["n_stepmon"] == 0 or not is_finite(sn["bestEnergy"]):
            continue
        best, bE = sn["bestSolution"], sn["bestEnergy"]
        kb = key_of(best)
        occ = [j for j in range(min(sn["n_cost_calls"], len(call_op))) if key_of(rec.cost_calls[j][0]) == kb]
        if not occ:
            out.append(("%s/best-not-evaluated" % solver, "reported best %r (energy %r) was never passed to the user's cost" % (best, bE), {"op_index": si}))
            continue
        wants = []
        for j in occ:
            pen_j = tl[call_op[j]][0]["penalty"]
            wants.append(raw_cost(spec, best) + penalty_at(pen_j, best))
        if not any(w == bE for w in wants):
            out.append(("%s/best-energy-mismatch/penalty-changed-mid-run" % solver,
                        "bestEnergy %r at best=%r, but cost + the penalty active at its evaluation(s) = %r" % (bE, best, sorted(set(wants))), {"op_index": si}))
            break
    return out


# ---------------------------------------------------------------- C02
def mon_c02(spec, rec):
    out = []
    for j, ((x, y), box) in enumerate(zip(rec.cost_calls, rec.box_at_call)):
        if box is not None and not in_box(box, x):
            nan = any(v != v for v in x)
            key = "%s/evaluated-outside-box" % spec["solver"]
            if nan:
                key = "%s/evaluated-at-nan-after-randomised-clip/one-sided-box" % spec["solver"]
            out.append((key, "cost called at %r outside the strict ranges %r" % (x, box), {"call_index": j}))
            break
    # reported best inside the box when ranges were in force from the first iteration
    if spec.get("ranges") and not any(op[0] == "setranges" for op in spec["ops"]):
        box = (spec["ranges"][0], spec["ranges"][1])
        tl = config_timeline(spec, rec)
        for si, sn in enumerate(rec.snaps):
            if sn["n_stepmon"] == 0 or not is_finite(sn["bestEnergy"]):
                continue
            best = sn["bestSolution"]
            if not in_box(box, best):
                # constraints may have been installed mid-run: any configuration seen so far that moves the vertex
                moved = any(K_harness(tl[j][0], best) != best for j in range(si + 1))
                key = "%s/best-outside-box" % spec["solver"]
                if spec["solver"] == "NM" and moved:
                    key = "NelderMead/best-outside-box/constraints-move-stored-vertex"
                if spec["solver"] == "Powell" and moved and spec.get("pushing"):
                    key = "Powell/best-outside-box/non-idempotent-constraints-applied-twice"
                out.append((key, "reported best %r (finite energy %r) lies outside %r" % (best, sn["bestEnergy"], box), {"op_index": si}))
                break
    return out


# ---------------------------------------------------------------- C03
def mon_c03(spec, rec):
    """every evaluated point satisfies the installed constraints; reported solution too"""
    out = []
    tl = config_timeline(spec, rec)
    rng = spec.get("ranges")
    if rng and rng[3] is False:
        return out            # the randomising clip=False is excluded by the property
    # constraints in force per cost call: use the op during which the call happened
    start = 0
    for si, sn in enumerate(rec.snaps):
        cfg, _ = tl[si]
        term = cfg["constraints"]
        end = sn["n_cost_calls"]
        if term is not None:
            for j in range(start, end):
                x = rec.cost_calls[j][0]
                if dsl.con_apply(term, x) != x:
                    out.append(("%s/evaluated-unconstrained-point" % spec["solver"],
                                "cost called at %r which the constraints %s map to %r" % (x, dsl.con_sexp(term), dsl.con_apply(term, x)),
                                {"call_index": j, "op_index": si}))
                    return out
        start = end
    if spec.get("constraints") is not None and not any(op[0] == "setconstraints" or (kw_step(op) and "constraints" in op[1]) for op in spec["ops"]):
        term = spec["constraints"]
        cfg = {"penalty": spec.get("penalty"), "constraints": term, "ranges": spec.get("ranges")}
        for si, sn in enumerate(rec.snaps):
            if sn["n_stepmon"] == 0 or not is_finite(sn["bestEnergy"]):
                continue
            best = sn["bestSolution"]
            if dsl.con_apply(term, best) != best:
                key = "%s/reported-solution-unconstrained" % spec["solver"]
                if spec["solver"] == "NM":
                    key = "NelderMead/reported-solution-unconstrained/stored-vertex-pre-constraint"
                out.append((key, "reported solution %r violates the constraints %s" % (best, dsl.con_sexp(term)), {"op_index": si}))
                break
            # "... and its reported energy is the energy of that constrained point": nothing but the constraints was ever
            # (re)configured, the reported point satisfies them => energy = cost + penalty AT that point
            if not reconfigured(spec) and not has_nan(rec) and not spec.get("pushing"):
                want = raw_cost(spec, best) + penalty_at(spec.get("penalty"), best)
                if not same_float(want, sn["bestEnergy"]) and not (want == sn["bestEnergy"]):
                    key = "%s/reported-energy-not-of-the-constrained-point" % spec["solver"]
                    if spec["solver"] == "NM" and K_harness(cfg, best) != best:
                        # F3 again: the stored vertex is the pre-image; here it satisfies the user's constraints but the
                        # coupled bounds constraint still moves it, and the energy is that of the moved point
                        key = "NelderMead/reported-energy-not-of-the-constrained-point/stored-vertex-moved-by-coupled-bounds"
                    out.append((key,
                                "reported solution %r satisfies the constraints, but the reported energy %r is not cost + penalty at it (%r)" % (best, sn["bestEnergy"], want), {"op_index": si}))
                    break
    return out


# ---------------------------------------------------------------- C04
def mon_c04(spec, rec, solver_obj=None):
    out = []
    solver = spec["solver"]
    recon = reconfigured(spec)
    em_start = 0
    have_mon = bool(spec.get("evalmon", True))
    performed = 0          # _Step executions (observed as callback + cost activity)
    fin_dups = 0           # Powell: Finalize on a live solver appends a record (F2)
    prev_cb = 0; prev_calls = 0; prev_sm = 0
    for si, sn in enumerate(rec.snaps):
        op = sn["op"][0]
        d_cb = sn["n_cb"] - prev_cb; d_calls = sn["n_cost_calls"] - prev_calls
        if op == "step":
            if d_cb not in (0, 1):
                out.append(("%s/callback-count" % solver, "one Step invoked the callback %d times" % d_cb, {"op_index": si}))
            it = 1 if (d_cb or d_calls) else 0
            if it and spec.get("callback", True) and d_cb != 1:
                out.append(("%s/callback-missed" % solver, "an iteration ran (%d cost calls) without invoking the callback" % d_calls, {"op_index": si}))
            if d_cb == 1 and not same_vec(rec.cb_calls[sn["n_cb"] - 1], sn["bestSolution"]):
                out.append(("%s/callback-arg" % solver, "callback received %r but the best solution is %r" % (rec.cb_calls[sn["n_cb"] - 1], sn["bestSolution"]), {"op_index": si}))
            performed += it
        elif op == "solve":
            performed += d_cb if spec.get("callback", True) else 0
        # evaluation counter: whole life
        if sn["evaluations"] != sn["n_cost_calls"]:
            key = "%s/evaluations-counter" % solver
            if solver == "DE2" and not have_mon:
                # the known class: without an evaluation monitor DE2 counts `len(trialEnergy) - isinf(trialEnergy).sum()`, so
                # a REAL call whose cost (or cost + penalty) is inf is not counted - the counter falls short by exactly the
                # number of such calls; any other discrepancy (e.g. counting candidates the box test never evaluated) is not it
                n_inf = sum(1 for (_, y) in rec.cost_calls[:sn["n_cost_calls"]] if (y == INF if not isinstance(y, list) else any(t == INF for t in y)))
                short = sn["n_cost_calls"] - sn["evaluations"]
                if 0 < short and (short <= n_inf or spec.get("penalty") is not None):
                    key = "DE2/evaluations-counter/null-evalmon-skips-inf-energies"
            elif solver == "DE2" and em_start > 0:
                key = "DE2/evaluations-counter/restarts-with-new-evaluation-monitor"
            out.append((key, "solver.evaluations = %d but the user's cost was called %d times" % (sn["evaluations"], sn["n_cost_calls"]), {"op_index": si}))
            break
        if op == "setevalmon":
            if sn["op"][1] or not have_mon:
                em_start = prev_calls        # new=True, or no monitor before: the fresh monitor starts here
            have_mon = True
        if have_mon:
            if sn["n_evalmon"] != sn["n_cost_calls"] - em_start:
                out.append(("%s/evalmon-length" % solver, "evaluation monitor holds %d records for %d cost calls since it was installed" % (sn["n_evalmon"], sn["n_cost_calls"] - em_start), {"op_index": si}))
                break
        # generations
        if spec.get("callback", True) and not any(o[0] == "setstepmon" and o[1] for o in spec["ops"]):
            want = max(0, performed - 1)
            if want is not None and sn["generations"] != want:
                out.append(("Powell/generations-counter/SetGenerationMonitor-drops-pending-record" if (solver == "Powell" and sn["generations"] < want and any(o[0] == "setstepmon" for o in spec["ops"][:si + 1])) else "Powell/generations-counter/finalize-appends-record" if (solver == "Powell" and sn["generations"] > want and (any(o[0] in ("finalize", "setpenalty", "setconstraints", "setranges", "setevalmon") or kw_step(o) for o in spec["ops"][:si + 1]) or any(q["ret"] is not None or q["op"][0] == "solve" for q in rec.snaps[:si + 1]))) else "%s/generations-counter" % solver, "generations = %d after %d completed iterations (+ initial evaluation)" % (sn["generations"], max(0, performed - 1)), {"op_index": si}))
                break
        # energy history
        eh = sn["energy_history"]
        if eh and not recon:
            for a, b in zip(eh, eh[1:]):
                if b > a:
                    out.append(("%s/energy-history-increases" % solver, "best-energy history goes up: %r -> %r" % (a, b), {"op_index": si}))
                    break
            if sn["bestEnergy"] is not None and not (eh[-1] == sn["bestEnergy"] or (eh[-1] != eh[-1] and sn["bestEnergy"] != sn["bestEnergy"])):
                key = "%s/energy-history-last" % solver
                if solver == "Powell" and any(o[0] == "setstepmon" for o in spec["ops"][:si + 1]):
                    # F2c seen on the history: SetGenerationMonitor reset Powell's energy_history override, so the entry of the
                    # iteration completed last is gone until the next iteration writes its record
                    key = "Powell/energy-history-last/SetGenerationMonitor-drops-pending-record"
                out.append((key, "last history entry %r != reported best energy %r" % (eh[-1], sn["bestEnergy"]), {"op_index": si}))
        # stopped run: step monitor ends in the reported result, one record per generation
        if (op in ("step", "solve") and sn["ret"] is not None or op == "solve") and not any(o[0] == "setranges" for o in spec["ops"]):
            if sn["n_stepmon"]:
                if not (same_vec(sn["stepmon_x"][-1], sn["bestSolution"]) and (sn["stepmon_y"][-1] == sn["bestEnergy"])):
                    out.append(("NelderMead/stepmon-last-not-result/simplex-reset-on-redecoration" if (solver == "NM" and spec.get("ranges") and stopped_before(rec, si)) else ("Powell/stepmon-stale/stop-detected-before-step" if (solver == "Powell" and sn["live"] and op in ("step", "solve") and d_calls == 0) else "%s/stepmon-last-not-result" % solver), "stopped run: last step record (%r, %r) != reported (%r, %r)" % (sn["stepmon_x"][-1], sn["stepmon_y"][-1], sn["bestSolution"], sn["bestEnergy"]), {"op_index": si}))
                if sn["n_stepmon"] != sn["generations"] + 1:
                    out.append(("Powell/stepmon-stale/stop-detected-before-step" if (solver == "Powell" and sn["live"] and op in ("step", "solve") and d_calls == 0) else "%s/stepmon-length" % solver, "stopped run: %d step records for %d generations" % (sn["n_stepmon"], sn["generations"]), {"op_index": si}))
        prev_cb = sn["n_cb"]; prev_calls = sn["n_cost_calls"]; prev_sm = sn["n_stepmon"]
    # `monitor + other` builds a new monitor: len(left + right) = len(left) + len(right), the attached operand keeps its records
    # (the counters derived from it are re-checked by the clauses above after every such op)
    for which, n_left, n_merged, n_other in getattr(rec, "monadd", []):
        if n_left >= 0 and n_merged != n_left + n_other:
            out.append(("%s/monitor-sum-length" % solver, "%s monitor with %d records + a monitor with %d records has %d records" % (which, n_left, n_other, n_merged), {}))
            break
    # evaluation monitor content == calls in order (checked at the end on the live object)
    if solver_obj is not None and have_mon:
        em = solver_obj._evalmon
        if len(em) == len(rec.cost_calls) - em_start:
            ys = em._y if getattr(em, "k", None) is None else em.y          # `y` undoes the monitor's multiplier k
            for j, (x, y) in enumerate(rec.cost_calls[em_start:]):
                ex = [float(v) for v in np.ravel(em._x[j])]
                ey = ys[j]
                ey = [float(v) for v in np.ravel(ey)] if np.ndim(ey) else float(ey)
                if not same_vec(ex, x) or (ey != y and not (ey != ey and y != y)):
                    out.append(("%s/evalmon-content" % solver, "evaluation monitor record %d is (%r, %r) but call %d was (%r, %r)" % (j, ex, ey, j, x, y), {"call_index": j}))
                    break
    return out


# ---------------------------------------------------------------- C05
def current_termination(spec, si):
    """the termination in force at op index si (spec['termination'] or the latest settermination op before it)"""
    t = spec.get("termination")
    for op in spec["ops"][:si]:
        if op[0] == "settermination":
            t = op[1]
        elif op[0] == "step" and len(op) > 1 and op[1].get("termination") is not None:
            t = op[1]["termination"]
    return t


def evl_conditions(t):
    """the (generations, evaluations) pairs of EvaluationLimits conditions whose truth makes the whole condition true
    (the condition itself, or a member of an Or)"""
    if not t:
        return []
    if t[0] == "EVL":
        return [(t[1], t[2])]
    if t[0] == "Or":
        return evl_conditions(t[1]) + evl_conditions(t[2])
    return []


def mon_c05(spec, rec):
    out = []
    solver = spec["solver"]
    new_base = None    # (g0, e0, g, e) after a setlimits(new=True)
    total = spec.get("limits")
    for si, sn in enumerate(rec.snaps):
        op = sn["op"]
        if op[0] == "setlimits":
            if op[3]:
                prev = rec.snaps[si - 1] if si else None
                g0 = prev["generations"] if prev else 0
                # the evaluations made so far: the calls the user's cost really received (C04 ties the solver's counter to
                # them; DE2 re-reads its counter from the evaluation monitor: known findings of C04)
                e0 = (prev["evaluations"] if solver == "DE2" else prev["n_cost_calls"]) if prev else 0
                new_base = (g0, e0, op[1], op[2]); total = None
            else:
                total = (op[1], op[2]); new_base = None
            continue
        if op[0] != "step":
            continue
        pre = sn["pre"]
        ran = (sn["n_cost_calls"] > pre["n_cost_calls"]) or (sn["n_cb"] > pre["n_cb"])
        # the initial evaluation is made once: a solver that has evaluated its start point holds its record (Powell with a
        # generation limit of 0 gets it from Finalize), so a later Step tests the stop conditions instead of starting over
        if pre["n_stepmon"] == 0 and pre["n_cost_calls"] > 0 and ran and not any(o[0] in ("setstepmon",) for o in spec["ops"][:si + 1]):
            out.append(("%s/initial-evaluation-repeated" % solver, "a Step re-ran the initial evaluation: %d cost calls had been made but the step monitor was empty" % pre["n_cost_calls"], {"op_index": si}))
        if pre["n_stepmon"] > 0 and "maxiter" in pre:
            reasons = []
            if pre["maxfun"] is not None and pre["evaluations"] >= pre["maxfun"]:
                reasons.append("evaluations %d >= limit %r" % (pre["evaluations"], pre["maxfun"]))
            if pre["maxiter"] is not None and pre["generations"] >= pre["maxiter"]:
                reasons.append("generations %d >= limit %r" % (pre["generations"], pre["maxiter"]))
            if pre["earlyexit"]:
                reasons.append("exit requested")
            if pre["term_cond"]:
                reasons.append("termination condition holds")
            else:
                # the EvaluationLimits CONDITION by its documented inequality (iterations >= generations or
                # fcalls >= evaluations), evaluated here - not by the code under test
                for g, e in evl_conditions(current_termination(spec, si + 1) if (len(op) > 1 and op[1].get("termination") is not None) else current_termination(spec, si)):
                    if (e is not None and pre["evaluations"] >= e) or (g is not None and pre["generations"] >= g):
                        reasons.append("EvaluationLimits(generations=%r, evaluations=%r) holds at generations=%d, evaluations=%d" % (g, e, pre["generations"], pre["evaluations"]))
            if reasons and ran:
                out.append(("%s/iteration-begun-when-stopped" % solver, "a further iteration ran although " + ", ".join(reasons), {"op_index": si}))
            # the limit bounds the evaluations really MADE (not only the solver's own counter; DE2 re-reads its counter
            # from the evaluation monitor: known findings F21/F21b of C04)
            elif ran and solver != "DE2" and pre["maxfun"] is not None and pre["n_cost_calls"] >= pre["maxfun"]:
                out.append(("%s/iteration-begun-when-stopped/real-evaluations-reached-limit" % solver,
                            "a further iteration ran although the user's cost had been called %d times, evaluation limit %r (solver.evaluations = %d)" % (pre["n_cost_calls"], pre["maxfun"], pre["evaluations"]), {"op_index": si}))
            # the resolved limits must be what was asked for
            if total is not None:
                g, e = total
                if g is not None and pre["maxiter"] != g:
                    out.append(("%s/limit-resolution" % solver, "generation limit %r requested, %r in force" % (g, pre["maxiter"]), {"op_index": si}))
                if e is not None and pre["maxfun"] != e:
                    out.append(("%s/limit-resolution" % solver, "evaluation limit %r requested, %r in force" % (e, pre["maxfun"]), {"op_index": si}))
            if new_base is not None and new_base[2] is None and new_base[3] is not None and pre["maxiter"] is not None:
                # new=True without a generation limit: the solver default (N * nPop * iterscale), counted from the call
                npop_ = max(spec.get("npop", 1), spec["dim"], 4) if solver in ("DE", "DE2") else 1
                dflt = spec["dim"] * npop_ * {"DE": 10, "DE2": 10, "NM": 200, "Powell": 1000}[solver]
                # the default is resolved by the first stop test after the call (before or after an iteration), from the
                # generation count at THAT moment: any count observed between the call and now is a legitimate base
                j0 = max(j for j in range(si) if rec.snaps[j]["op"][0] == "setlimits")
                bases = {new_base[0], pre["generations"]} | {rec.snaps[j]["generations"] for j in range(j0, si)}
                if (pre["maxiter"] - dflt) not in bases and not any(o[0] == "setstepmon" for o in spec["ops"][:si + 1]):
                    out.append(("%s/new-default-limit-resolution" % solver, "new=True without a generation limit: limit in force %r is not the default %d counted from any generation count since the call %r" % (pre["maxiter"], dflt, sorted(bases)), {"op_index": si}))
            if new_base is not None:
                g0, e0, g, e = new_base[:4]
                if g is not None and pre["maxiter"] != g0 + g:
                    out.append(("%s/new-limit-resolution" % solver, "new=True generation limit %r set at generation %d, but %r in force" % (g, g0, pre["maxiter"]), {"op_index": si}))
                if e is not None and pre["maxfun"] != e0 + e:
                    out.append(("%s/new-limit-resolution" % solver, "new=True evaluation limit %r set at %d evaluations, but %r in force" % (e, e0, pre["maxfun"]), {"op_index": si}))
        # totals
        if total is not None and total[0] is not None and solver != "Powell" and not any(o[0] == "setlimits" for o in spec["ops"]):
            if sn["generations"] > total[0] and sn["generations"] > 0 and not (total[0] == 0):
                out.append(("%s/generations-exceed-limit" % solver, "generations %d > limit %d" % (sn["generations"], total[0]), {"op_index": si}))
        # message truthfulness
        msg = sn["ret"]
        if msg:
            if msg.startswith("EvaluationLimits with {'generations'"):
                # the termination CONDITION EvaluationLimits (its doc lists generations first): true by its documented inequality?
                if not any((e is not None and sn["evaluations"] >= e) or (g is not None and sn["generations"] >= g)
                           for g, e in evl_conditions(current_termination(spec, si + 1))):
                    out.append(("%s/stop-message-false" % solver, "stop message %r but evaluations=%d generations=%d" % (msg, sn["evaluations"], sn["generations"]), {"op_index": si}))
            elif msg.startswith("EvaluationLimits"):
                evl_ok = any((e is not None and sn["evaluations"] >= e) or (g is not None and sn["generations"] >= g)
                             for g, e in evl_conditions(current_termination(spec, si + 1)))      # the CONDITION of that name
                if not evl_ok and not ((sn["maxfun"] is not None and sn["evaluations"] >= sn["maxfun"]) or (sn["maxiter"] is not None and sn["generations"] >= sn["maxiter"])):
                    out.append(("%s/stop-message-false" % solver, "stop message %r but evaluations=%d generations=%d" % (msg, sn["evaluations"], sn["generations"]), {"op_index": si}))
            elif msg.startswith("SolverInterrupt"):
                if not sn["earlyexit"]:
                    out.append(("%s/stop-message-false" % solver, "stop message %r but no exit was requested" % (msg,), {"op_index": si}))
            else:
                if not sn.get("post_term_cond"):
                    out.append(("%s/stop-message-false" % solver, "stop message %r but the termination condition does not hold" % (msg,), {"op_index": si}))
    return out
