"""C02 - see DESIGN.md section 5; shared machinery in solvercheck.py"""
import solvercheck, framework
PID = "C02"
MODULE = "MysticVerif.Props.C02Solve"
THEOREMS = ["MysticVerif.C02.evalB_in_box", "MysticVerif.C02.de_evaluations_in_box", "MysticVerif.C02.de_best_in_box", "MysticVerif.C02.nm_evaluations_in_box", "MysticVerif.C02.nm_best_in_box_of_fixed", "MysticVerif.C02.clip1_in_box", "MysticVerif.C02.clip1_id", "MysticVerif.C02.pw_evaluations_in_box", "MysticVerif.C02.pw_best_in_box", "MysticVerif.C02.uniform_in_range", "MysticVerif.C02.random_initial_points_in_limits", "MysticVerif.C02.clipGuess_in_box", "MysticVerif.C02.clipGuess_id_inside", "MysticVerif.C02.clipCoord_in_range", "MysticVerif.C02.solve_de_in_box", "MysticVerif.C02.solve_nm_in_box", "MysticVerif.C02.solve_pw_in_box", "MysticVerif.Reconfig.reconfigured_evaluations_segmented", "MysticVerif.Reconfig.reconfigured_evaluations_in_box", "MysticVerif.Reconfig.nm_reconfigured_evaluations_segmented", "MysticVerif.Reconfig.nm_reconfigured_evaluations_in_box"]


def run_shard(pid, seed, shard, ncases, tier, extra):
    return solvercheck.run_shard(PID, seed, shard, ncases, tier, extra)


def main(tier, seed):
    return solvercheck.main(PID, MODULE, THEOREMS, tier, seed, RULE_EXTRA, TRUSTED_EXTRA)


RULE_EXTRA = 'extra stream: SetRandomInitialPoints / SetInitialPoints stay within their limits; tight x clip grid incl. the randomising clip=False (monitor only).'
TRUSTED_EXTRA = ['clip=False (random re-draws): monitor only', "Powell: the Brent line search is an oracle of the model (which points it evaluates, which one it returns), recorded from the real run; the contract 'never worse than the start' (LsMono) is checked on every recorded search; everything else of PowellDirectionalSolver._Step is computed by the model and replayed bit for bit (histogram model:pw, pw-iterations, pw-extrapolation-searches)"]


def replay(path):
    return solvercheck.replay(PID, path)
