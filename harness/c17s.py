"""C17, call SEQUENCES on one combinator object (imported by c17.py; stream `seq`).

constraints.and_/or_/not_ return a reusable function (a solver calls it on every candidate).  The property speaks
about every call, so ONE object is built and called 2-7 times; every call is checked on its own input:
  * correspondence: Model/CombinatorsSeq (`sand / sor / snot`): the global member-call counter is threaded through
    the calls, local call j of every call of the object must go to member j % n and receive the vector the model
    hands it (recorded oracle with member indices); for pure members additionally the model evaluates the members
    itself (`(members ..)` form), i.e. the k-th answer must be the answer of a FRESH object on the k-th input;
  * monitor: the property's clause on the real result of every call (members re-applied to the returned vector;
    a member that is itself a combinator object is judged by a freshly built copy), exit paths, same input => same
    answer (when no random draw was involved), argument / earlier results left intact (the last three are what the
    model says about the object, not clauses of the property: reported as broken ties).
Member kinds: pure DSL terms (incl. `x_i >= x_j + a` systems whose members interact, so that a call stops the
cycling phase mid-round and a later call needs it again), the same rewriting their argument in place, stateful
python members whose state lives across the calls of the object, members that are combinator objects themselves
(re-used by every outer member call), one callable used at two positions / in two objects.
Input objects: fresh lists, numpy arrays, one list object refilled in place, an earlier result fed back."""
import random as _random
import common
from common import fl, f2b, same_vec, gfloat, dyadic, parse_reply, floats_of
import dsl
from framework import Finding


# ------------------------------------------------------------------ recorder (draws go to the innermost running call)
class Rec:
    def __init__(self, rng):
        self.rng = rng
        self.stack = []
        self.total = 0

    def __enter__(self):
        self._ri, self._rr = _random.randint, _random.random
        rec = self

        def randint(a, b):
            v = rec.rng.randint(a, b)
            rec.total += 1
            if rec.stack:
                fr = rec.stack[-1]; fr["draws"].append(("i", v, fr["calls"]))
            return v

        def rand():
            k = rec.rng.random()
            v = 0.0 if k < 0.05 else (1.0 if k < 0.10 else rec.rng.random())
            rec.total += 1
            if rec.stack:
                fr = rec.stack[-1]; fr["draws"].append(("u", v, fr["calls"]))
            return v
        _random.randint, _random.random = randint, rand
        return self

    def __exit__(self, *a):
        _random.randint, _random.random = self._ri, self._rr


def floats(v):
    return [float(t) for t in v]


class Obj:
    """one real combinator object + the record of all its calls"""

    def __init__(self, spec, rec, rng, shared=None):
        from mystic import constraints as C
        import c17x
        self.spec = spec
        self.kind = spec["kind"]; self.n = len(spec["members"])
        self.default_cap = spec["cap"] is None      # `maxiter` not given: the documented default 100
        self.cap = 100 if self.default_cap else spec["cap"]
        self.rec = rec
        self.frames = []; self.stack = []; self.g = 0; self.recs = []
        self.children = []
        fns = []
        for i, m in enumerate(spec["members"]):
            fns.append(self._wrap(i, self._inner(m, rng, shared)))
        onexit = lambda v: (self.stack[-1]["fired"].append("exit"), v)[1]
        onfail = lambda v: (self.stack[-1]["fired"].append("fail"), v)[1]
        kw = dict(onexit=onexit, onfail=onfail)
        if not self.default_cap:
            kw["maxiter"] = self.cap
        if self.kind == "and":
            self.comb = C.and_(*fns, **kw)
        elif self.kind == "or":
            self.comb = C.or_(*fns, **kw)
        else:
            self.comb = C.not_(fns[0], **kw)

    def _inner(self, m, rng, shared):
        import c17x
        if m[0] == "dsl":
            term, inplace = m[1], m[2]

            def f(v):
                y = dsl.con_apply(term, v)
                if inplace:
                    v[:] = y
                    return v
                return y
            return f
        if m[0] == "state":
            # one python closure with its own state; `shared` lets two positions / two objects use the SAME closure
            key = id(m)
            if shared is not None and key in shared:
                return shared[key]
            inner = m[1]([0], rng)
            f = lambda v: inner(floats(v))
            if shared is not None:
                shared[key] = f
            return f
        if m[0] == "child":
            child = Obj(m[1], self.rec, rng, shared)
            self.children.append(child)
            return lambda v: child.call(v)
        raise AssertionError(m)

    def _wrap(self, i, inner):
        import c17x

        def f(v):
            fr = self.stack[-1]
            fr["calls"] += 1
            inp = floats(v)
            try:
                y = inner(v)
            except Exception as e:      # noqa
                self.recs.append((i, inp, c17x.classify(e), None))
                raise
            self.recs.append((i, inp, "ret", floats(y)))
            return y
        return f

    def call(self, xobj):
        fr = {"x": floats(xobj), "fired": [], "calls": 0, "draws": [], "exc": None, "y": None, "g0": len(self.recs),
              "t0": self.rec.total}
        self.frames.append(fr); self.stack.append(fr); self.rec.stack.append(fr)
        try:
            y = self.comb(xobj)
            fr["y"] = floats(y)
            return y
        except Exception as e:          # noqa - a member's exception let through
            fr["exc"] = e
            raise
        finally:
            fr["anydraws"] = self.rec.total - fr["t0"]
            fr["recs"] = self.recs[fr["g0"]:]
            self.rec.stack.pop(); self.stack.pop()

    # ---- model requests
    def pure(self):
        return all(m[0] == "dsl" for m in self.spec["members"])

    def lines(self):
        import c17x
        calls = []
        for fr in self.frames:
            ds, ng = c17x.draw_groups(fr["draws"], self.kind)
            fr["ngroups"] = ng
            calls.append("(%s %s)" % (fl(fr["x"]), ds))
        cs = "(" + " ".join(calls) + ")"
        rs = " ".join("(%d %s %s)" % (i, fl(inp), ("(ret %s)" % fl(y)) if o == "ret" else o) for i, inp, o, y in self.recs)
        head = "C17 snot (cap %d)" % self.cap if self.kind == "not" else "C17 s%s (n %d) (cap %d)" % (self.kind, self.n, self.cap * self.n)
        out = [("oracle", "%s (recs (%s)) (calls %s)" % (head, rs, cs))]
        if self.pure():
            ms = " ".join("(g none %s)" % dsl.con_sexp(m[1]) for m in self.spec["members"])
            out.append(("pure", "%s (members (%s)) (calls %s)" % (head, ms, cs)))
        return out

    def describe(self):
        return {"kind": self.kind, "maxiter": "default (100)" if self.default_cap else self.cap, "members": [describe_member(m) for m in self.spec["members"]]}


def describe_member(m):
    if m[0] == "dsl":
        return dsl.con_sexp(m[1]) + (" [in place]" if m[2] else "")
    if m[0] == "state":
        return "stateful " + m[2]
    return {"object": {"kind": m[1]["kind"], "maxiter": m[1]["cap"], "members": [describe_member(t) for t in m[1]["members"]]}}


# ------------------------------------------------------------------ generators
def gen_system_member(rng, dim):
    """idempotent members that READ one coordinate and WRITE another (difference constraints x_i >= x_j + a,
    x_i <= x_j + a, ties) or bound one coordinate: members of one system interact, which is what sends and_ into
    the cycling phase and lets it stop after any number of steps"""
    i = rng.randrange(dim)
    k = rng.random()
    a = rng.choice([0.0, 0.0, 1.0, -1.0, 0.5, dyadic(rng, -2, 2, 2)])
    if dim > 1 and k < 0.45:
        j = rng.choice([t for t in range(dim) if t != i])
        op = rng.choice(["max", "min"])
        return ("pin", i, (op, ("x", i), ("+", ("x", j), ("c", a))))
    if dim > 1 and k < 0.55:
        j = rng.choice([t for t in range(dim) if t != i])
        return ("tie", i, j, a)
    if k < 0.85:
        op = rng.choice(["max", "max", "min"])
        return ("pin", i, (op, ("x", i), ("c", rng.choice([0.0, 1.0, -1.0, 2.0, dyadic(rng, -2, 2, 2)]))))
    if k < 0.93:
        lo = dyadic(rng, -2, 2, 2)
        return ("clamp", i, lo, lo + abs(dyadic(rng, 0, 3, 2)))
    return ("rint", i)


def gen_members(rng, dim, n, mode):
    import c17, c17x
    out = []
    for _ in range(n):
        if mode == "sys":
            out.append(("dsl", gen_system_member(rng, dim), False))
        elif mode == "sys-inplace":
            out.append(("dsl", gen_system_member(rng, dim), rng.random() < 0.7))
        elif mode == "dsl":
            out.append(("dsl", c17.gen_member(rng, dim, rng.choice(["idem", "any"])), rng.random() < 0.3))
        elif mode == "stateful":
            if rng.random() < 0.65:
                fac, d = c17x.gen_stateful(rng, dim)
                out.append(("state", fac, d))
            else:
                out.append(("dsl", gen_system_member(rng, dim), rng.random() < 0.3))
        else:
            raise AssertionError(mode)
    if mode == "stateful" and n > 1 and rng.random() < 0.25:
        st = [m for m in out if m[0] == "state"]
        if st:
            out[rng.randrange(n)] = st[0]          # the SAME closure at two positions
    return out


def gen_spec(rng, dim, depth=1):
    kind = rng.choice(["and", "and", "and", "or", "or", "not"])
    n = 1 if kind == "not" else rng.choice([1, 2, 2, 2, 3, 3, 4])
    mode = rng.choice(["sys", "sys", "sys", "sys-inplace", "dsl", "stateful", "nested"] if depth > 0 else ["sys", "sys", "sys-inplace", "dsl"])
    cap = rng.choice([1, 2, 3, 5, 8, 13, 20]) if depth > 0 else rng.choice([1, 2, 3, 5])
    if mode == "nested":
        members = []
        for _ in range(n):
            if rng.random() < 0.6:
                members.append(("child", gen_spec(rng, dim, depth - 1)))
            else:
                members.append(("dsl", gen_system_member(rng, dim), False))
        if not any(m[0] == "child" for m in members):
            members[rng.randrange(n)] = ("child", gen_spec(rng, dim, depth - 1))
        if n > 1 and rng.random() < 0.3:
            ch = [m for m in members if m[0] == "child"][0]
            members[rng.randrange(n)] = ("child", ch[1])    # an equal object at a second position (own instance)
        cap = rng.choice([1, 2, 3, 5, 8])
    else:
        members = gen_members(rng, dim, n, mode)
        if depth > 0 and rng.random() < 0.08:
            cap = None                                      # default maxiter
    return {"kind": kind, "cap": cap, "members": members, "mode": mode}


def gen_inputs(rng, dim, spec):
    import c17
    k = rng.choice([2, 3, 3, 4, 4, 5, 6, 7])
    grid = rng.random() < 0.6        # small integer / half-integer points: members of a system disagree on many of them
    xs = []
    for _ in range(k):
        r = rng.random()
        if xs and r < 0.2:
            xs.append(("repeat", list(rng.choice([t for t in xs if t[1] is not None])[1])))
        elif xs and r < 0.3:
            xs.append(("feedback", None))
        elif grid:
            xs.append(("new", [rng.choice([-2.0, -1.0, 0.0, 0.0, 0.5, 1.0, 2.0, 3.0, 5.0]) for _ in range(dim)]))
        else:
            xs.append(("new", c17.gen_point(rng, dim)))
    return xs


# ------------------------------------------------------------------ one case
def seq_case(rng, hist):
    import numpy as np
    dim = rng.randint(1, 3)
    spec = gen_spec(rng, dim, 1)
    inputs = gen_inputs(rng, dim, spec)
    carrier = rng.choice(["list", "list", "array", "buffer"])
    if spec["kind"] == "not" and carrier == "array":
        carrier = "list"      # not_ compares `constraint(x[:]) != x`: ndarrays are outside its domain (see assumptions)
    rec = Rec(rng)
    shared = {}
    top = []
    with rec:
        obj = Obj(spec, rec, rng, shared)
        buf = [0.0] * dim
        last = None
        kept = []
        for how, x in inputs:
            if how == "feedback":
                x = list(last) if last is not None and len(last) == dim else [0.0] * dim
            if carrier == "array":
                arg = np.array(x, dtype=float)
            elif carrier == "buffer":
                buf[:] = x; arg = buf
            else:
                arg = list(x)
            note = {"how": how, "modified": None}
            try:
                y = obj.call(arg)
                last = floats(y)
                kept.append((y, floats(y), len(obj.frames) - 1))
            except Exception:       # noqa - recorded in the frame
                pass
            if floats(arg) != floats(x):
                note["modified"] = floats(arg)
            top.append(note)
        changed = [k for yobj, ycopy, k in kept if floats(yobj) != ycopy]
    objs = [obj] + obj.children
    lines = []
    # NaN entries: python compares list items by identity before equality, which a value model cannot express (and `==`
    # cannot judge): outside the domain of model and monitor alike (see assumptions) - such cases are counted and dropped
    def _nan(v):
        return v is not None and any(t != t for t in v)
    if any(_nan(fr["x"]) or _nan(fr["y"]) for o in objs for fr in o.frames) or \
            any(_nan(inp) or _nan(out) for o in objs for i_, inp, oc, out in o.recs):
        return {"stream": "seq", "nan": True, "lines": [], "objs": objs, "spec": spec, "carrier": carrier}
    for oi, o in enumerate(objs):
        for form, ln in o.lines():
            lines.append((oi, form, ln))
    return {"stream": "seq", "spec": spec, "objs": objs, "top": top, "changed": changed, "carrier": carrier,
            "lines": lines, "dim": dim}


# ------------------------------------------------------------------ reference behaviour of a member (for the monitor)
def ref_member(m, v):
    """what member m does on v, judged independently of the object under test: ('ret', y) / (class, None) / None"""
    import c17x
    if m[0] == "dsl":
        return c17x.outcome(None, m[1], v)
    if m[0] == "child":
        # a FRESH object of the same description; undetermined when a random draw is involved or a grandchild is stateful
        rec = Rec(_random.Random(0))
        with rec:
            try:
                o = Obj(m[1], rec, _random.Random(0), {})
                if not all(t[0] == "dsl" for t in m[1]["members"]):
                    return None
                y = o.call(list(v))
            except Exception as e:      # noqa
                return None if rec.total else (c17x.classify(e), None)
        if rec.total:
            return None
        return ("ret", floats(y))
    return None


def frame_path(fr):
    if fr["exc"] is not None:
        return "raised"
    return fr["fired"][0] if len(fr["fired"]) == 1 else repr(fr["fired"])


def seq_check(cs, replies, findings, hist):
    """replies: one per cs['lines'] entry.  returns True when the case is non-trivial (some later call of an
    object went past its first pass)"""
    if cs.get("nan"):
        hist["seq:dropped-nan"] = hist.get("seq:dropped-nan", 0) + 1
        return False
    nontrivial = False
    top_obj = cs["objs"][0]
    base = {"stream": "seq", "object": top_obj.describe(), "carrier": cs["carrier"],
            "calls": [{"x": fr["x"], "path": frame_path(fr), "y": fr["y"], "member_calls": fr["calls"],
                       "replacements": fr.get("ngroups"), "exc": repr(fr["exc"]) if fr["exc"] is not None else None}
                      for fr in top_obj.frames]}
    model = {}
    for (oi, form, ln), rep in zip(cs["lines"], replies):
        o = cs["objs"][oi]
        r = parse_reply(rep)
        case = dict(base, request=ln, model=rep, which=("top object" if oi == 0 else "member object %d" % oi), form=form)
        if oi:
            case["member_object"] = o.describe()
            case["member_object_calls"] = [{"x": fr["x"], "path": frame_path(fr), "y": fr["y"], "member_calls": fr["calls"]} for fr in o.frames]
        if r[0] != "ok" or len(r[1].get("r", [])) != len(o.frames):
            findings.append(Finding("correspondence", "seq/%s_/model-%s" % (o.kind, r[0]), "model replied %r" % (rep[:300],), case))
            continue
        res = r[1]["r"]
        agreed = []
        for k, (fr, item) in enumerate(zip(o.frames, res)):
            mpath = {"success": "exit", "fail": "fail", "raised": "raised", "stuck": "stuck"}[item[0]]
            ipath = frame_path(fr)
            diffs = []
            if mpath != ipath:
                diffs.append("path model=%s impl=%s" % (mpath, ipath))
            my = floats_of(item[1]) if item[0] in ("success", "fail") else None
            if my is not None and fr["y"] is not None and not same_vec(my, fr["y"]):
                diffs.append("result model=%r impl=%r" % (my, fr["y"]))
            mcalls, mdraws = int(item[-2]), int(item[-1])
            if mcalls != fr["calls"]:
                diffs.append("member calls model=%d impl=%d" % (mcalls, fr["calls"]))
            if mdraws != fr["ngroups"]:
                diffs.append("random replacements model=%d impl=%d" % (mdraws, fr["ngroups"]))
            if diffs:
                findings.append(Finding("correspondence", "seq/%s_/%s/diverges/%s" % (o.kind, form, "first-call" if k == 0 else "later-call"),
                                        "call #%d of one %s_ object on %r: %s" % (k, o.kind, fr["x"], "; ".join(diffs)), case))
                break           # the global call counter of the model is off from here on
            agreed.append(item)
        if form == "oracle":
            model[oi] = agreed
    # ---- monitors: the property on the real results of every call of every object
    for oi, o in enumerate(cs["objs"]):
        n = o.n
        members = o.spec["members"]
        pure = o.pure()
        tagmode = o.spec["mode"] if oi == 0 else "member-object"
        hist["seq:%s:%s" % (o.kind, tagmode)] = hist.get("seq:%s:%s" % (o.kind, tagmode), 0) + 1
        case = dict(base, which=("top object" if oi == 0 else "member object %d" % oi))
        if oi:
            case["member_object"] = o.describe()
            case["member_object_calls"] = [{"x": fr["x"], "path": frame_path(fr), "y": fr["y"], "member_calls": fr["calls"]} for fr in o.frames]
        seen = {}
        midround = False
        for k, fr in enumerate(o.frames):
            where = "first-call" if k == 0 else "later-call"
            path = frame_path(fr)
            phase = "first-pass" if fr["calls"] <= max(n, 1) else ("randomised" if fr["draws"] else "cycled")
            if o.kind == "not":
                phase = "first-pass" if fr["calls"] <= 1 else "randomised"
            tag = "seq-call:%s:%s:%s:%s" % (o.kind, path if path in ("exit", "fail", "raised") else "?", phase, where)
            hist[tag] = hist.get(tag, 0) + 1
            if k > 0 and phase != "first-pass":
                nontrivial = True
                if midround:
                    hist["seq:%s:cycling-again-after-midround-stop" % o.kind] = hist.get("seq:%s:cycling-again-after-midround-stop" % o.kind, 0) + 1
            if o.kind != "not" and n > 1 and fr["calls"] > n and fr["calls"] % n:
                midround = True
            mon = []
            if fr["exc"] is None and len(fr["fired"]) != 1:
                mon.append(("seq/%s_/exit-paths" % o.kind, "call #%d: onexit/onfail fired %r (exactly one of them must fire exactly once per call)" % (k, fr["fired"])))
            if fr["exc"] is not None and fr["fired"]:
                mon.append(("seq/%s_/raised-after-exit-path" % o.kind, "call #%d raised %r after firing %r" % (k, fr["exc"], fr["fired"])))
            # bounds per call
            capn = o.cap if o.kind == "not" else o.cap * n
            if fr["calls"] > max(n if o.kind != "not" else 0, capn):
                mon.append(("seq/calls-exceed-bound", "call #%d of one %s_ object made %d member calls, bound %d" % (k, o.kind, fr["calls"], max(n, capn))))
            if path == "exit":
                y = fr["y"]
                refs = [ref_member(m, y) for m in members]
                fixed = [None if rf is None else (rf[0] == "ret" and rf[1] == y) for rf in refs]
                und = any(f is None for f in fixed)
                hist["seq-mon:%s:%s" % (o.kind, "undetermined" if und else "judged")] = hist.get("seq-mon:%s:%s" % (o.kind, "undetermined" if und else "judged"), 0) + 1
                if o.kind == "and":
                    moved = [i for i, f in enumerate(fixed) if f is False]
                    if moved:
                        key = "seq/and_/success-not-fixed/" + where
                        # the two known mechanisms of the unchanged code (F7 / F7b) are recognised only when the model,
                        # i.e. a fresh object on this very input, returns the same answer for the same reason
                        ag = model.get(oi, [])
                        if k < len(ag) and ag[k][0] == "success":
                            t = int(ag[k][2]); links = int(ag[k][3])
                            if len(moved) == 1 and moved[0] == (t + 1) % n and links >= n - 1:
                                key = "and_/success-not-fixed/unverified-member-not-idempotent"
                            elif links < n - 1:
                                key = "and_/success-not-fixed/random-replacement-collision"
                        mon.append((key, "call #%d of ONE and_ object, input %r: returned %r through onexit but member(s) %r change it / raise on it"
                                    % (k, fr["x"], y, moved)))
                elif o.kind == "or":
                    if n > 0 and not und and not any(fixed):
                        mon.append(("seq/or_/success-not-fixed/" + where, "call #%d of ONE or_ object, input %r: returned %r through onexit but "
                                    "every member changes it / raises on it" % (k, fr["x"], y)))
                else:
                    if fixed[0] is not None and not (refs[0][0] == "ret" and refs[0][1] != y):
                        mon.append(("seq/not_/success-not-moved/" + where, "call #%d of ONE not_ object, input %r: returned %r through onexit but "
                                    "the member does not change it (%r)" % (k, fr["x"], y, refs[0])))
                # oracle form (any members): the calls the theorem names, on the RECORDED calls of this call
                ag = model.get(oi, [])
                if k < len(ag) and ag[k][0] == "success" and fr["recs"]:
                    t = int(ag[k][2]); links = int(ag[k][3])
                    if o.kind == "and" and n > 0:
                        for m_ in range(min(links, n - 1)):
                            if not (0 <= t - m_ < len(fr["recs"])):
                                break
                            i_, inp, oc, out = fr["recs"][t - m_]
                            if not (oc == "ret" and inp == y and out == y and i_ == (t - m_) % n):
                                mon.append(("seq/and_/oracle-link-broken", "call #%d success %r at step %d: member call %d went to member %d: %r -> %r (%s)"
                                            % (k, y, t, t - m_, i_, inp, out, oc)))
                                break
                    elif o.kind == "or" and n > 0:
                        if not any(oc == "ret" and inp == y and out == y for i_, inp, oc, out in fr["recs"]):
                            mon.append(("seq/or_/oracle-no-fixing-call", "call #%d success %r but no member call of this call returned it unchanged" % (k, y)))
                    elif o.kind == "not":
                        i_, inp, oc, out = fr["recs"][-1]
                        if not (oc == "ret" and inp == y and out != y):
                            mon.append(("seq/not_/oracle-not-moved", "call #%d success %r but its last member call was %r -> %r (%s)" % (k, y, inp, out, oc)))
            # same input => same answer (pure members, no random draw anywhere below this call)
            if pure and not fr["anydraws"] and fr["exc"] is None:
                key_ = tuple(f2b(t) for t in fr["x"])
                ans = (path, tuple(f2b(t) for t in fr["y"]), fr["calls"])
                if key_ in seen and seen[key_][1] != ans:
                    mon.append(("seq/%s_/same-input-different-answer" % o.kind, "one %s_ object over pure members answered input %r with %r in call #%d "
                                "and with %r in call #%d (no random draw in either)" % (o.kind, fr["x"], seen[key_][1][:1] + (floats_of(seen[key_][1][1]),), seen[key_][0],
                                                                                      ans[:1] + (fr["y"],), k)))
                    hist["seq-mon:same-input-compared"] = hist.get("seq-mon:same-input-compared", 0)
                elif key_ in seen:
                    hist["seq-mon:same-input-compared"] = hist.get("seq-mon:same-input-compared", 0) + 1
                seen.setdefault(key_, (k, ans))
            for key, what in mon:
                # determinism of the object is what the MODEL says (the k-th answer is a fresh object's answer), not a clause
                # of the property: reported as a broken tie, not as a failing input
                kind_ = "correspondence" if key.endswith("same-input-different-answer") else "monitor"
                findings.append(Finding(kind_, key, what, dict(case, call=k)))
    for k, note in enumerate(cs["top"]):
        if note["modified"] is not None:
            findings.append(Finding("correspondence", "seq/argument-modified", "call #%d: the combinator object changed its argument to %r" % (k, note["modified"]),
                                    dict(base, call=k)))
    if cs["changed"]:
        findings.append(Finding("correspondence", "seq/earlier-result-changed", "the vectors returned by calls %r of one object were changed by later calls" % (cs["changed"],), base))
    hist["seq-carrier:%s" % cs["carrier"]] = hist.get("seq-carrier:%s" % cs["carrier"], 0) + 1
    return nontrivial
