"""C17 - combinators claim success only at a fixed point; couplers compose as documented.
Correspondence: real constraints.and_/or_/not_ vs lean Model/Combinators (bit-exact, draws recorded).
Monitor: the property itself on the implementation's results."""
import sys, time, random as _random
import common
from common import case_rng, fl, f2b, same_vec, gfloat, dyadic, parse_reply, floats_of
import dsl, framework, leandrv
from framework import Finding

PID = "C17"
MODULE = "MysticVerif.Props.C17"
THEOREMS = [
    "MysticVerif.C17.and_success_links",
    "MysticVerif.C17.and_success_fixed_all_but_one",
    "MysticVerif.C17.and_success_fixed",
    "MysticVerif.C17.and_not_fixed_witness",
    "MysticVerif.C17.and_collision_witness",
    "MysticVerif.C17.and_calls_bounded",
    "MysticVerif.C17.or_success_fixed",
    "MysticVerif.C17.not_success_moved",
    "MysticVerif.C17.not_calls_bounded",
    "MysticVerif.C17.inner_spec",
    "MysticVerif.C17.outer_spec",
    "MysticVerif.C17.additive_spec",
    "MysticVerif.C17.pen_and_zero",
    "MysticVerif.C17.pen_or_zero",
    "MysticVerif.C17.pen_not_interior_ineq",
    "MysticVerif.C17.pen_not_interior_eq",
    # extended model (every except clause, members as call-indexed oracles): Props/C17/Ext.lean
    "MysticVerif.C17X.and_success_links_oracle",
    "MysticVerif.C17X.and_success_links",
    "MysticVerif.C17X.and_success_fixed_all_but_one",
    "MysticVerif.C17X.and_success_fixed",
    "MysticVerif.C17X.and_not_fixed_witness",
    "MysticVerif.C17X.and_collision_witness",
    "MysticVerif.C17X.and_calls_bounded",
    "MysticVerif.C17X.and_draws_bounded",
    "MysticVerif.C17X.or_success_fixed_oracle",
    "MysticVerif.C17X.or_success_fixed",
    "MysticVerif.C17X.or_calls_bounded",
    "MysticVerif.C17X.or_swallow_classes_differ",
    "MysticVerif.C17X.not_success_moved_oracle",
    "MysticVerif.C17X.not_success_moved",
    "MysticVerif.C17X.not_calls_bounded",
    # the extended model restricted to deterministic, non-propagating members IS Model/Combinators
    "MysticVerif.CombX.and_agree",
    "MysticVerif.CombX.or_agree",
    "MysticVerif.CombX.not_agree",
    # penalty combinators on the penalty-object model of C15 (Model/PenaltyTree): Props/C17/Pen.lean
    "MysticVerif.C17.pen_tree_and_zero",
    "MysticVerif.C17.pen_tree_and_raise",
    "MysticVerif.C17.pen_tree_or_zero",
    "MysticVerif.C17.pen_tree_not_ineq",
    "MysticVerif.C17.pen_tree_not_eq",
    # couplers with argument bundles, proxies, with_constraint: Props/C17/Cpl.lean
    "MysticVerif.C17.inner_args_spec",
    "MysticVerif.C17.outer_args_spec",
    "MysticVerif.C17.additive_args_spec",
    "MysticVerif.C17.proxy_spec",
    "MysticVerif.C17.with_constraint_spec",
    # ONE combinator object called several times (Model/CombinatorsSeq): Props/C17/Seq.lean
    "MysticVerif.C17S.seqRun_get",
    "MysticVerif.C17S.offset_succ",
    "MysticVerif.C17S.seq_and_success_links_oracle",
    "MysticVerif.C17S.seq_and_fresh",
    "MysticVerif.C17S.seq_and_get_fresh",
    "MysticVerif.C17S.seq_and_success_fixed_all_but_one",
    "MysticVerif.C17S.seq_and_success_fixed",
    "MysticVerif.C17S.seq_and_calls_bounded",
    "MysticVerif.C17S.seq_or_success_fixed_oracle",
    "MysticVerif.C17S.seq_or_fresh",
    "MysticVerif.C17S.seq_or_success_fixed",
    "MysticVerif.C17S.seq_not_success_moved_oracle",
    "MysticVerif.C17S.seq_not_fresh",
    "MysticVerif.C17S.seq_not_success_moved",
    "MysticVerif.C17S.seq_restart_needed_witness",
]


# ------------------------------------------------------------------ generators
def gen_member(rng, dim, flavour):
    """flavour: 'idem' (idempotent maps), 'any' (also cyclic / non-idempotent / zero-dividing)"""
    i = rng.randrange(dim)
    k = rng.random()
    if flavour == "idem":
        choices = ["clamp", "pinc", "rint", "tie", "id", "pinexpr"]
    else:
        choices = ["clamp", "pinc", "rint", "tie", "id", "pinexpr", "addUntil", "rot", "swap", "pindiv", "pinself"]
    kind = rng.choice(choices)
    if kind == "clamp":
        lo = dyadic(rng, -4, 4, 4); hi = lo + abs(dyadic(rng, 0, 4, 4))
        return ("clamp", i, lo, hi)
    if kind == "pinc":
        return ("pin", i, ("c", dyadic(rng, -3, 3, 2)))
    if kind == "rint":
        return ("rint", i)
    if kind == "tie":
        j = rng.randrange(dim)
        if j == i:
            return ("id",)
        return ("tie", i, j, rng.choice([0.0, 0.0, 1.0, -0.5]))
    if kind == "id":
        return ("id",)
    if kind == "pinexpr":
        return ("pin", i, dsl.gen_expr(rng, dim, 2, avoid=i))
    if kind == "addUntil":
        return ("addUntil", i, dyadic(rng, -2, 4, 2), rng.choice([1.0, 0.5, 2.0]))
    if kind == "rot":
        return ("rot",)
    if kind == "swap":
        return ("swap", i, rng.randrange(dim))
    if kind == "pindiv":
        j = rng.randrange(dim)
        return ("pin", i, ("/", ("c", 1.0), ("x", j)))
    if kind == "pinself":   # non-idempotent: x_i := x_i * 0.5 + c
        return ("pin", i, ("+", ("*", ("x", i), ("c", 0.5)), ("c", dyadic(rng, -2, 2, 2))))
    raise AssertionError


def gen_point(rng, dim):
    k = rng.random()
    if k < 0.25:
        return [float(rng.randint(-2, 2)) for _ in range(dim)]
    if k < 0.5:
        return [dyadic(rng, -4, 4, 4) for _ in range(dim)]
    return [gfloat(rng, 6.0) for _ in range(dim)]


class DrawRecorder:
    """replace random.randint / random.random (looked up through the module at call time) by recorders"""

    def __init__(self, rng):
        self.rng = rng
        self.log = []

    def __enter__(self):
        self._ri, self._rr = _random.randint, _random.random
        rec = self

        def randint(a, b):
            v = rec.rng.randint(a, b); rec.log.append(("i", v)); return v

        def rand():
            k = rec.rng.random()
            # make collisions with stored vectors reachable: sometimes exactly 0.0 or 1.0-like dyadics
            v = 0.0 if k < 0.05 else (1.0 if k < 0.10 else rec.rng.random())
            rec.log.append(("u", v)); return v
        _random.randint, _random.random = randint, rand
        return self

    def __exit__(self, *a):
        _random.randint, _random.random = self._ri, self._rr


def run_impl(kind, members, cap, x, rng, inplace=None):
    """run the real combinator; returns dict(path, y, calls, draws(list)).
    inplace[i] = True: member i rewrites its argument in place and returns that same list (as the functions
    compiled by mystic.symbolic do); the combinators hand every member a copy, so this must not matter."""
    from mystic import constraints as C
    calls = [0]
    fired = []

    def wrap(term, inpl):
        def f(v):
            calls[0] += 1
            y = dsl.con_apply(term, v)
            if inpl:
                v[:] = y
                return v
            return y
        return f
    inplace = inplace or [False] * len(members)
    ms = [wrap(m, ip) for m, ip in zip(members, inplace)]
    onexit = lambda v: (fired.append("exit"), v)[1]
    onfail = lambda v: (fired.append("fail"), v)[1]
    with DrawRecorder(rng) as rec:
        if kind == "and":
            y = C.and_(*ms, maxiter=cap, onexit=onexit, onfail=onfail)(list(x))
        elif kind == "or":
            y = C.or_(*ms, maxiter=cap, onexit=onexit, onfail=onfail)(list(x))
        else:
            y = C.not_(ms[0], maxiter=cap, onexit=onexit, onfail=onfail)(list(x))
    return {"fired": fired, "y": [float(a) for a in y], "calls": calls[0], "draws": rec.log}


def request_line(kind, members, cap, x, draws):
    dim = len(x)
    n = len(members)
    if kind == "or":
        ds = "(" + " ".join(str(v) for t, v in draws) + ")"
        return "C17 or (cap %d) (x %s) (members (%s)) (draws %s)" % (cap * n, fl(x), " ".join(dsl.con_sexp(m) for m in members), ds)
    # and / not : draws come in groups of dim pairs (randint, random)
    groups = []
    per = 2 * dim
    for g in range(0, len(draws), per):
        chunk = draws[g:g + per]
        pairs = []
        for k in range(0, len(chunk), 2):
            pairs.append("(%d %s)" % (chunk[k][1], f2b(chunk[k + 1][1])))
        groups.append("(" + " ".join(pairs) + ")")
    ds = "(" + " ".join(groups) + ")"
    if kind == "and":
        return "C17 and (cap %d) (x %s) (members (%s)) (draws %s)" % (cap * n, fl(x), " ".join(dsl.con_sexp(m) for m in members), ds)
    return "C17 not (cap %d) (x %s) (member %s) (draws %s)" % (cap, fl(x), dsl.con_sexp(members[0]), ds)


def safe_apply(term, v):
    try:
        return dsl.con_apply(term, v)
    except ZeroDivisionError:
        return None


def monitor(kind, members, obs, model):
    """the property on the implementation's own result. returns list of (class_key, what)"""
    out = []
    fired = obs["fired"]
    n = len(members)
    if len(fired) != 1:
        out.append(("%s_/exit-paths" % kind, "onexit/onfail fired %r (exactly one of them must fire exactly once)" % (fired,)))
        return out
    y = obs["y"]
    if fired[0] == "exit":
        imgs = [safe_apply(m, y) for m in members]
        if kind == "and":
            moved = [i for i, im in enumerate(imgs) if im is None or im != y]
            if moved:
                key = "and_/success-not-fixed/other"
                # the two known mechanisms (F7 / F7b) are recognised only when the model returns the same vector for that reason
                if model and model[0] == "ok" and "success" in model[2] and same_vec(floats_of(model[1]["y"]), y):
                    t = int(model[1]["t"]); links = int(model[1]["links"])
                    if len(moved) == 1 and n > 0 and moved[0] == (t + 1) % n and links >= n - 1:
                        key = "and_/success-not-fixed/unverified-member-not-idempotent"
                    elif links < n - 1:
                        key = "and_/success-not-fixed/random-replacement-collision"
                out.append((key, "and_ returned %r through onexit but member(s) %r change it" % (y, moved)))
        elif kind == "or":
            if n > 0 and not any(im is not None and im == y for im in imgs):
                out.append(("or_/success-not-fixed", "or_ returned %r through onexit but every member changes it" % (y,)))
        else:
            if imgs[0] is None or imgs[0] == y:
                out.append(("not_/success-not-moved", "not_ returned %r through onexit but the member leaves it unchanged" % (y,)))
    return out


# ------------------------------------------------------------------ couplers / penalty combinators
def coupler_cases(rng, hist):
    """monitor-only (the models are one-liners): inner/outer/additive and the penalty and_/or_/not_"""
    from mystic import coupler, penalty as P
    out = []
    dim = rng.randint(1, 4)
    x = gen_point(rng, dim)
    c = gen_member(rng, dim, "idem")
    e = dsl.gen_expr(rng, dim, 2)
    f = lambda v: dsl.ev(e, v)
    cf = lambda v: dsl.con_apply(c, v)
    a = coupler.inner(cf)(f)(x)
    if not common.same_float(a, f(cf(x))):
        out.append(("coupler/inner", "inner(c)(f)(x) != f(c(x)) at x=%r" % (x,), {"x": x, "c": dsl.con_sexp(c), "f": dsl.expr_sexp(e)}))
    g = lambda v: [t * 2.0 for t in v]
    b = coupler.outer(cf)(g)(x)
    if not same_vec(b, cf(g(x))):
        out.append(("coupler/outer", "outer(c)(f)(x) != c(f(x)) at x=%r" % (x,), {"x": x, "c": dsl.con_sexp(c)}))
    e2 = dsl.gen_expr(rng, dim, 2)
    p = lambda v: dsl.ev(e2, v)
    s = coupler.additive(p)(f)(x)
    if not common.same_float(s, f(x) + p(x)):
        out.append(("coupler/additive", "additive(p)(f)(x) != f(x)+p(x) at x=%r" % (x,), {"x": x, "p": dsl.expr_sexp(e2), "f": dsl.expr_sexp(e)}))
    # the coupled functions are functions of the VALUE of their argument: reuse one coupled function, on the same
    # list / array object edited in place between calls, on fresh copies, and on a second point
    import numpy as _np
    fi = coupler.inner(cf)(f); fo = coupler.outer(cf)(g); fa = coupler.additive(p)(f)
    for buf in (list(x), _np.array(x, dtype=float)):
        seq = [list(x), gen_point(rng, dim), list(x), gen_point(rng, dim)]
        for v in seq:
            for i in range(dim):
                buf[i] = v[i]
            vv = [float(t) for t in buf]
            if not common.same_float(fi(buf), f(cf(list(vv)))):
                out.append(("coupler/inner-reused", "a reused inner(c)(f), called on the same %s object refilled with %r, returns %r, f(c(x)) = %r" % (type(buf).__name__, vv, fi(buf), f(cf(list(vv)))), {"x": vv, "c": dsl.con_sexp(c), "f": dsl.expr_sexp(e)}))
            if not same_vec([float(t) for t in fo(buf)], cf(g(list(vv)))):
                out.append(("coupler/outer-reused", "a reused outer(c)(f) on the same object refilled with %r differs from c(f(x))" % (vv,), {"x": vv, "c": dsl.con_sexp(c)}))
            if not common.same_float(fa(buf), f(list(vv)) + p(list(vv))):
                out.append(("coupler/additive-reused", "a reused additive(p)(f) on the same object refilled with %r differs from f(x)+p(x)" % (vv,), {"x": vv}))
            if [float(t) for t in buf] != vv:
                out.append(("coupler/argument-modified", "a coupled function modified its argument %r -> %r" % (vv, [float(t) for t in buf]), {"x": vv}))
    # vector-valued functions that RETURN AN OBJECT THEY KEEP (a memoised result, their own argument): the coupled function
    # must not accumulate into it - repeated evaluation gives the same value, f's stored result and the argument stay intact
    memo = {}

    def fmemo(v):
        key = tuple(float(t) for t in v)
        if key not in memo:
            memo[key] = _np.array([float(t) * 2.0 + 1.0 for t in v])
        return memo[key]

    def fident(v):
        return v

    def pvec(v):
        return _np.array([dsl.ev(e2, [float(t) for t in v])] * len(v))
    for fn, name in ((fmemo, "memoised"), (fident, "identity")):
        fav = coupler.additive(pvec)(fn)
        arg = _np.array(x, dtype=float)
        want = _np.array([float(t) for t in fn(_np.array(x, dtype=float))]) + pvec(x)
        for rep in range(3):
            got = fav(arg)
            if not same_vec([float(t) for t in got], [float(t) for t in want]):
                out.append(("coupler/additive-accumulates", "evaluation #%d of additive(p)(f) with a %s vector-valued f gives %r, f(x)+p(x) = %r" % (rep + 1, name, [float(t) for t in got], [float(t) for t in want]), {"x": x, "f": name}))
                break
        if [float(t) for t in arg] != [float(t) for t in x]:
            out.append(("coupler/argument-modified", "additive(p)(f) with a %s f modified its argument %r -> %r" % (name, x, [float(t) for t in arg]), {"x": x}))
    hist["coupler-reuse"] = hist.get("coupler-reuse", 0) + 30
    hist["coupler"] = hist.get("coupler", 0) + 3
    # penalty combinators: members of every type on conditions with feasible and infeasible points
    ptypes_eq = [P.quadratic_equality, P.linear_equality, P.uniform_equality]
    ptypes_in = [P.quadratic_inequality, P.linear_inequality, P.uniform_inequality]
    m = rng.randint(1, 3)
    conds = []; pens = []
    for _ in range(m):
        ce = ("-", ("x", rng.randrange(dim)), ("c", dyadic(rng, -2, 2, 2)))   # x_i - a
        eq = rng.random() < 0.4
        pt = rng.choice(ptypes_eq if eq else ptypes_in)
        cond = (lambda ce: (lambda v: dsl.ev(ce, v)))(ce)
        pens.append(pt(cond, k=rng.choice([1, 2, 100]))(lambda v: 0.0))
        conds.append((cond, eq))
    # points on / near the boundaries
    pts = [x, [dyadic(rng, -2, 2, 2) for _ in range(dim)], [dyadic(rng, -2, 2, 2) for _ in range(dim)]]
    pa = coupler.and_(*pens); po = coupler.or_(*pens)
    for v in pts:
        vals = [float(pp(v)) for pp in pens]
        if any(t < 0 for t in vals):
            continue
        za = float(pa(v)) == 0.0; zo = float(po(v)) == 0.0
        if za != all(t == 0.0 for t in vals):
            out.append(("coupler/pen-and", "penalty and_ zero=%r but member penalties %r at x=%r" % (za, vals, v), {"x": v, "vals": vals}))
        if zo != any(t == 0.0 for t in vals):
            out.append(("coupler/pen-or", "penalty or_ zero=%r but member penalties %r at x=%r" % (zo, vals, v), {"x": v, "vals": vals}))
        if float(pa(v)) < 0 or float(po(v)) < 0:
            out.append(("coupler/pen-sign", "negative combined penalty at x=%r" % (v,), {"x": v}))
        for (cond, eq), pp in zip(conds, pens):
            pn = coupler.not_(pp)
            val = cond(v)
            penalised = float(pn(v)) > 0.0
            want = (val == 0.0) if eq else (val < 0.0)
            if penalised != want:
                out.append(("coupler/pen-not", "not_(%s) penalises=%r at condition value %r (x=%r)" % (pp.ptype, penalised, val, v),
                            {"x": v, "ptype": pp.ptype, "cond": val}))
        hist["pen-comb-points"] = hist.get("pen-comb-points", 0) + 1
    return out


# ------------------------------------------------------------------ shard
def run_shard(pid, seed, shard, ncases, tier, extra):
    common.import_mystic()
    cases = []
    lines = []
    findings = []
    hist = {}
    for k in range(ncases):
        rng = case_rng(PID, seed, shard, k)
        kind = rng.choice(["and", "and", "and", "or", "or", "not"])
        dim = rng.randint(1, 4)
        flavour = rng.choice(["idem", "idem", "any"])
        n = 1 if kind == "not" else rng.choice([0, 1, 1, 2, 2, 2, 3, 3, 4])
        members = [gen_member(rng, dim, flavour) for _ in range(n)]
        cap = rng.choice([0, 1, 2, 3, 5, 8, 13, 20])
        x = gen_point(rng, dim)
        inplace = [rng.random() < 0.5 for _ in members] if rng.random() < 0.6 else [False] * len(members)
        try:
            obs = run_impl(kind, members, cap, x, rng, inplace)
        except Exception as exc:
            findings.append(Finding("monitor", "%s_/raises" % kind, "%s_ raised %r" % (kind, exc),
                                    {"kind": kind, "members": [dsl.con_sexp(m) for m in members], "cap": cap, "x": x}))
            continue
        line = request_line(kind, members, cap, x, obs["draws"])
        obs["inplace"] = inplace
        cases.append((kind, members, cap, x, obs, flavour))
        lines.append(line)
    replies = leandrv.run_driver(lines)
    nontrivial = 0
    samples = []
    for (kind, members, cap, x, obs, flavour), line, rep in zip(cases, lines, replies):
        r = parse_reply(rep)
        case = {"kind": kind, "members": [dsl.con_sexp(m) for m in members], "maxiter": cap, "x": x,
                "request": line, "impl": obs, "model": rep}
        if r[0] != "ok":
            findings.append(Finding("correspondence", "%s_/model-%s" % (kind, r[0]), "model replied %r" % (rep,), case))
            continue
        mpath = "exit" if "success" in r[2] else "fail"
        my = floats_of(r[1]["y"])
        ipath = obs["fired"][0] if len(obs["fired"]) == 1 else repr(obs["fired"])
        ndraw_groups = int(r[1]["draws"])
        per = 1 if kind == "or" else 2 * len(x)
        idraws = len(obs["draws"]) // per if per else 0
        diffs = []
        if mpath != ipath:
            diffs.append("path model=%s impl=%s" % (mpath, ipath))
        if not same_vec(my, obs["y"]):
            diffs.append("result model=%r impl=%r" % (my, obs["y"]))
        if int(r[1]["calls"]) != obs["calls"]:
            diffs.append("member calls model=%s impl=%d" % (r[1]["calls"], obs["calls"]))
        if ndraw_groups != idraws:
            diffs.append("random replacements model=%d impl=%d" % (ndraw_groups, idraws))
        if diffs:
            findings.append(Finding("correspondence", "%s_/diverges" % kind, "; ".join(diffs), case))
        for key, what in monitor(kind, members, obs, r):
            findings.append(Finding("monitor", key, what, case))
        # histogram / non-triviality
        first = (obs["calls"] <= max(len(members), 1))
        tag = "%s:%s:%s" % (kind, ipath, "first-pass" if first else ("randomised" if idraws else "cycled"))
        hist[tag] = hist.get(tag, 0) + 1
        if not first:
            nontrivial += 1
        if len(samples) < 2 and not first:
            samples.append(case)
    for k in range(max(1, ncases // 4)):
        rng = case_rng(PID + "/coupler", seed, shard, k)
        for key, what, cs in coupler_cases(rng, hist):
            findings.append(Finding("monitor", key, what, cs))
    # ---- extended streams (c17x): exception classes, oracles, penalty objects, couplers with arguments
    import c17x
    xcases = []
    for stream, cnt in (("xcomb", ncases), ("oracle", max(1, ncases // 2)), ("pen", max(1, ncases // 2)),
                        ("cpl", max(1, ncases // 4))):
        for k in range(cnt):
            rng = case_rng(PID + "/" + stream, seed, shard, k)
            cs = c17x.GEN[stream](rng, hist)
            if cs is not None:
                xcases.append(cs)
    xreplies = leandrv.run_driver([cs["line"] for cs in xcases])
    xn = 0
    for cs, rep in zip(xcases, xreplies):
        if c17x.CHECK[cs["stream"]](cs, rep, findings, hist):
            xn += 1
    # ---- agreement of the two models on the old stream: the extended model, run on the same requests
    alines = []
    for (kind, members, cap, x, obs, flavour) in cases:
        ms = " ".join("(g none %s)" % dsl.con_sexp(m) for m in members)
        ds, _ = c17x.draw_groups([(t, v, 0) for t, v in obs["draws"]], "or") if kind == "or" else (None, 0)
        if kind == "or":
            alines.append("C17 xor (cap %d) (x %s) (members (%s)) (draws %s)" % (cap * len(members), fl(x), ms, ds))
        else:
            old = request_line(kind, members, cap, x, obs["draws"])
            alines.append(old.replace("C17 and ", "C17 xand ", 1).replace("C17 not ", "C17 xnot ", 1)
                          .replace("(members (%s))" % " ".join(dsl.con_sexp(m) for m in members), "(members (%s))" % ms)
                          .replace("(member %s)" % (dsl.con_sexp(members[0]) if members else ""), "(member %s)" % ms))
    areplies = leandrv.run_driver(alines)
    for (kind, members, cap, x, obs, flavour), old, new, al in zip(cases, replies, areplies, alines):
        ro = parse_reply(old); rn = parse_reply(new)
        same = ro[0] == rn[0] == "ok" and ro[2] == rn[2] and all(
            ro[1].get(k) == rn[1].get(k) for k in (("y", "calls", "draws", "links") + (() if kind == "not" else ("t",))))
        hist["agree:%s" % kind] = hist.get("agree:%s" % kind, 0) + 1
        if not same:
            findings.append(Finding("correspondence", "%s_/models-disagree" % kind,
                                    "Model/Combinators replied %r, Model/CombinatorsX %r" % (old, new),
                                    {"request": al, "old": old, "new": new}))
    # ---- call SEQUENCES on one combinator object (c17s): every call checked against its own input
    import c17s
    scases = []; slines = []
    for k in range(ncases):
        rng = case_rng(PID + "/seq", seed, shard, k)
        cs = c17s.seq_case(rng, hist)
        scases.append(cs)
        slines.extend(ln for _, _, ln in cs["lines"])
    sreplies = leandrv.run_driver(slines)
    pos = 0; sn = 0; scalls = 0
    for cs in scases:
        m = len(cs["lines"])
        if c17s.seq_check(cs, sreplies[pos:pos + m], findings, hist):
            sn += 1
        pos += m
        scalls += sum(len(o.frames) for o in cs["objs"])
    return {"evaluations": len(cases) + len(xcases) + scalls, "nontrivial": nontrivial + xn + sn,
            "model_lines": len(lines) + len(xcases) + len(alines) + len(slines), "findings": findings,
            "samples": samples, "hist": hist}


# ------------------------------------------------------------------ known-finding witnesses (run first)
def witnesses():
    """F7: and_(c)([0]) with c = x -> [x0+1] if x0 < 2 else x returns [1] through onexit although c([1]) = [2]"""
    common.import_mystic()
    members = [("addUntil", 0, 2.0, 1.0)]
    x = [0.0]
    rng = _random.Random(0)
    obs = run_impl("and", members, 100, x, rng)
    line = request_line("and", members, 100, x, obs["draws"])
    rep = leandrv.run_driver([line])[0]
    r = parse_reply(rep)
    case = {"kind": "and", "members": [dsl.con_sexp(m) for m in members], "maxiter": 100, "x": x, "request": line, "impl": obs, "model": rep}
    return [Finding("monitor", key, what, case) for key, what in monitor("and", members, obs, r)]


def main(tier, seed):
    t0 = time.time()
    proof = framework.proof_stage(PID, MODULE, THEOREMS, tier)
    nshards, per = (16, 60) if tier == "quick" else (64, 400)
    run = framework.run_shards("c17", "run_shard", PID, seed, nshards, per, tier)
    run["findings"] = witnesses() + run["findings"]

    def search_more():
        r = framework.run_shards("c17", "run_shard", PID, seed + 7919, 32, 400, tier)
        return r["findings"]
    rule = ("cases: random and_/or_/not_ over 0-4 DSL members (clamp/pin/rint/tie/id + non-idempotent addUntil/rot/swap/"
            "self-scaling/zero-dividing), dim 1-4, maxiter in {0..20}, integer/dyadic/general inputs; random draws recorded "
            "from the real run and replayed by the model. non-trivial = the run went past the first pass (cycling phase entered). "
            "xcomb: the same with members behind guards that raise (ZeroDivisionError / swallowed TypeError-ValueError / propagating "
            "classes incl. numpy FloatingPointError, OverflowError, argument-less and non-str-message exceptions), return shorter / "
            "longer vectors, scribble over their argument before raising (non-trivial = past the first pass or raised). "
            "oracle: stateful / non-deterministic python members, every call recorded and replayed as an oracle; the model must hand "
            "every call the vector the real member received. pen: coupler.and_/or_/not_ objects over members of all nine penalty types "
            "(ptype / with_penalty / as_penalty leaves, k, h, iter(n), nesting depth <= 2) evaluated at 4 points vs PenaltyTree.evalT, "
            "bit-exact in the dyadic regime, rel 1e-9 otherwise (counted separately). cpl: the six couplers and with_constraint with "
            "decorator-time and call-time arguments (args / kwds) vs Model/Couplers, bit-exact. agree: every old-stream request is also "
            "run through the extended model; the two replies must be identical. seq: ONE and_/or_/not_ object called 2-7 times "
            "(members: interacting difference-constraint systems x_i >= x_j + a / ties / bounds - pure or rewriting their argument in place -, "
            "the general DSL, stateful python members whose state lives across the calls, one closure at two positions, members that are "
            "combinator objects themselves; inputs: fresh lists, numpy arrays, one list refilled in place, repeated inputs, an earlier result fed "
            "back; maxiter given or default); every call of every object (top and member objects) is compared with Model/CombinatorsSeq "
            "(global member-call counter threaded through the calls; local call j must go to member j % n with the vector the model hands it; "
            "for pure members the model evaluates the members itself = the answer of a fresh object) and the property's clause is evaluated on "
            "the real result of every call (non-trivial = a later call of an object went past its first pass); cpl: every coupled function is "
            "built once and called on a sequence of 1-4 (x, b) inputs, the model line is one random position; pen: every object re-evaluated twice")
    tb = ["Lean 4.33 kernel + Mathlib-free core lemmas; axioms per theorem listed under coverage.theorems",
          "hand-written models Model/Combinators.lean, Model/CombinatorsX.lean tied to constraints.and_/or_/not_ by this bit-exact differential run only",
          "harness/c17x.py classify()/make_exc(): the reading of the except clauses (which exception objects are swallowed) - a change of the clauses in the code shows up as a divergence",
          "Model/PenaltyTree.lean (built and proved about by C15; imported unchanged) tied to coupler.and_/or_/not_ objects by C17's own pen stream",
          "DSL twins harness/dsl.py and Model/Dsl.lean (compared through the same run)",
          "Model/CombinatorsSeq.lean (one object, many calls: nothing but the members' own state survives a call) tied to the closures returned by constraints.and_/or_/not_ by the seq stream",
          "harness/c17s.py ref_member(): a member that is a combinator object is judged by a freshly built object of the same description (undetermined, and skipped, when a random draw is involved)",
          "coupler.py inner/outer/additive (+ _proxy, with_constraint): Model/Couplers.lean compared bit-exactly; value-semantics / reuse checked by the monitor"]
    assumptions = ["members are deterministic python callables returning lists (numpy arrays make `!=` ambiguous in not_)",
                   "members return python lists of floats or raise; None / tuple / ndarray returns and NaN entries (python compares list items by identity first) are outside the correspondence",
                   "as_constraint (a DE solve, random) is not modelled",
                   "IEEE binary64 + - * / and comparisons agree between Lean Float and CPython"]
    return framework.finish(PID, tier, seed, t0, proof, run, rule, tb, assumptions, search_more=search_more)
