"""C13 - compiled constraint functions enforce exactly the stated relation.

Per case the REAL `generate_solvers` / `generate_constraint` / `boundsconstrain` of /repo is run on a generated
constraint text.  Then
  * translator: the emitted source (`solver.__doc__`, the very string that is exec'ed) is parsed into the
    expression language of lean/MysticVerif/Model/Emitted.lean (harness/symtrans.py);
  * validator : Lean `recognise` (proved sound in Props/C13.lean for ALL inputs) decides whether each emitted
    statement is one of the shapes proved to enforce the relation the TEXT states (the relation is the
    generator's own structure, never taken from mystic);
  * correspondence: the compiled function's output vs Lean `chain?` of the translated statements, bit-exact;
  * monitor   : the property's own clauses evaluated on the implementation's output by python itself
    (relation holds / frame / identity on feasible input / all relations of an independent system / box).
"""
import sys, time, math, json, warnings
import common
from common import case_rng, fl, f2b, same_vec, same_float, parse_reply, floats_of
import framework, leandrv
from framework import Finding
import symtrans as T

PID = "C13"
MODULE = "MysticVerif.Props.C13"
THEOREMS = [
    "MysticVerif.C13.solver_enforces_margin",
    "MysticVerif.C13.solver_enforces",
    "MysticVerif.C13.solver_frame",
    "MysticVerif.C13.solver_identity_partial",
    "MysticVerif.C13.solver_identity_nonstrict",
    "MysticVerif.C13.strict_band_moves_feasible_point",
    "MysticVerif.C13.chain_independent",
    "MysticVerif.C13.chain_frame",
    "MysticVerif.C13.chain_identity",
    "MysticVerif.C13.chain_opt_eq",
    "MysticVerif.C13.canon_exec",
    "MysticVerif.C13.chain_canon",
    "MysticVerif.C13.bounds_in_box",
    "MysticVerif.C13.bounds_identity_inside",
    "MysticVerif.C13.compose_eq_chain_order",
    "MysticVerif.C13.compose_opt_eq",
    "MysticVerif.C13.compose_independent",
    "MysticVerif.C13.compose_frame",
    "MysticVerif.C13.compose_feeding_partial",
    "MysticVerif.C13.compose_feeding_order_matters",
    "MysticVerif.C13.fixed_point_margin",
    "MysticVerif.C13.member_idem",
    "MysticVerif.C13.join_and_all_hold",
    "MysticVerif.C13.join_or_some_holds",
    "MysticVerif.C13.compose_identity",
    "MysticVerif.C13.join_and_identity",
    "MysticVerif.C13.join_or_identity",
    "MysticVerif.C13.join_and_independent",
    "MysticVerif.C13.join_or_total",
    "MysticVerif.C13.gc_shape_compiles_every_solver",
    "MysticVerif.C13.gc_shape_default_eq_chain",
    "MysticVerif.C13.gc_shape_independent",
    "MysticVerif.C13.gc_shape_frame",
    "MysticVerif.C13.gc_shape_identity",
    "MysticVerif.C13.gc_shape_short_ctype_drops",
    "MysticVerif.C13.group_fixed_all_hold",
    "MysticVerif.C13.join_groups_or_member_holds",
    "MysticVerif.C13.join_groups_and_all_hold",
    "MysticVerif.C13.join_groups_and_feeding_false_success",
    "MysticVerif.C13.chain_independent_margin",
    "MysticVerif.C13.compose_independent_margin",
    "MysticVerif.C13.compose_idempotent",
    "MysticVerif.C13.group_member_idem",
    "MysticVerif.C13.join_groups_and_indep_all_hold",
]

NAMES = ["a", "b", "c", "d", "spam", "eggs", "foo", "bar", "u", "v", "w", "p", "q", "alpha", "beta", "zed"]
CMPS = ["=", "==", "<=", ">=", "<", ">", "!="]
KEY_BAND = "solver/identity/strict-tolerance-band"
KEY_OVF = "solver/rhs-overflows-to-inf/nan-result"
KEY_DROP = "generate_constraint/nested-solvers/ctype-list-as-long-as-outer-sequence/relations-dropped"
WORDS = ["spam", "eggs", "foo", "bar", "alpha", "beta", "zed"]       # names that are no substring of a function name
SHADOW = [("K0", "K1"), ("K0", "K1"), ("e", "tau"), ("pi", "gamma"), ("K0", "e"), ("euler_gamma", "K1"), ("inf", "K0")]
COUPLERS = ["inner", "outer", "inner_proxy", "outer_proxy"]


# ------------------------------------------------------------------ generators
def gen_numeral(rng, regime):
    k = rng.random()
    if regime == "huge" and k < 0.5:
        v = rng.choice([1e300, -1e300, 1e154, 3e307, -3e307, 1e17, 2.5e200])
        return repr(v)
    if regime == "tiny" and k < 0.5:
        return repr(rng.choice([1e-300, -1e-300, 5e-324, 1e-17, 2.5e-200]))
    if k < 0.25:
        return str(rng.choice([-9, -7, -6, -3, -2, -1, 1, 2, 3, 4, 5, 8]))     # python int literal (never the int 0)
    if k < 0.40:
        return rng.choice(["2.", ".5", "0.", "1.", "-.25", "1e-3", "1e3", "-0.0"])
    if k < 0.65:
        return repr(rng.randint(-64, 64) / 8.0)
    return repr(rng.uniform(-10, 10))


def gen_term(rng, avail, depth, regime):
    k = rng.random()
    if depth == 0 or k < 0.25:
        if avail and rng.random() < 0.6:
            return ("v", rng.choice(avail))
        return ("n", gen_numeral(rng, regime))
    if k < 0.32:
        return ("neg", gen_term(rng, avail, depth - 1, regime))
    op = rng.choice(["+", "-", "*", "+", "-", "*", "/"])
    a = gen_term(rng, avail, depth - 1, regime)
    if op == "/":
        b = ("v", rng.choice(avail)) if (avail and rng.random() < 0.5) else ("n", rng.choice(["2", "4.", "-3", ".5", "7", "0.1"]))
    else:
        b = gen_term(rng, avail, depth - 1, regime)
    return (op, a, b)


def gen_rich(rng, avail, depth, consts):
    """the wider expression language of user texts (small regime only): ** with small integer exponents, abs, min/max
    (2 or 3 arguments), the numeric functions of the generated namespace, names bound through locals="""
    k = rng.random()
    if depth == 0 or k < 0.2:
        if consts and rng.random() < 0.3:
            return ("n", rng.choice(sorted(consts)))
        if avail and rng.random() < 0.65:
            return ("v", rng.choice(avail))
        return ("n", gen_numeral(rng, "small"))
    sub = lambda: gen_rich(rng, avail, depth - 1, consts)
    if k < 0.32:
        return ("pow", sub(), ("n", rng.choice(["2", "2", "3", "2", "4", "0", "1", "-1", "-2"])))
    if k < 0.44:
        return ("abs", sub())
    if k < 0.58:
        args = [sub() for _ in range(rng.choice([2, 2, 3]))]
        if rng.random() < 0.3:
            args[1] = args[0]                       # ties: python keeps the first extremal argument
        return (rng.choice(["max", "min"]),) + tuple(args)
    if k < 0.74:
        f = rng.choice(["sqrt", "sqrt", "floor", "ceil", "sqrt", "exp", "log", "sin", "cos"])
        a = sub()
        if f == "sqrt" and rng.random() < 0.7:
            a = ("abs", a)
        if f == "log":
            a = ("+", ("abs", a), ("n", "1."))
        if f == "exp":
            a = ("neg", ("abs", a)) if rng.random() < 0.7 else a
        return (f, a)
    op = rng.choice(["+", "-", "*", "+", "-", "/"])
    a = sub()
    if op == "/":
        b = ("v", rng.choice(avail)) if (avail and rng.random() < 0.5) else ("n", rng.choice(["2", "4.", "-3", ".5", "7", "0.1"]))
    else:
        b = sub()
    return (op, a, b)


def gen_measure(rng, avail):
    """sum / mean / spread over a list of variables (exactness regime: the point is dyadic)"""
    vs = [("v", j) for j in (rng.sample(avail, min(len(avail), rng.choice([2, 3, 3, 4]))) if len(avail) >= 2 else avail * 2)]
    t = (rng.choice(["sum", "mean", "spread"]),) + tuple(vs)
    if rng.random() < 0.5:
        t = (rng.choice(["+", "-", "*"]), t, rng.choice([("n", "2."), ("n", ".5"), ("v", rng.choice(avail))]))
    return t


def gen_value(rng, regime):
    k = rng.random()
    if regime == "huge" and k < 0.5:
        return rng.choice([1e300, -1e300, 1e308, -1e308, 1e154, -1e154, 1.7976931348623157e308, 1e17])
    if regime == "tiny" and k < 0.5:
        return rng.choice([1e-300, -1e-300, 5e-324, -5e-324, 1e-17, 0.0, -0.0])
    if k < 0.2:
        return float(rng.randint(-5, 5))
    if k < 0.4:
        return rng.randint(-64, 64) / 8.0
    if k < 0.45:
        return rng.choice([0.0, -0.0])
    return rng.uniform(-10, 10)


def gen_scheme(rng, n):
    k = rng.random()
    if k < 0.55:
        return ("base", rng.choice(["x", "x", "y", "var"]), rng.random() < 0.6)
    names = rng.sample(NAMES, n) if n <= len(NAMES) else None
    if names is None:
        return ("base", "x", True)
    return ("names", names, rng.random() < 0.5)


def namer(scheme):
    if scheme[0] == "base":
        return lambda j: "%s%d" % (scheme[1], j)
    return lambda j: scheme[1][j]


def gen_locals(rng, regime):
    k = rng.random()
    if k < 0.6 or regime in ("huge", "tiny"):
        return None
    return rng.choice([{"tol": 1e-9, "rel": 1e-12}, {"tol": 0.0, "rel": 1e-15}, {"tol": 1e-15, "rel": 0.0},
                       {"tol": 0.5, "rel": 0.25}, {"tol": 0.0, "rel": 0.0}, {"tol": 1e-3}, {"rel": 1e-6}])


def tolf(r, tol, rel):
    return tol + abs(r) * rel


def place(rng, r, t, regime):
    """a value for x_i near the boundary r and the tolerance band [r-t, r+t]"""
    if not math.isfinite(r):
        return gen_value(rng, regime)
    k = rng.random()
    cands = [r, math.nextafter(r, math.inf), math.nextafter(r, -math.inf), r - t, r + t,
             math.nextafter(r - t, -math.inf), math.nextafter(r - t, math.inf),
             math.nextafter(r + t, -math.inf), math.nextafter(r + t, math.inf),
             r - t / 2, r + t / 2, r - 1.1 * t, r + 1.1 * t, r - 1.0, r + 1.0, r - abs(r) * 0.5 - 1, r + abs(r) * 0.5 + 1]
    if k < 0.8:
        v = rng.choice(cands)
        return v if math.isfinite(v) else r
    return gen_value(rng, regime)


def gen_case(rng):
    kind = rng.choices(["rel", "chain", "neqmix", "feed", "selfref"], [50, 25, 12, 8, 5])[0]
    regime = rng.choices(["small", "huge", "tiny"], [70, 20, 10])[0]
    n = rng.choice([1, 2, 3, 3, 4, 5, 6, 8, 11, 12, 13])
    if kind in ("chain", "feed") and n < 3:
        n = 3
    if kind == "neqmix" and n < 2:
        n = 2
    scheme = gen_scheme(rng, n)
    locs = gen_locals(rng, regime)
    # the wider expression language (gap: "validated only on + - * /"): a separate share of the small-regime cases
    rich = None
    if regime == "small" and kind in ("rel", "chain", "feed") and rng.random() < 0.45:
        rich = rng.choices(["funcs", "measure"], [80, 20])[0] if kind != "feed" else "funcs"
        if scheme[0] == "names":
            scheme = ("names", rng.sample(WORDS, n), scheme[2]) if n <= len(WORDS) else ("base", "x", True)
    consts = {}
    if rich == "funcs" and scheme[0] == "base" and rng.random() < 0.4:
        # names bound through locals=; most of them shadow a math / numpy name the generated namespace imports
        n0, n1 = rng.choice(SHADOW)
        consts = {n0: rng.choice([2.0, -1.5, 0.25, 3.0]), n1: rng.uniform(-5, 5)}
        locs = dict(locs or {}); locs.update(consts)
    if kind == "neqmix" and locs is not None and (locs.get("tol", 0) > 1e-3 or locs.get("rel", 0) > 1e-3):
        locs = {"tol": 1e-9, "rel": 1e-12}        # the tolerance must stay far below the width of the box (0.25)
    idx = list(range(n))
    if n > 10 and rng.random() < 0.7:        # make two-digit indices (and their one-digit prefixes) frequent
        pref = [j for j in idx if j >= 10] + [1, 0]
    else:
        pref = idx
    rels = []     # (i, cmp, term) in TEXT order
    if kind in ("rel", "selfref"):
        i = rng.choice(pref)
        avail = [j for j in idx if j != i]
        if n > 10:
            avail = [j for j in avail if j in pref or rng.random() < 0.3] or avail
        if kind == "selfref":
            avail = [i] + avail[:2]
        term = gen_term(rng, avail, rng.choice([0, 1, 1, 2]), regime)
        if rich == "funcs":
            term = gen_rich(rng, avail, rng.choice([1, 2, 2, 3]), consts)
        elif rich == "measure" and avail:
            term = gen_measure(rng, avail)
        if kind == "selfref" and i not in T.term_vars(term):
            term = ("+", term, ("v", i))
        rels.append((i, rng.choice(CMPS), term))
    elif kind in ("chain", "feed"):
        m = rng.randint(2, min(4, n - 1))
        lhs = rng.sample(pref if len(pref) >= m else idx, m)
        free = [j for j in idx if j not in lhs]
        for q, i in enumerate(lhs):
            avail = free if kind == "chain" else free + [j for j in lhs if j != i]
            if rich == "funcs":
                term = gen_rich(rng, avail, rng.choice([1, 2, 2]), consts)
            elif rich == "measure" and avail:
                term = gen_measure(rng, avail)
            else:
                term = gen_term(rng, avail, rng.choice([0, 1, 2]), regime)
            rels.append((i, rng.choice(CMPS), term))
    else:   # neqmix: bounds and != on the same variable (constants), plus an unrelated line
        i = rng.choice(pref)
        lo = rng.randint(-16, 16) / 4.0
        hi = lo + rng.randint(1, 16) / 4.0
        forb = rng.choice([lo, hi, lo, hi, (lo + hi) / 2, hi + 1.0])
        lines = [(i, ">=", ("n", repr(lo))), (i, "<=", ("n", repr(hi))), (i, "!=", ("n", repr(forb)))]
        rng.shuffle(lines)
        lines = lines[:rng.choice([2, 3, 3])]
        if not any(c == "!=" for _, c, _ in lines):
            lines[0] = (i, "!=", ("n", repr(forb)))
        rels = lines
        others = [j for j in idx if j != i]
        if others and rng.random() < 0.5:
            j = rng.choice(others)
            rels.insert(rng.randint(0, len(rels)), (j, rng.choice(["<", ">", "="]), ("n", repr(rng.randint(-8, 8) / 2.0))))
    rels = [(i, c, T.deint(t)) for (i, c, t) in rels]
    if rich:
        # numpy's floor/ceil/abs keep python ints as integers (and refuse negative integer powers): rich terms use float literals
        rels = [(i, c, T.floatify(t)) for (i, c, t) in rels]
    if kind == "feed":
        # a variable may hold a python int after `x0 = 3`; feeding it on (-x0, x0*0) would use python's int arithmetic:
        # keep fed systems in floats
        def fl_(t):
            if t[0] == "n":
                return ("n", t[1] + ".") if t[1].lstrip("-").isdigit() else t
            if t[0] == "v":
                return t
            if t[0] == "pow":
                return (t[0], fl_(t[1]), t[2])
            return (t[0],) + tuple(fl_(u) for u in t[1:])
        rels = [(i, c, fl_(t)) for (i, c, t) in rels]
    x = [gen_value(rng, regime) for _ in range(n)]
    if rich == "measure":
        x = [rng.randint(-64, 64) / 8.0 for _ in range(n)]          # exactness regime: every partial sum is exact
    # composition mode of generate_constraint: ctype= (one coupler / one per solver), join= (constraints.and_/or_)
    ctype = None; join = None
    if kind != "selfref":
        m = rng.random()
        if m < 0.22:
            ctype = rng.choice(COUPLERS) if rng.random() < 0.4 else [rng.choice(COUPLERS) for _ in rels]
        elif m < 0.36:
            join = "and_"; ctype = rng.choice([None, None, "outer", "inner"])
        elif m < 0.46:
            join = "or_"; ctype = rng.choice([None, None, "outer"])
    selfcheck = rng.choices([None, "reload", "threads"], [94, 2, 4])[0]
    return {"kind": kind, "regime": regime, "n": n, "scheme": scheme, "locals": locs, "rels": rels, "x": x,
            "rich": rich, "consts": consts, "ctype": ctype, "join": join, "selfcheck": selfcheck}


# ------------------------------------------------------------------ argument SHAPES of generate_solvers / generate_constraint
# A nest is an int (an item) or ["T" | "L" | "A", child, ...] (a tuple / list / 1-d numpy object array of children).
def gen_nest(rng, items, depth, empty=0.06):
    """a random nesting of the sequence `items` (order kept, every item exactly once), now and then with an empty group"""
    kids = []; k = 0; n = len(items)
    while k < n:
        if depth > 0 and rng.random() < 0.45:
            size = rng.randint(1, min(3, n - k))
            kids.append(gen_nest(rng, items[k:k + size], depth - 1, empty)); k += size
        else:
            kids.append(items[k]); k += 1
        if depth > 0 and rng.random() < empty:
            kids.append([rng.choice("TL")])
    if depth > 0 and n == 0 and rng.random() < 0.3:
        kids.append([rng.choice("TL")])
    return [rng.choice("TTL")] + kids


def nest_flat(t):
    return [t] if not isinstance(t, list) else [v for u in t[1:] for v in nest_flat(u)]


def nest_top(t):
    """the top-level items of the `conditions` argument (a single function counts as a one-element list)"""
    return [t] if not isinstance(t, list) else list(t[1:])


def nest_depth(items):
    """levels of nesting below a list of items (an empty list counts one level)"""
    return max([0] + [1 + nest_depth(u[1:]) for u in items if isinstance(u, list)])


def nest_sexp(t, leaf=str):
    return leaf(t) if not isinstance(t, list) else "(" + " ".join(nest_sexp(u, leaf) for u in t[1:]) + ")"


def nest_relabel(t, start=0):
    """the same nesting with the items renumbered 0, 1, .. in flattening order"""
    cnt = [start]

    def go(u):
        if not isinstance(u, list):
            cnt[0] += 1
            return cnt[0] - 1
        return [u[0]] + [go(v) for v in u[1:]]
    return go(t)


def nest_subst(t, f):
    return f(t) if not isinstance(t, list) else [t[0]] + [nest_subst(u, f) for u in t[1:]]


def cond_nest(case):
    """the nesting of the `conditions` argument over the positions 0.. of the flattened solvers (the generator's own structure)"""
    sh = case.get("shape")
    m = len(case["rels"])
    if not sh or sh["how"] == "text":
        return ["T"] + list(range(m))
    if sh["how"] == "blocks":
        # a block of text becomes the tuple of its solvers
        return nest_relabel(nest_subst(sh["tree"], lambda b: ["T"] + list(sh["blocks"][b])))
    return sh["tree"]


def block_list(case):
    """the relations (indices into case['rels']) of every text handed to constraints_parser, in flattening order"""
    sh = case.get("shape")
    if not sh or sh["how"] != "blocks":
        return [list(range(len(case["rels"])))]
    return [list(sh["blocks"][b]) for b in nest_flat(sh["tree"])]


def ctype_flat(ct):
    return [ct] if isinstance(ct, str) else [v for u in ct for v in ctype_flat(u)]


def ctype_depth(ct):
    return max([0] + [1 + ctype_depth(u) for u in ct if isinstance(u, list)])


def ctype_sexp(ct):
    if ct is None:
        return "none"
    return ct.split("_")[0] if isinstance(ct, str) else "(" + " ".join(ctype_sexp(u) for u in ct) + ")"


def gen_shape(rng, case):
    """HOW the relations reach generate_constraint: one text (a flat tuple of solvers), a tuple / list / nesting of TEXTS
    (generate_solvers returns a tuple of tuples), a hand-made nesting of the solvers of one text (lists, tuples, empty groups,
    one-element wrappers), one solver function that is not inside a sequence, a numpy object array; and the form of `ctype`:
    None / one coupler / a flat list / a list nested like the solvers / nested differently / longer than needed / - a class of
    its own - a list as long as the OUTER sequence of nested solvers"""
    rels = case["rels"]; m = len(rels)
    u = rng.random()
    how = "text" if u < 0.58 else "blocks" if u < 0.75 else "hand" if u < 0.91 else "single" if u < 0.955 else "array"
    if how == "single" and m != 1:
        how = "hand"
    sh = {"how": how}
    if how == "blocks":
        # cut the text into consecutive blocks; lines on the same left-hand variable stay in one text (the parser couples them)
        cuts = [p for p in range(1, m) if not ({r[0] for r in rels[:p]} & {r[0] for r in rels[p:]})]
        chosen = sorted(c for c in cuts if rng.random() < 0.55)
        edges = [0] + chosen + [m]
        blocks = [list(range(a, b)) for a, b in zip(edges, edges[1:])]
        if rng.random() < 0.12:
            blocks.insert(rng.randint(0, len(blocks)), [])            # an empty text: generate_solvers('') == ()
        ids = list(range(len(blocks)))
        sh["blocks"] = blocks
        sh["tree"] = gen_nest(rng, ids, 0) if rng.random() < 0.7 else gen_nest(rng, ids, 2, empty=0.0)
    elif how == "hand":
        sh["tree"] = gen_nest(rng, list(range(m)), rng.choice([1, 1, 2, 3]))
        if rng.random() < 0.15:
            sh["tree"] = [rng.choice("TL"), sh["tree"]]               # everything wrapped once more
    elif how == "single":
        sh["tree"] = 0
    elif how == "array":
        sh["tree"] = ["A"] + list(range(m))
    case["shape"] = sh if how != "text" else None
    nest = cond_nest(case)
    items = nest_top(nest); groups = [nest_flat(t) for t in items]
    ct = case.get("ctype"); join = case.get("join")
    form = "none" if ct is None else "one" if isinstance(ct, str) else "flat"
    pick = lambda: rng.choice(COUPLERS)
    if join is None:
        if isinstance(ct, list) and how != "text":
            v = rng.random()
            if v < 0.35:
                ct = nest_subst(nest, lambda k: ct[k]) ; ct = _untag(ct); form = "mirror"
            elif v < 0.6:
                ct = _untag(nest_subst(gen_nest(rng, list(range(m)), 2, empty=0.04), lambda k: ct[k])); form = "renest"
            elif v < 0.72:
                ct = list(ct) + [pick() for _ in range(rng.randint(1, 2))]; form = "longer"
        elif ct is None and how != "text" and len(items) < m and rng.random() < 0.10:
            ct = [pick() for _ in items]; form = "outer-length"      # `a list .. of the same length as conditions`, read literally
    else:
        v = rng.random()
        if v < 0.34:
            if nest_depth(items) == 0 or rng.random() < 0.6:
                # as deep as the solvers: every member gets its own entry (a coupler, or the list of its group)
                ct = [pick() if not isinstance(t, list) else _untag(nest_subst(t, lambda k: pick())) for t in items]
                form = "per-member"
            else:
                # flatter than the solvers: every member gets the WHOLE list (long enough for the largest group)
                ct = [pick() for _ in range(max([len(g) for g in groups] + [1]) + rng.choice([0, 0, 1]))]; form = "whole-list"
            if ct == []:
                ct = None; form = "none"
        elif v < 0.40 and how != "text" and nest_depth(items) >= 1 and max(len(g) for g in groups) > len(items):
            ct = [pick() for _ in items]; form = "outer-length"
    case["ctype"] = ct
    case["ctype_form"] = form


def _untag(t):
    """a nest of coupler names as plain nested lists"""
    return t if not isinstance(t, list) else [_untag(u) for u in t[1:]]


def finalize_point(rng, case):
    """place the left-hand variables on / around their boundaries (uses python's own evaluation of the text)"""
    tol = (case["locals"] or {}).get("tol", 1e-15); rel = (case["locals"] or {}).get("rel", 1e-15)
    x = case["x"]
    for (i, cmp, term) in case["rels"]:
        try:
            with warnings.catch_warnings():
                warnings.simplefilter("ignore")
                r = float(T.py_eval(term, x, case.get("consts")))
        except (ZeroDivisionError, OverflowError, TypeError, ValueError):
            continue
        if rng.random() < 0.75:
            x[i] = place(rng, r, tolf(r, tol, rel), case["regime"])
    case["x"] = x


def case_text(case):
    nm = namer(case["scheme"])
    lines = ["%s %s %s" % (nm(i), cmp, T.print_expr(term, nm)) for (i, cmp, term) in case["rels"]]
    pad = "    " if len(lines) > 1 else ""
    return "\n".join(pad + l for l in lines)


def mystic_args(case):
    sc = case["scheme"]
    if sc[0] == "base":
        return {"variables": sc[1], "nvars": case["n"] if sc[2] else None}
    return {"variables": list(sc[1]), "nvars": case["n"] if sc[2] else None}


# ------------------------------------------------------------------ running the implementation
def py_build(tree, leaf):
    """the python object of a nest: tuples, lists, 1-d numpy object arrays"""
    if not isinstance(tree, list):
        return leaf(tree)
    kids = [py_build(t, leaf) for t in tree[1:]]
    if tree[0] == "T":
        return tuple(kids)
    if tree[0] == "A":
        import numpy
        arr = numpy.empty(len(kids), dtype=object)
        for k, v in enumerate(kids):
            arr[k] = v
        return arr
    return kids


def _is_seq(o):
    import numpy
    return isinstance(o, (list, tuple, numpy.ndarray))


def py_flat(o):
    return [v for u in o for v in py_flat(u)] if _is_seq(o) else [o]


def py_nest(o):
    """the nesting of a returned object over the positions of its flattening (sequence types forgotten)"""
    cnt = [0]

    def go(u):
        if _is_seq(u):
            return [go(v) for v in u]
        cnt[0] += 1
        return cnt[0] - 1
    return go(o)


def py_ctype(ct, CP):
    if ct is None:
        return None
    return getattr(CP, ct) if isinstance(ct, str) else [py_ctype(u, CP) for u in ct]


def case_block_text(case, idxs):
    nm = namer(case["scheme"])
    lines = ["%s %s %s" % (nm(i), cmp, T.print_expr(term, nm)) for (i, cmp, term) in (case["rels"][k] for k in idxs)]
    pad = "    " if len(lines) > 1 else ""
    return "\n".join(pad + l for l in lines)


def build_conditions(case, S, text, locs, kw):
    """the `conditions` argument of generate_constraint, in the shape the case prescribes"""
    sh = case.get("shape")
    if not sh or sh["how"] == "text":
        return S.generate_solvers(text, locals=locs, **kw)
    if sh["how"] == "blocks":
        arg = py_build(sh["tree"], lambda b: case_block_text(case, sh["blocks"][b]))
        return S.generate_solvers(arg, locals=locs, **kw)
    flat = S.generate_solvers(text, locals=locs, **kw)
    return py_build(sh["tree"], lambda k: flat[k])


def run_impl(case):
    from mystic import symbolic as S
    text = case_text(case)
    kw = mystic_args(case)
    locs = dict(case["locals"]) if case["locals"] is not None else None
    obs = {"text": text}
    try:
        conds = build_conditions(case, S, text, locs, kw)
        solvers = py_flat(conds)
        obs["docs"] = [s.__doc__ for s in solvers]
        obs["nest"] = py_nest(conds)
        from mystic import coupler as CP, constraints as CN
        ct = case.get("ctype")
        ctype = py_ctype(ct, CP)
        join = None
        failed = [False]
        if case.get("join"):
            # the combinators return their last vector on success AND on failure; `onfail` (their documented keyword) tells them apart
            def mark(v):
                failed[0] = True
                return v
            _comb = getattr(CN, case["join"])
            join = lambda *members: _comb(*members, onfail=mark)
        if ctype is None and join is None:
            cf = S.generate_constraint(conds)
        else:
            cf = S.generate_constraint(conds, ctype=ctype, join=join)
    except Exception as exc:
        obs["gen_raises"] = "%s: %s" % (type(exc).__name__, exc)
        return obs
    xin = list(case["x"])
    import random as _rnd
    drew = [0]
    _ri, _rr = _rnd.randint, _rnd.random

    def _randint(a, b):
        drew[0] += 1
        return _ri(a, b)

    def _random():
        drew[0] += 1
        return _rr()
    try:
        if join is not None:
            _rnd.randint, _rnd.random = _randint, _random        # constraints.and_/or_ do `import random as rnd` per call
        with warnings.catch_warnings():
            warnings.simplefilter("ignore")
            y = cf(xin)
        obs["y"] = [float(v) for v in y]
        obs["same_object"] = y is xin
    except ZeroDivisionError:
        obs["raises"] = "zerodiv"
    except OverflowError:
        obs["raises"] = "overflow"                      # python's float ** int raises where IEEE gives inf
    except Exception as exc:
        obs["raises"] = "%s: %s" % (type(exc).__name__, exc)
    finally:
        _rnd.randint, _rnd.random = _ri, _rr
    obs["drew"] = drew[0]
    obs["join_failed"] = failed[0]
    if "y" in obs:
        # which solvers leave the output unchanged (fixed-point monitor: such a solver's relation must hold there)
        fx = []
        for sv in solvers:
            try:
                with warnings.catch_warnings():
                    warnings.simplefilter("ignore")
                    z = sv(list(obs["y"]))
                fx.append(all(num_eq(float(a), b) for a, b in zip(z, obs["y"])))
            except Exception:
                fx.append(None)
        obs["fixed"] = fx
    # a function that was generated earlier must keep enforcing ITS relation after other relations are compiled:
    # compile a decoy that binds the same names (tol, rel, and every name of the case's locals) to other values
    if "y" in obs:
        decoy = {"tol": 7.0, "rel": 3.0}
        for name in (locs or {}):
            decoy[name] = 11.0 if name not in ("tol", "rel") else decoy[name]
        try:
            with warnings.catch_warnings():
                warnings.simplefilter("ignore")
                S.generate_constraint(S.generate_solvers("x0 > x1 + 2", locals=decoy, nvars=max(2, case["n"])))([0.0] * max(2, case["n"]))
                # .. and another text with other variable names / another nvars, using the same function names
                S.generate_constraint(S.generate_solvers("q1 = abs(q0) + sqrt(4.)\nq0 <= max(q2, 1.)", variables="q",
                                                         nvars=case["n"] + 3, locals={"tol": 0.25}))([1.0] * (case["n"] + 3))
                if case.get("join") is None:
                    y2 = cf(list(case["x"]))
                else:
                    y2 = obs["y"]                          # the combinators may draw random numbers: not repeatable
            obs["y_again"] = [float(v) for v in y2]
        except Exception as exc:
            obs["y_again"] = "%s: %s" % (type(exc).__name__, exc)
    # self-contained: the function keeps working after mystic.symbolic is re-imported, and when called from several threads
    if "y" in obs and case.get("join") is None and case.get("selfcheck"):
        if case["selfcheck"] == "reload":
            try:
                import importlib
                importlib.reload(S)
                S.generate_solvers("x0 = 1.", nvars=1)
                with warnings.catch_warnings():
                    warnings.simplefilter("ignore")
                    obs["y_reload"] = [float(v) for v in cf(list(case["x"]))]
            except Exception as exc:
                obs["y_reload"] = "%s: %s" % (type(exc).__name__, exc)
        else:
            import threading
            res = [None] * 4

            def work(q):
                try:
                    for _ in range(25):
                        z = [float(v) for v in cf(list(case["x"]))]
                        if res[q] is None or not all(num_eq(a, b) for a, b in zip(z, res[q])):
                            res[q] = z if res[q] is None else "differs between calls: %r / %r" % (res[q], z)
                except Exception as exc:
                    res[q] = "%s: %s" % (type(exc).__name__, exc)
            ths = [threading.Thread(target=work, args=(q,)) for q in range(4)]
            with warnings.catch_warnings():            # not thread-safe: entered once, around all threads
                warnings.simplefilter("ignore")
                [t.start() for t in ths]; [t.join() for t in ths]
            bad = [r for r in res if isinstance(r, str) or r is None or not all(num_eq(a, b) for a, b in zip(r, obs["y"]))]
            obs["y_threads"] = bad[0] if bad else res[0]
    return obs


def shape_kind(code):
    i, e = code
    if e[0] == "min" and e[2] == ("v", i):
        return "upper"
    if e[0] == "max" and e[2] == ("v", i):
        return "lower"
    if e[0] == "+" and e[1] == ("v", i) and e[2][0] == "*" and e[2][1][0] == "equal":
        return "ne"
    return "eq"


REL_SHAPE = {"=": "eq", "==": "eq", "<=": "upper", "<": "upper", ">=": "lower", ">": "lower", "!=": "ne"}


def expected_order(rels):
    """constraints_parser: '!=' lines first (text order), then the others (text order); the tuple is reversed"""
    ne = [k for k, r in enumerate(rels) if r[1] == "!="]
    ot = [k for k, r in enumerate(rels) if r[1] != "!="]
    return list(reversed(ne + ot))


def own_reading(case):
    """python's own reading of how generate_constraint distributes couplers over the flattened solvers (documented behaviour:
    both arguments are flattened and paired one to one; None / one coupler = that coupler for every solver). Returns
    {"groups": positions per member (join) or [all positions], "names": coupler name per position or None where the list
    handed over has no entry for it}"""
    nest = cond_nest(case); m = len(case["rels"])
    ct = case.get("ctype"); join = case.get("join")
    items = nest_top(nest)

    def pair(positions, c):
        if c is None:
            return ["inner"] * len(positions)
        if isinstance(c, str):
            return [c] * len(positions)
        fl_ = ctype_flat(c)
        return [fl_[k] if k < len(fl_) else None for k in range(len(positions))]
    names = [None] * m
    if not join:
        groups = [nest_flat(nest)]
        for k, nmk in zip(groups[0], pair(groups[0], ct)):
            names[k] = nmk
        return {"groups": groups, "names": names}
    groups = [nest_flat(t) for t in items]
    per_member = isinstance(ct, list) and ctype_depth(ct) >= nest_depth(items)
    for q, g in enumerate(groups):
        c = (ct[q] if q < len(ct) else "missing") if per_member else ct
        for k, nmk in zip(g, pair(g, c) if c != "missing" else [None] * len(g)):
            names[k] = nmk
    return {"groups": groups, "names": names}


def build_request(case, obs):
    """align emitted statements with the text's relations; returns (line, info) or (None, reason)"""
    rels = case["rels"]; consts = case.get("consts") or {}
    try:
        codes = [T.parse_assign(d, consts) for d in obs["docs"]]
    except T.Untranslatable as exc:
        return None, "emitted source outside the modelled language: %s" % exc
    if len(codes) != len(rels):
        return None, "%d statements emitted for %d relations" % (len(codes), len(rels))
    want_nest = _untag(cond_nest(case))
    if obs.get("nest") != want_nest:
        return None, "the solvers come back nested as %r, the texts / the hand-made nesting prescribe %r" % (obs.get("nest"), want_nest)
    order = []; exp_order = []; pos = 0
    for blk in block_list(case):
        # every text is parsed on its own: '!=' lines first, then the others, the tuple reversed
        brels = [rels[k] for k in blk]
        exp_b = [blk[q] for q in expected_order(brels)]
        exp_order.extend(exp_b)
        used = set()
        for c in codes[pos:pos + len(blk)]:
            hit = [k for k in blk if k not in used and rels[k][0] == c[0] and REL_SHAPE[rels[k][1]] == shape_kind(c)]
            if not hit:
                hit = [k for k in blk if k not in used and rels[k][0] == c[0]] or [k for k in blk if k not in used]
            # several lines with the same variable and shape: the emission order decides
            pick = [k for k in exp_b if k in hit][0]
            used.add(pick); order.append(pick)
        pos += len(blk)
    tol = (case["locals"] or {}).get("tol", 1e-15); rel = (case["locals"] or {}).get("rel", 1e-15)
    rs = []
    for k in order:
        i, cmp, term = rels[k]
        rs.append("(%d %s %s)" % (i, T.CMP_SYM[cmp], T.sexp(T.parse_expr(T.print_expr(term, T.xj), consts))))
    cs = ["(%d %s)" % (c[0], T.sexp(c[1])) for c in codes]
    body = "(tol %s) (rel %s) (x %s) (rels (%s)) (codes (%s))" % (f2b(tol), f2b(rel), fl(case["x"]), " ".join(rs), " ".join(cs))
    def _has(e, pred):
        return isinstance(e, tuple) and (pred(e) or any(_has(t, pred) for t in e[1:]))
    npfn = any(_has(c[1], lambda e: e[0] == "app1") for c in codes)
    mayraise = any(_has(c[1], lambda e: e[0] == "/" or (e[0] == "app2" and e[3][0] == "n" and e[3][1] < 0)) for c in codes)
    # numpy scalars (the values of sqrt, exp, ..) divide by zero / raise zero to a negative power without raising
    info = {"order": order, "expected_order": exp_order, "inexact": any(T.inexact(c[1]) for c in codes),
            "np_mayraise": npfn and mayraise}
    ct = case.get("ctype"); join = case.get("join")
    own = own_reading(case)
    info["groups"] = own["groups"]; info["names"] = own["names"]
    shaped = bool(case.get("shape")) or (isinstance(ct, list) and (bool(join) or any(isinstance(u, list) for u in ct) or len(ct) != len(codes)))
    if not join:
        # the order in which the composition must run the statements (harness' own reading of the couplers):
        # an inner level runs its solver before everything wrapped so far, an outer level after it
        run = []
        for k, nm in enumerate(own["names"]):
            if nm is not None:
                run = [k] + run if nm.startswith("inner") else run + [k]
        info["run_order"] = run
    if shaped:
        info["mode"] = join or ("ctype" if ct is not None else "default")
        info["op"] = "gcs"
        return "C13 gcs (mode %s) (conds %s) (ctype %s) %s" % (join.rstrip("_") if join else "none", nest_sexp(cond_nest(case)),
                                                              ctype_sexp(ct), body), info
    if join:
        info["mode"] = join
        return "C13 gc (mode %s) %s" % (join.rstrip("_"), body), info
    if ct is not None:
        names = [ct] * len(codes) if isinstance(ct, str) else list(ct)
        if len(names) != len(codes):
            return None, "ctype list does not match the solvers"
        info["mode"] = "ctype"
        return "C13 gc (mode ctype) (ctypes (%s)) %s" % (" ".join(nm.split("_")[0] for nm in names), body), info
    info["mode"] = "default"
    del info["run_order"]
    return "C13 chain " + body, info


# ------------------------------------------------------------------ monitor (independent of the model)
def num_eq(a, b):
    return a == b or (a != a and b != b)


def _safe_eval(term, v, consts):
    with warnings.catch_warnings():
        warnings.simplefilter("ignore")
        return float(T.py_eval(term, v, consts))


def rel_ok(sym, cmp, yi, r1, t):
    """does `y_i <cmp> r1` hold (strictly for strict comparators unless rounding absorbs the tolerance term)"""
    if sym == "lt":
        return (yi <= r1) if not (r1 - t < r1) else (yi < r1)
    if sym == "gt":
        return (yi >= r1) if not (r1 + t > r1) else (yi > r1)
    if sym == "ne":
        return True if (r1 + t * 1.1 == r1) else (yi != r1)
    return T.py_holds(cmp, yi, r1)


def holds_key(case, sym):
    sh = case.get("shape")
    return "solver/holds/%s" % sym if not sh else "compose/%s-solvers/holds/%s" % (sh["how"], sym)


def monitor_fixed(case, obs, info):
    """every solver that leaves the output unchanged has its relation satisfied there (C13.fixed_point_margin on the real
    code; no independence needed); with join=and_ a success satisfies every relation, with join=or_ the relations of at
    least one member (a member = one top-level item of `conditions`: a solver or a whole group)"""
    out = []
    y = obs["y"]; rels = case["rels"]; consts = case.get("consts") or {}
    tol = (case["locals"] or {}).get("tol", 1e-15); rel = (case["locals"] or {}).get("rel", 1e-15)
    if not all(math.isfinite(v) for v in y) or not info or info.get("order") is None:
        return out
    fx = obs.get("fixed") or []
    order = info["order"]
    names = info.get("names") or ["inner"] * len(order)
    groups = info.get("groups") or [[p] for p in range(len(order))]
    usable = True; ok_at = {}
    for pos, k in enumerate(order):
        i, cmp, term = rels[k]
        try:
            r1 = _safe_eval(term, y, consts)
        except (ZeroDivisionError, OverflowError, TypeError, ValueError):
            usable = False; continue
        if not math.isfinite(r1):
            usable = False; continue
        sym = T.CMP_SYM[cmp]
        ok = rel_ok(sym, cmp, y[i], r1, tolf(r1, tol, rel))
        ok_at[pos] = ok
        if pos < len(fx) and fx[pos] is True and not ok:
            out.append(("solver/fixed-point-violates/%s" % sym, "the solver %r leaves %r unchanged although x%d %s %r is false there" %
                        (obs["docs"][pos], y, i, cmp, r1)))
    if not case.get("join") or not usable or obs.get("drew") or obs.get("join_failed") or not all(math.isfinite(v) for v in case["x"]):
        return out
    # a member that holds two lines on one variable has no fixed-point guarantee (the lines of a group run one after the other)
    live = [[p for p in g if names[p] is not None] for g in groups]
    if any(len({rels[order[p]][0] for p in g}) < len(g) for g in live):
        return out
    dropped = any(names[p] is None for g in groups for p in g)
    # and_ declares success when its members' outputs repeat; that means "every member leaves y unchanged" for IDEMPOTENT members
    # (C17.and_success_fixed): single solvers are (C13.member_idem), a group is when its lines do not feed one another
    feeds = any(rels[order[a]][0] in T.term_vars(rels[order[b]][2]) for g in live for a in g for b in g if a != b)
    if case.get("join") == "and_" and case["kind"] != "selfref" and not feeds and not all(ok_at.get(p, True) for g in live for p in g):
        out.append(("join-and/success-but-violated", "generate_constraint(join=and_) reported success (onfail not called, no random draw) with %r "
                    "for x=%r, where not every relation of %r holds (members %r)" % (y, case["x"], obs["text"], groups)))
    if case.get("join") == "or_" and not dropped and not any(all(ok_at.get(p, True) for p in g) for g in live):
        out.append(("join-or/none-holds", "generate_constraint(join=or_) returned %r for x=%r, where the relations of no member hold (%r, members %r)" %
                    (y, case["x"], obs["text"], groups)))
    return out


def monitor(case, obs, info=None):
    """the property's clauses on the implementation's output; returns [(class_key, what)]"""
    out = []
    if "y" not in obs:
        return out
    kind = case["kind"]; consts = case.get("consts") or {}
    x0 = case["x"]; y = obs["y"]; rels = case["rels"]
    tol = (case["locals"] or {}).get("tol", 1e-15); rel = (case["locals"] or {}).get("rel", 1e-15)
    ya = obs.get("y_again")
    if ya is not None and (isinstance(ya, str) or len(ya) != len(y) or any(not (num_eq(a, b) or (a != a and b != b)) for a, b in zip(ya, y))):
        out.append(("solver/changes-after-later-compilation", "the generated constraints function returned %r, and after another relation was compiled (other tol/rel/locals/variables) it returns %r for the same input %r" % (y, ya, x0)))
    for key in ("y_reload", "y_threads"):
        yr = obs.get(key)
        if yr is not None and (isinstance(yr, str) or len(yr) != len(y) or any(not num_eq(a, b) for a, b in zip(yr, y))):
            out.append(("solver/not-self-contained/%s" % key[2:], "the generated constraints function returned %r for %r, but %r %s" %
                        (y, x0, yr, "after mystic.symbolic was re-imported" if key == "y_reload" else "when called from several threads at once")))
    out.extend(monitor_fixed(case, obs, info))
    if kind == "feed" and not case.get("join") and info and info.get("order") is not None and all(math.isfinite(v) for v in y):
        # lines that feed one another: only the relation whose solver runs LAST is claimed (C13.compose_feeding_partial);
        # which one that is follows from the couplers: inner = before, outer = after everything wrapped so far
        run = info["run_order"] if "run_order" in info else list(reversed(range(len(info["order"]))))
        i, cmp, term = rels[info["order"][run[-1]]] if run else rels[0]
        try:
            r1 = _safe_eval(term, y, consts)
        except (ZeroDivisionError, OverflowError, TypeError, ValueError):
            r1 = math.nan
        if run and math.isfinite(r1) and not rel_ok(T.CMP_SYM[cmp], cmp, y[i], r1, tolf(r1, tol, rel)):
            out.append(("compose/last-relation/%s" % T.CMP_SYM[cmp], "the solver of `x%d %s ..` runs last (ctype=%r) but x%d %s %r is false at the output %r (x=%r)" %
                        (i, cmp, case.get("ctype"), i, cmp, r1, y, x0)))
    if kind in ("feed", "selfref") or case.get("join") == "or_" or obs.get("drew"):
        return out                              # outside the hypotheses of the all-relations clause
    if case.get("join") == "and_" and kind == "neqmix":
        return out
    if kind == "neqmix" and case.get("ctype") is not None:
        return out                              # several lines on one variable: only the parser's own order is claimed
    lhs = {r[0] for r in rels}
    # frame
    if len(y) != len(x0) or any(not num_eq(y[j], x0[j]) for j in range(len(x0)) if j not in lhs):
        out.append(("solver/frame", "coordinates other than the left-hand variables changed: x=%r -> %r" % (x0, y)))
        return out
    if not all(math.isfinite(v) for v in x0):
        return out
    forb = {}   # variable -> forbidden values ('!=' lines), for the <=/>= band of the parser's `any(equal(..))` term
    for (i, cmp, term) in rels:
        if cmp == "!=":
            try:
                forb.setdefault(i, []).append(_safe_eval(term, x0, consts))
            except (ZeroDivisionError, OverflowError, TypeError, ValueError):
                pass
    if case.get("join"):
        # constraints.and_ swallows a member's ZeroDivisionError: a text with a relation whose right-hand side is undefined at
        # the point cannot be satisfied there, and the lines grouped with it are not applied either
        for (i, cmp, term) in rels:
            try:
                _safe_eval(term, x0, consts); _safe_eval(term, y, consts)
            except (ZeroDivisionError, OverflowError, TypeError, ValueError):
                return out
    all_margin = True
    # relations whose solver got no coupler (a ctype list shorter than the flattened solvers): recorded class KEY_DROP
    unclaimed = set()
    if info and info.get("names") and info.get("order") is not None:
        unclaimed = {info["order"][p] for p, nmk in enumerate(info["names"]) if nmk is None}
    for kk, (i, cmp, term) in enumerate(rels):
        try:
            r0 = _safe_eval(term, x0, consts); r1 = _safe_eval(term, y, consts)
        except (ZeroDivisionError, OverflowError, TypeError, ValueError):
            return out
        sym = T.CMP_SYM[cmp]
        if r0 != r0 or r1 != r1:
            all_margin = False
            continue                             # the right-hand side is not a number (sqrt / log outside their domain)
        if math.isinf(r0) or math.isinf(r1):
            if (sym == "gt" and r1 == math.inf) or (sym == "lt" and r1 == -math.inf):
                all_margin = False
                continue                         # unsatisfiable in the extended reals
            # overflowing right-hand side (finite input): the relation is still meaningful in the extended reals
            ok_after = T.py_holds(cmp, y[i], r1)
            if kk in unclaimed:
                all_margin = False
                continue                         # its solver never ran (class KEY_DROP, reported on finite right-hand sides)
            if not ok_after or (T.py_holds(cmp, x0[i], r0) and not num_eq(y[i], x0[i]) and sym != "eq"):
                key = KEY_OVF if (y[i] != y[i]) else "solver/rhs-overflows-to-inf/other"
                out.append((key, "%s %s rhs with rhs=%r (overflow at finite x=%r): x_i %r -> %r" % ("x%d" % i, cmp, r0, x0, x0[i], y[i])))
            all_margin = False
            continue
        t = tolf(r1, tol, rel)
        # clause 1: the relation holds on the output (strictly for strict comparators, unless rounding absorbs the tolerance)
        if not rel_ok(sym, cmp, y[i], r1, t):
            if kk in unclaimed:
                out.append((KEY_DROP, "generate_constraint(<solvers nested as %r>, ctype=%r%s): the relation x%d %s %r of %r is not enforced: "
                            "x=%r -> %r" % (_untag(cond_nest(case)), case.get("ctype"), (", join=%s" % case["join"]) if case.get("join") else "",
                                            i, cmp, r1, obs["text"], x0, y)))
            else:
                out.append((holds_key(case, sym), "after the constraint, x%d %s %r is false: x=%r -> %r (tol=%r rel=%r; solvers handed over as %r, ctype=%r, join=%r)" %
                            (i, cmp, r1, x0, y, tol, rel, _untag(cond_nest(case)), case.get("ctype"), case.get("join"))))
        # clause 3: identity on feasible input
        t0 = tolf(r0, tol, rel)
        feasible = T.py_holds(cmp, x0[i], r0)
        if sym == "lt":
            margin = x0[i] <= r0 - t0
        elif sym == "gt":
            margin = x0[i] >= r0 + t0
        elif sym == "le":
            margin = feasible and (x0[i] <= r0 - t0 if r0 in forb.get(i, []) else True)
        elif sym == "ge":
            margin = feasible and (x0[i] >= r0 + t0 if r0 in forb.get(i, []) else True)
        else:
            margin = feasible
        if not (feasible and margin):
            all_margin = False
        if kind == "rel" and feasible and not num_eq(y[i], x0[i]):
            if margin:
                out.append(("solver/identity/%s" % sym, "input already satisfies x%d %s %r but x%d moved %r -> %r" % (i, cmp, r0, i, x0[i], y[i])))
            else:
                out.append((KEY_BAND, "x%d = %r satisfies x%d %s %r but lies within the tolerance band (%r) and is moved to %r" % (i, x0[i], i, cmp, r0, t0, y[i])))
    if kind in ("chain", "neqmix") and all_margin and any(not num_eq(a, b) for a, b in zip(x0, y)):
        out.append(("chain/identity", "every relation already holds (with margin) at x=%r but the output is %r" % (x0, y)))
    return out


# ------------------------------------------------------------------ bounds
def gen_bounds(rng):
    n = rng.choice([1, 2, 2, 3, 4, 5])
    lo = []; hi = []
    flavour = rng.choices(["clean", "digits17", "degenerate", "nobound"], [70, 12, 10, 8])[0]
    for j in range(n):
        k = rng.random()
        if flavour == "nobound":
            lo.append(rng.choice([None, -math.inf])); hi.append(rng.choice([None, math.inf])); continue
        if flavour == "digits17":
            a = rng.uniform(-10, 10) * rng.choice([1, 1e-3, 1e6]); b = a + abs(rng.uniform(0, 5))
        else:
            a = rng.choice([rng.randint(-40, 40) / 4.0, float(rng.randint(-5, 5)), rng.choice([1e300, -1e300, 1e-5, 0.1, 2.5e10])])
            b = a + rng.choice([rng.randint(1, 40) / 4.0, 1.0, 1e3])
            if not b > a:
                b = a * 2 if a > 0 else a / 2
        if flavour == "degenerate" and (j == 0 or k < 0.3):
            b = a
        if k < 0.12:
            a = rng.choice([None, -math.inf])
        elif k < 0.24:
            b = rng.choice([None, math.inf])
        lo.append(a); hi.append(b)
    x = []
    for a, b in zip(lo, hi):
        fa = -1e3 if a in (None, -math.inf) else a
        fb = 1e3 if b in (None, math.inf) else b
        c = [fa, fb, math.nextafter(fa, -math.inf), math.nextafter(fa, math.inf), math.nextafter(fb, -math.inf),
             math.nextafter(fb, math.inf), (fa + fb) / 2, fa - 1.0, fb + 1.0, fa - abs(fa) - 1, fb + abs(fb) + 1, 0.0]
        v = rng.choice(c)
        x.append(v if math.isfinite(v) else fa)
    return {"kind": "bounds", "lo": lo, "hi": hi, "x": x, "symbolic": rng.random() < 0.7, "flavour": flavour}


def run_bounds(case):
    from mystic import constraints as C
    obs = {}
    try:
        with warnings.catch_warnings():
            warnings.simplefilter("ignore")
            import io, contextlib
            buf = io.StringIO()
            with contextlib.redirect_stdout(buf):
                cf = C.boundsconstrain(list(case["lo"]), list(case["hi"]), symbolic=case["symbolic"])
        obs["doc"] = cf.__doc__
    except Exception as exc:
        obs["gen_raises"] = "%s: %s" % (type(exc).__name__, exc)
        return obs
    try:
        with warnings.catch_warnings():
            warnings.simplefilter("ignore")
            y = cf(list(case["x"]))
        obs["y"] = [float(v) for v in y]
    except Exception as exc:
        obs["raises"] = "%s: %s" % (type(exc).__name__, exc)
    return obs


def fin(b, sign):
    return None if (b is None or b == sign * math.inf) else float(b)


def bounds_request(case, obs):
    """model of boundsconstrain(symbolic=True): symbolic_bounds writes 'x_j >= lo_j' for every finite lower bound, then
    'x_j <= hi_j' for every finite upper bound (numbers through repr, exact); generate_solvers/generate_constraint do the rest"""
    docs = [d[len("inner: "):] for d in (obs["doc"] or "").split("\n") if d.startswith("inner: ")]
    try:
        codes = [T.parse_assign(d) for d in docs]
    except T.Untranslatable as exc:
        return None, "emitted source outside the modelled language: %s" % exc
    want = [(j, "ge", fin(a, -1)) for j, a in enumerate(case["lo"]) if fin(a, -1) is not None] + \
           [(j, "le", fin(b, 1)) for j, b in enumerate(case["hi"]) if fin(b, 1) is not None]
    want = list(reversed(want))
    if len(want) != len(codes):
        return None, "%d statements emitted for %d finite bounds" % (len(codes), len(want))
    rs = ["(%d %s (n %s))" % (j, c, f2b(v)) for (j, c, v) in want]
    cs = ["(%d %s)" % (c[0], T.sexp(c[1])) for c in codes]
    line = "C13 chain (tol %s) (rel %s) (x %s) (rels (%s)) (codes (%s))" % (f2b(1e-15), f2b(1e-15), fl(case["x"]), " ".join(rs), " ".join(cs))
    return line, {"codes": codes}


def monitor_bounds(case, obs):
    out = []
    lo = [fin(a, -1) for a in case["lo"]]; hi = [fin(b, 1) for b in case["hi"]]
    tag = "symbolic" if case["symbolic"] else "impose_bounds"
    if "y" not in obs:
        out.append(("boundsconstrain/%s/raises" % tag, "boundsconstrain(%r, %r, symbolic=%r) raised %s" %
                    (case["lo"], case["hi"], case["symbolic"], obs.get("gen_raises") or obs.get("raises"))))
        return out
    x = case["x"]; y = obs["y"]
    bad = []
    for j, (a, b, xj, yj) in enumerate(zip(lo, hi, x, y)):
        want = xj
        if a is not None and want < a:
            want = a
        if b is not None and want > b:
            want = b
        if not (yj == want):
            bad.append((j, xj, yj, want))
    if len(y) != len(x):
        bad.append(("len", len(x), len(y), len(x)))
    if bad:
        out.append(("boundsconstrain/%s/not-clip" % tag, "boundsconstrain(%r, %r, symbolic=%r)(%r) = %r, clip gives %r at coordinate(s) %r" %
                    (case["lo"], case["hi"], case["symbolic"], x, y, [w[3] for w in bad], [w[0] for w in bad])))
    return out


# ------------------------------------------------------------------ shard
def bump(h, k, n=1):
    h[k] = h.get(k, 0) + n


def _uses(t, op):
    return isinstance(t, tuple) and (t[0] == op or any(_uses(u, op) for u in t[1:]))


def inexact_tie(case, obs):
    """a '!=' line whose right-hand side uses exp / log / sin / cos / ** while x_i lies within 4 ulps of it: the last-ulp difference
    between numpy's kernels and libm decides the EQUALITY test itself (the result jumps by 1.1*tol), not a rounding of the result"""
    consts = case.get("consts") or {}
    for (i, cmp, term) in case["rels"]:
        if cmp != "!=" or not any(_uses(term, op) for op in ("exp", "log", "sin", "cos", "pow")):
            continue
        for v in (case["x"], obs.get("y") or case["x"]):
            try:
                r = _safe_eval(term, v, consts)
            except (ZeroDivisionError, OverflowError, TypeError, ValueError):
                continue
            if math.isfinite(r) and math.isfinite(v[i]) and abs(v[i] - r) <= 4 * math.ulp(r):
                return True
    return False


def check_case(case, obs, rep, info, hist):
    """compare model reply and implementation; returns list of Findings"""
    fs = []
    cdesc = {"case": case, "impl": obs, "model": rep, "request": info.get("line")}
    r = parse_reply(rep)
    if r[0] != "ok":
        fs.append(Finding("correspondence", "chain/model-%s" % r[0], "model replied %r" % (rep,), cdesc))
        return fs
    recog = r[1]["recog"]
    if any(b != "true" for b in recog):
        fs.append(Finding("correspondence", "recognise/rejected",
                          "emitted statement(s) %r are not a shape proved to enforce the stated relation (recog=%r)" %
                          ([d for d, b in zip(obs.get("docs", []), recog) if b != "true"], recog), cdesc))
    if case["kind"] not in ("selfref",) and any(b != "true" for b in r[1]["free"]):
        fs.append(Finding("correspondence", "recognise/not-free", "left-hand variable occurs in the emitted right-hand side / "
                          "!= factor although the text's right-hand side does not mention it (free=%r)" % (r[1]["free"],), cdesc))
    if info.get("order") is not None and info["order"] != info["expected_order"]:
        fs.append(Finding("correspondence", "parser/emission-order", "statements emitted in order %r, model expects %r" %
                          (info["order"], info["expected_order"]), cdesc))
    mres = r[1]["res"]
    mode = info.get("mode", "default")

    def close(my, iy):
        """inexact functions (exp/log/sin/cos: numpy's kernels vs libm; ** : C pow): toleranced, separately counted"""
        return len(my) == len(iy) and all(num_eq(a, b) or (math.isfinite(a) and math.isfinite(b) and abs(a - b) <= 1e-6 * (1 + abs(a)))
                                          or (not math.isfinite(a) and not math.isfinite(b)) for a, b in zip(my, iy))

    def compare(my):
        if "y" not in obs:
            if obs.get("raises") == "overflow" and any(not math.isfinite(v) for v in my):
                bump(hist, "res:overflow-vs-inf")
                return
            fs.append(Finding("correspondence", "chain/diverges", "implementation raised %r, model gives %r" % (obs.get("raises"), my), cdesc))
        elif same_vec(my, obs["y"]):
            bump(hist, "cmp:bit-exact" + (":inexact-fn" if info.get("inexact") else ""))
        elif info.get("inexact") and close(my, obs["y"]):
            bump(hist, "cmp:toleranced-inexact-fn")
        elif info.get("inexact") and inexact_tie(case, obs):
            bump(hist, "cmp:inexact-fn-decides-equality-skipped")
        else:
            fs.append(Finding("correspondence", "chain/diverges" if mode in ("default", "ctype") else "join/diverges",
                              "result model=%r impl=%r (mode %s)" % (my, obs["y"], mode), cdesc))
    if mres == "generr":
        fs.append(Finding("correspondence", "shape/generation", "the model's generate_constraint runs out of couplers (RuntimeError), the implementation built %r" %
                          (obs.get("y", obs.get("raises")),), cdesc))
        return fs
    if info.get("op") == "gcs" and mode in ("default", "ctype") and "used" in r[1]:
        # the solvers that take part: the model's zip vs the harness' own reading of the documented pairing
        used = sorted(int(v) for v in r[1]["used"])
        mine = sorted(p for p, nmk in enumerate(info.get("names") or []) if nmk is not None)
        if used != mine:
            fs.append(Finding("correspondence", "shape/solvers-taking-part", "the model composes the solvers %r, the documented pairing gives %r" % (used, mine), cdesc))
    if (mode == "ctype" or info.get("op") == "gcs") and mode in ("default", "ctype") and mres == "value":
        # the statements must run in the order the couplers prescribe (model `order`, head = applied last)
        want = [codes_i for codes_i in reversed([int(v) for v in r[1].get("order", [])])]
        have = [T.parse_assign(obs["docs"][k], case.get("consts") or {})[0] for k in info["run_order"]]
        if want != have:
            fs.append(Finding("correspondence", "compose/order", "model applies targets %r, the couplers prescribe %r" % (want, have), cdesc))
    if mode in ("and_", "or_") and "groups" in r[1]:
        theirs = [[int(v) for v in g] for g in r[1]["groups"]]
        names_ = info.get("names") or []
        mine = [[p for p in g if names_[p] is not None] for g in (info.get("groups") or [])]
        if theirs != mine:
            fs.append(Finding("correspondence", "shape/members", "the model joins the members %r, the documented grouping gives %r" % (theirs, mine), cdesc))
    if mode in ("and_", "or_"):
        bump(hist, "join:%s:%s" % (mode, mres))
        drew = obs.get("drew", 0)
        my_ = floats_of(r[1]["y"]) if "y" in r[1] else []
        nan = any(v != v for v in obs.get("y", [])) or any(v != v for v in case["x"]) or any(v != v for v in my_)
        if nan:
            bump(hist, "join:nan-skipped")         # python compares list items by identity first: nan == nan there
        elif "y" not in obs:
            if obs.get("raises") == "overflow":
                bump(hist, "join:overflow-skipped")  # python's float ** raises OverflowError, which the combinators do not catch
            else:
                fs.append(Finding("correspondence", "join/diverges", "implementation raised %r, model %s" % (obs.get("raises"), rep), cdesc))
        elif info.get("np_mayraise") and (mres != "success" or drew or obs.get("join_failed") or not same_vec(my_, obs["y"])):
            bump(hist, "join:numpy-scalar-no-raise-skipped")
        elif mres == "stuck":
            if not drew:
                fs.append(Finding("correspondence", "join/draws", "the model needs a random draw, the implementation drew none (result %r)" % (obs.get("y"),), cdesc))
            else:
                bump(hist, "join:random-draws-skipped")
        elif drew:
            fs.append(Finding("correspondence", "join/draws", "the implementation drew %d random numbers, the model needs none (model %s)" % (drew, rep), cdesc))
        else:
            compare(floats_of(r[1]["y"]))
            if (mres == "fail") != bool(obs.get("join_failed")):
                fs.append(Finding("correspondence", "join/verdict", "model says %s, the implementation %s onfail" %
                                  (mres, "called" if obs.get("join_failed") else "did not call"), cdesc))
            if mres == "success":
                bump(hist, "join:%s:calls=%s" % (mode, r[1].get("calls")))
        return fs
    if mres == "raises":
        bump(hist, "res:raises")
        if "raises" in obs and obs["raises"] in ("zerodiv", "overflow"):
            pass
        elif "y" in obs and (any(not math.isfinite(v) for v in obs["y"]) or info.get("np_mayraise")):
            bump(hist, "res:raises-vs-numpy-inf")          # numpy scalars divide by zero without raising
        else:
            fs.append(Finding("correspondence", "chain/diverges", "model raises (zero division / index), implementation gave %r" %
                              (obs.get("y", obs.get("raises")),), cdesc))
    else:
        compare(floats_of(r[1]["y"]))
    return fs


def run_shard(pid, seed, shard, ncases, tier, extra):
    common.import_mystic()
    items = []; lines = []; findings = []; hist = {}; samples = []
    nb = max(2, ncases // 6)
    for k in range(ncases + nb):
        if k < ncases:
            rng = case_rng(PID, seed, shard, k)
            case = gen_case(rng)
            finalize_point(rng, case)
            gen_shape(rng, case)
            obs = run_impl(case)
            bump(hist, "kind:" + case["kind"])
            if "gen_raises" in obs or ("raises" in obs and obs["raises"] not in ("zerodiv", "overflow")):
                findings.append(Finding("monitor", "solver/raises", "generate_solvers/constraint raised %s on %r" %
                                        (obs.get("gen_raises") or obs.get("raises"), obs["text"]), {"case": case, "impl": obs}))
                continue
            line, info = build_request(case, obs)
            mon = monitor(case, obs, info if line else None)
        else:
            rng = case_rng(PID + "/bounds", seed, shard, k - ncases)
            case = gen_bounds(rng)
            obs = run_bounds(case)
            bump(hist, "bounds:%s:%s" % ("symbolic" if case["symbolic"] else "impose_bounds", case["flavour"]))
            mon = monitor_bounds(case, obs)
            line, info = (None, "not symbolic")
            if case["symbolic"] and "doc" in obs:
                line, info = bounds_request(case, obs)
            elif "gen_raises" in obs:
                info = "not symbolic"
        for key, what in mon:
            findings.append(Finding("monitor", key, what, {"case": case, "impl": obs}))
        if line is None:
            if info != "not symbolic":
                findings.append(Finding("correspondence", "translator/untranslatable", str(info), {"case": case, "impl": obs}))
            else:
                items.append((case, obs, None, {}))
            continue
        info["line"] = line
        items.append((case, obs, len(lines), info))
        lines.append(line)
    replies = leandrv.run_driver(lines)
    nontrivial = 0
    for case, obs, li, info in items:
        if li is None:
            continue
        fs = check_case(case, obs, replies[li], info, hist)
        findings.extend(fs)
        if case["kind"] == "bounds":
            moved = "y" in obs and any(not num_eq(a, b) for a, b in zip(case["x"], obs["y"]))
            bump(hist, "bounds:moved" if moved else "bounds:inside")
            nontrivial += 1 if moved else 0
            continue
        for (i, cmp, term) in case["rels"]:
            bump(hist, "cmp:" + T.CMP_SYM[cmp])
        bump(hist, "nvars>=11" if case["n"] >= 11 else "nvars<11")
        bump(hist, "scheme:" + case["scheme"][0]); bump(hist, "regime:" + case["regime"])
        bump(hist, "mode:" + info.get("mode", "default") + ":" + case["kind"])
        sh_ = case.get("shape")
        bump(hist, "shape:%s:join=%s:ctype=%s" % (sh_["how"] if sh_ else "text", case.get("join"), case.get("ctype_form", "-")))
        if sh_:
            nst = cond_nest(case)
            bump(hist, "shape-depth:%d" % nest_depth(nest_top(nst)))
            if len(nest_top(nst)) < len(case["rels"]):
                bump(hist, "shape:outer-shorter-than-solvers")
            if any(isinstance(u, list) and not nest_flat(u) for u in nest_top(nst)):
                bump(hist, "shape:empty-group")
        if case.get("rich"):
            bump(hist, "rich:" + case["rich"])
            for op in ("pow", "abs", "max", "min", "sum", "mean", "spread") + tuple(T.FUNCS1):
                if any(_uses(t, op) for (_, _, t) in case["rels"]):
                    bump(hist, "fn:" + op)
        if case.get("consts"):
            bump(hist, "locals:shadowing" if any(k in ("e", "tau", "pi", "gamma", "euler_gamma", "inf") for k in case["consts"]) else "locals:names")
        for key in ("y_reload", "y_threads"):
            if key in obs:
                bump(hist, "selfcontained:" + key[2:])
        for f in (obs.get("fixed") or []):
            bump(hist, "fixed:%s" % f)
        moved = "y" in obs and any(not num_eq(a, b) for a, b in zip(case["x"], obs["y"]))
        bump(hist, "moved" if moved else "unchanged")
        if moved:
            nontrivial += 1
        if len(samples) < 2 and moved and not fs:
            samples.append({"text": obs["text"], "variables": mystic_args(case), "locals": case["locals"], "x": case["x"],
                            "emitted": obs.get("docs"), "impl_y": obs.get("y"), "request": info["line"], "model": replies[li]})
    return {"evaluations": len(items), "nontrivial": nontrivial, "model_lines": len(lines), "findings": findings,
            "samples": samples, "hist": hist}


# ------------------------------------------------------------------ fixed witnesses (known findings; run first)
def witnesses():
    common.import_mystic()
    out = []
    # F9: strictly feasible point inside the tolerance band is moved
    case = {"kind": "rel", "regime": "small", "n": 2, "scheme": ("base", "x", True), "locals": None,
            "rels": [(0, "<", ("v", 1))], "x": [1.0 - 1e-16 * 4, 1.0]}
    case["x"][0] = math.nextafter(1.0, 0.0)
    obs = run_impl(case)
    for key, what in monitor(case, obs):
        out.append(Finding("monitor", key, what, {"case": case, "impl": obs}))
    # overflowing right-hand side -> nan
    case = {"kind": "rel", "regime": "huge", "n": 2, "scheme": ("base", "x", True), "locals": None,
            "rels": [(0, "<=", ("*", ("v", 1), ("n", "10")))], "x": [1.0, 1e308]}
    obs = run_impl(case)
    for key, what in monitor(case, obs):
        out.append(Finding("monitor", key, what, {"case": case, "impl": obs}))
    # a ctype list as long as the OUTER sequence of nested solvers: zip() drops the trailing solvers
    case = {"kind": "chain", "regime": "small", "n": 3, "scheme": ("base", "x", True), "locals": None,
            "rels": [(0, "=", ("n", "1.")), (1, "=", ("n", "2.")), (2, "=", ("n", "3."))], "x": [0.0, 0.0, 0.0],
            "shape": {"how": "blocks", "blocks": [[0, 1], [2]], "tree": ["T", 0, 1]}, "ctype": ["inner", "outer"], "join": None,
            "ctype_form": "outer-length"}
    obs = run_impl(case)
    line, info = build_request(case, obs)
    for key, what in monitor(case, obs, info if line else None):
        out.append(Finding("monitor", key, what, {"case": case, "impl": obs}))
    for lo, hi, x in [([0.1 + 0.2], [1.0], [0.0]), ([1.5, 0.0], [1.5, 1.0], [0.0, 3.0]), ([None, None], [None, math.inf], [1.0, 2.0])]:
        case = {"kind": "bounds", "lo": lo, "hi": hi, "x": x, "symbolic": True, "flavour": "witness"}
        obs = run_bounds(case)
        for key, what in monitor_bounds(case, obs):
            out.append(Finding("monitor", key, what, {"case": case, "impl": obs}))
    return out


def replay(path):
    common.import_mystic()
    data = json.load(open(path))
    c = data.get("case")
    if c is None and data.get("correspondence_not_checking"):
        c = data["correspondence_not_checking"][0].get("case")      # a 'no-failing-input-found' replay
    case = c.get("case") if isinstance(c, dict) else None
    if not case:
        print("replay: no stored case in %s" % path); return 2
    def unj(o):
        if isinstance(o, dict) and set(o) == {"float"}:
            return float(o["float"])
        if isinstance(o, dict):
            return {k: unj(v) for k, v in o.items()}
        if isinstance(o, list):
            return [unj(v) for v in o]
        return o
    case = unj(case)
    if case["kind"] == "bounds":
        obs = run_bounds(case); mon = monitor_bounds(case, obs)
        line, info = bounds_request(case, obs) if (case["symbolic"] and "doc" in obs) else (None, "not symbolic")
    else:
        def tup(t):
            return tuple(tup(u) if isinstance(u, list) else u for u in t)
        case["rels"] = [(r[0], r[1], tup(r[2])) for r in case["rels"]]
        case["scheme"] = tuple(case["scheme"])
        for key in ("rich", "consts", "ctype", "join", "selfcheck", "shape"):
            case.setdefault(key, None)
        obs = run_impl(case)
        line, info = build_request(case, obs) if "docs" in obs else (None, "generation raised")
        mon = monitor(case, obs, info if line else None)
    print("implementation:", obs)
    rc = 0
    if line:
        rep = leandrv.run_driver([line])[0]
        print("model:", rep)
        info["line"] = line
        for f in check_case(case, obs, rep, info, {}):
            print("CORRESPONDENCE %s: %s" % (f["class_key"], f["what"])); rc = 1
    known = {e["class_key"] for e in framework.load_known(PID)}
    for key, what in mon:
        if key in known:
            print("KNOWN-FINDING: property=%s %s [%s]" % (PID, what, key))
        else:
            print("VIOLATION property=%s replay=%s" % (PID, path)); print("  ", key, what); rc = 1
    return rc


def main(tier, seed):
    t0 = time.time()
    proof = framework.proof_stage(PID, MODULE, THEOREMS, tier)
    nshards, per = (16, 300) if tier == "quick" else (64, 8000)
    run = framework.run_shards("c13", "run_shard", PID, seed, nshards, per, tier)
    run["findings"] = witnesses() + run["findings"]

    def search_more():
        r = framework.run_shards("c13", "run_shard", PID, seed + 7919, 32, 600, tier)
        return r["findings"]
    rule = ("cases: generated constraint texts (1-4 lines, every comparator incl. '==', right-hand sides of depth 0-3 over "
            "+ - * / unary minus, and in 45% of the small-regime cases ** (exponents -2..4), abs, min/max (2-3 arguments, ties), sqrt floor ceil "
            "exp log sin cos, sum/mean/spread over variable lists, names bound through locals= (incl. names shadowing math/numpy names), "
            "with int / float / huge / tiny literals, 1-13 variables, base-name and named-variable schemes, "
            "nvars given or inferred, default and custom tol/rel) compiled by the real generate_solvers/generate_constraint - default nesting, "
            "ctype= one coupler or one per solver out of inner/outer/inner_proxy/outer_proxy (22%), join=and_ (14%), join=or_ (10%) - and "
            "evaluated at points placed on the boundary, one ulp either side, on/around the tolerance band, huge and tiny "
            "magnitudes; 6% of the cases re-check the function after re-importing mystic.symbolic or from 4 threads; "
            "ARGUMENT SHAPES (42% of the cases): the relations reach generate_constraint as a tuple / list / nesting of TEXTS handed to "
            "generate_solvers (17%: a tuple of tuples of solvers, one-element tuples, empty texts), as a hand-made nesting of the solvers of "
            "one text (16%: lists and tuples up to 4 levels, empty groups, one-element wrappers), as ONE solver function outside any "
            "sequence, as a numpy object array; ctype = None / one coupler / a flat list / a list nested like the solvers / nested "
            "differently / longer than needed / (own class) as long as the outer sequence; with join= every top-level item is one member "
            "(groups), ctype = None / one / one entry per member / one list handed whole to every member; "
            "plus boundsconstrain(symbolic=True/False). non-trivial = the compiled function changed the input")
    tb = ["Lean 4.33 kernel; axioms per theorem listed under coverage.theorems",
          "translator harness/symtrans.py (python ast -> Emitted.Expr) is untrusted but validated per case: the Lean evaluation of "
          "the translated statements must reproduce the real compiled function bit for bit",
          "the relation a text states is the generator's own structure printed to text (never read back from mystic)",
          "recognise (Model/Emitted.lean) is proved sound in Props/C13.lean; it is run on what the current tree emits",
          "composition modes: Model/EmittedJoin.lean (compose = the coupler fold; joinAnd/joinOr = Model/Combinators and_/or_ over the solver "
          "members); the driver runs compose? / joinAnd / joinOr with an empty draw stream: a run that needs a random draw is 'stuck' and must "
          "coincide with the implementation drawing (random.randint/random patched to count); success/failure of the combinators is observed "
          "through their documented onfail keyword",
          "argument shapes: Model/EmittedShape.lean (Nest, flatten, the coupler list sized by the FLATTENED length, zip, nc/nt and the members "
          "of a joined constraint); the driver op `gcs` runs gcItems/compose? and gcMembers/joinAndG/joinOrG on the nesting the GENERATOR "
          "prescribes (the nesting of what generate_solvers returns is compared with it first); the harness' own reading of the documented "
          "pairing (which solver gets which coupler, which solvers form a member) is compared with the model's (`used`, `groups`)",
          "boundsconstrain(symbolic=True): symbolic_bounds' text is modelled as the relation list x_j >= lo_j.., x_j <= hi_j..; "
          "boundsconstrain(symbolic=False) is monitored only (impose_bounds belongs to C16)"]
    assumptions = ["IEEE binary64 + - * / and comparisons agree between Lean Float and CPython/numpy scalars",
                   "division by zero: python floats raise, numpy scalars give inf/nan; both count as 'raises' for the model",
                   "strictness / '!=' are checked on the implementation only where rounding does not absorb the tolerance term "
                   "(rhs -+ tol(rhs) != rhs); the theorems are over ordered fields",
                   "sqrt floor ceil abs are IEEE-exact; exp log sin cos (numpy kernels vs libm) and ** (C pow) may differ in the last ulps: "
                   "a 1e-6 tolerance applies to cases that use them and is counted separately (cmp:toleranced-inexact-fn); "
                   "sum/mean/spread are compared in the exactness regime (dyadic points: every partial sum exact); where such a function is the "
                   "right-hand side of a '!=' line and x_i lies within 4 ulps of it, the last-ulp difference decides the equality test itself: "
                   "not compared (cmp:inexact-fn-decides-equality-skipped)",
                   "numpy scalars (values of sqrt, exp, ..) do not raise on division by zero / 0**negative; python floats do: cases that mix both "
                   "are accepted when model and code differ only in that (counted: res:raises-vs-numpy-inf, join:numpy-scalar-no-raise-skipped)",
                   "python compares list items by identity before ==, so a nan inside a vector equals itself in constraints.and_/or_: join cases "
                   "with a nan anywhere are not compared (join:nan-skipped); runs that draw random numbers are not compared (join:random-draws-skipped)"]
    return framework.finish(PID, tier, seed, t0, proof, run, rule, tb, assumptions, search_more=search_more)
