"""C11 - dimensional collapse is detected per definition, applied exactly, reported once.

Streams (all generated from common.case_rng, one PRNG per case):
  det     the four real detectors collapse_at / collapse_as / collapse_weight / collapse_position on generated
          monitors vs the Lean model (Model/Collapse.lean) - bit-exact on the returned members / the error enum;
          monitor: the documented definition evaluated directly on the window, own-output-as-mask through the
          REAL mask.update_mask + termination.state round trip
  upd     mask.update_mask on And/Or/When trees of real termination conditions vs the model; monitor: shape and
          settings preserved, masks only grow, targeted masks grow by the collapse
  solver  real solvers with a Collapse* termination Or-ed with a stop condition on objectives with flat / zero /
          tied directions: every cost argument after a collapse and the final solution satisfy the relation,
          state() masks before/after every Collapse, never reported twice, Solve returns; the sequence of
          reports is replayed through the model of the collapse loop (Lean bound `collapse_loop_terminates`)
  apply   detector -> constraint, as Collapse() does it: the REAL collapse_as on a history whose close pairs form a
          generated NON-TRANSITIVE graph (single pair, chain {(i,k),(j,k)} with the shared parameter at the lowest /
          middle / highest index, stars, paths, trees, cliques, several components, random), then the REAL
          impose_as(<that very set>, False) and tools.connected on a parameter vector; groups and result compared
          bit-exactly with Model/CollapseApply.lean (pairs in the real iteration order of the set); monitor: every
          reported pair exactly equal, each component set to one of its members' own values, every other parameter
          untouched (theorems applied_pairs_equal_partial / applied_component_equal_partial / applied_frame; the
          hypothesis noBridge is evaluated by the model on every case)
  chain   real solvers on objectives whose optimum has a chain of parameters (consecutive members within the
          tolerance of each other, members two apart not): collapsed in ONE step (converge first, then install
          Or(CollapseAs, stop) and Solve again; Powell also in one phase) or across steps; same monitors as `solver`
  cost / csolver   bounds collapse (collapse_cost, CollapseCost, Collapse() -> impose_bounds): see c11_cost.py
  uneven  collapse_weight / collapse_position on product measures whose factors have different sizes (uneven_case)
A failing relation is put into a recorded class (F21 overwritten by a later-running collapse constraint, F26 groups of
tools.connected not merged) only when the composition of the UNCHANGED code itself breaks it (predict_composed).
"""
import sys, time, json, math, random as _random
import common
from common import case_rng, fl, fll, f2b, parse_reply, dyadic
import framework, leandrv
from framework import Finding
import c11_measure as cm
import c11_cost as cc

PID = "C11"
MODULE = "MysticVerif.Props.C11"
THEOREMS = [
    "MysticVerif.C11.lastN_window",
    "MysticVerif.C11.maxL_le_iff",
    "MysticVerif.C11.ptp_le_iff",
    "MysticVerif.C11.collapse_at_spec",
    "MysticVerif.C11.collapse_at_spec_window",
    "MysticVerif.C11.collapse_at_target_spec_window",
    "MysticVerif.C11.own_output_as_mask_is_empty_at",
    "MysticVerif.C11.collapse_as_spec",
    "MysticVerif.C11.collapse_as_spec_window",
    "MysticVerif.C11.asMasked_iff",
    "MysticVerif.C11.own_output_as_mask_is_empty_as",
    "MysticVerif.C11.weight_mask_formats",
    "MysticVerif.C11.collapse_weight_spec",
    "MysticVerif.C11.own_output_as_mask_is_empty_weight",
    "MysticVerif.C11.position_mask_formats",
    "MysticVerif.C11.collapse_position_spec",
    "MysticVerif.C11.own_output_as_mask_is_empty_position",
    "MysticVerif.C11.position_where_list_pairs_ignored_witness",
    "MysticVerif.C11.extend_mask_grows",
    "MysticVerif.C11.update_mask_grows",
    "MysticVerif.C11.update_mask_applies",
    "MysticVerif.C11.not_reported_again",
    "MysticVerif.C11.collapse_chain_bounded",
    "MysticVerif.C11.collapse_loop_terminates",
    "MysticVerif.C11.connected_pair_in_group",
    "MysticVerif.C11.applied_length",
    "MysticVerif.C11.applied_pairs_equal_partial",
    "MysticVerif.C11.applied_component_equal_partial",
    "MysticVerif.C11.applied_frame",
    "MysticVerif.C11.oneComponentOrder_noBridge",
    "MysticVerif.C11.star_noBridge",
    "MysticVerif.C11.applied_star_equal",
    "MysticVerif.C11.applied_bridged_pair_not_tied_witness",
    "MysticVerif.C11.measure_applied_pairs_equal",
    "MysticVerif.C11.measure_applied_weights_zero",
    "MysticVerif.C11.impose_measure_applied_exact",
    "MysticVerif.C11.impose_measure_other_order_witness",
    "MysticVerif.C11.applied_weight_reweighted_by_older_round_witness",
    "MysticVerif.C11.oldest_round_runs_last",
    "MysticVerif.C11.oldest_round_pairs_equal",
    "MysticVerif.C11.cost_interval_intersection_sound",
    "MysticVerif.C11.cost_interval_intersection_complete",
    "MysticVerif.C11.own_output_as_mask_is_empty_cost",
    "MysticVerif.C11.cost_upper_adds_count_witness",
    "MysticVerif.C11.cost_clip_drops_good_region_witness",
    "MysticVerif.C11.cost_own_output_degenerate_witness",
    "MysticVerif.C11.cost_masked_parameter_dropped_witness",
    "MysticVerif.C11.cost_documented_spelling_compares_by_content",
    "MysticVerif.C11.cost_nothing_found_reports_nothing",
    "MysticVerif.C11.cost_mask_other_container_reported_again_witness",
]

ERR = {"ValueError": "value", "TypeError": "type", "IndexError": "index"}


def bump(h, k, n=1):
    h[k] = h.get(k, 0) + n


def ints(xs):
    return "(" + " ".join(str(int(v)) for v in xs) + ")"


# ------------------------------------------------------------------ histories
def gen_values(rng):
    k = rng.random()
    if k < 0.5:
        return dyadic(rng, -4, 4, 8)
    if k < 0.8:
        return rng.randint(-3, 3) * 1.0
    return rng.randint(-4096, 4096) / 1024.0


def gen_history(rng, n, T, special):
    """rows (oldest first), T x n, made of flat / drifting / tied / near / jump / random columns"""
    cols = []
    kinds = []
    for i in range(n):
        kind = rng.choice(["flat", "flat", "drift", "tied", "tiedoff", "near", "jump", "random"])
        if kind in ("tied", "tiedoff") and not cols:
            kind = "flat"
        c0 = gen_values(rng)
        if kind == "flat":
            col = [c0] * T
        elif kind == "drift":
            d = rng.choice([1 / 1024.0, 1 / 64.0, 0.125, -0.25, 1.0])
            col = [c0 + t * d for t in range(T)]
        elif kind == "tied":
            src = rng.choice(cols)
            col = list(src)
        elif kind == "tiedoff":
            src = rng.choice(cols)
            off = rng.choice([0.5, -1.0, 1 / 256.0, 2.0])
            wob = rng.choice([0.0, 0.0, 1 / 1024.0])
            col = [v + off + (wob if t % 2 else 0.0) for t, v in enumerate(src)]
        elif kind == "near":
            a = rng.choice([1 / 1024.0, 1 / 256.0, 1 / 16.0])
            col = [c0 + a * rng.randint(-2, 2) for _ in range(T)]
        elif kind == "jump":
            at = rng.randrange(T) if T else 0
            j = rng.choice([1.0, -2.0, 0.25])
            col = [c0 + (j if t < at else 0.0) for t in range(T)]
        else:
            col = [gen_values(rng) for _ in range(T)]
        cols.append(col); kinds.append(kind)
    rows = [[cols[i][t] for i in range(n)] for t in range(T)]
    if special and T and n:
        for _ in range(rng.randint(1, 2)):
            rows[rng.randrange(T)][rng.randrange(n)] = rng.choice([math.inf, -math.inf, math.nan, -0.0, 1e300, -1e300])
    return rows, kinds


def gen_generations(rng, T):
    return rng.choice([None, 0, 1, 1, 2, 2, 3, max(T - 1, 0), T, T + 1, T + 5, 50, -1, -T, -(T + 1), max(T // 2, 1)])


def is_finite_rows(rows):
    return all(all(isinstance(v, float) and math.isfinite(v) for v in r) for r in rows)


def ref_window(rows, g):
    """the documented window: the last g records (None: the whole history); only used for g None or >= 1"""
    if g is None:
        return rows
    return rows[max(0, len(rows) - g):]


# reference statistics (plain Python floats, same IEEE operations as the definition)
def ref_ptp(col):
    return max(col) - min(col)


def ref_maxabs(col, t):
    return max(abs(v - t) for v in col)


def ref_pairstat(w, i, j, offset):
    d = [abs(r[i] - r[j]) for r in w]
    return (max(d) - min(d)) if offset else max(d)


def pick_tol(rng, stats):
    stats = [s for s in stats if s == s]
    k = rng.random()
    if stats and k < 0.55:
        s = rng.choice(stats)
        return rng.choice([s, s, math.nextafter(s, math.inf), math.nextafter(s, -math.inf)])
    if k < 0.65:
        return 0.0
    if k < 0.75:
        return rng.choice([0.005, 1e-4, 1 / 1024.0])
    if k < 0.82:
        return rng.choice([-1.0, -0.0, -1e-300])
    if k < 0.88:
        return math.inf
    return rng.choice([0.5, 1.0, 3.0, 10.0])


# ------------------------------------------------------------------ masks of collapse_at / collapse_as
def gen_setmask(rng, det, n, likely):
    """returns (python mask, model s-expression, class)"""
    k = rng.random()
    if k < 0.22:
        return None, "none", "None"
    if k < 0.32:
        obj = rng.choice([[0], (0, 1), {0: {1}}, frozenset([0]), 0, [], ()])
        return obj, "other", "not-a-set"
    elems = []
    sx = []
    cls = "set"
    m = rng.choice([0, 1, 1, 2, 3])
    for _ in range(m):
        q = rng.random()
        if q < 0.5 or det == "at" and q < 0.85:
            i = rng.choice(likely) if likely and rng.random() < 0.6 else rng.randint(-2, n + 1)
            if isinstance(i, tuple):
                i = i[0]
            elems.append(int(i)); sx.append(str(int(i)))
        elif q < 0.93:
            if likely and rng.random() < 0.6 and isinstance(likely[0], tuple):
                p = rng.choice(likely)
            else:
                p = (rng.randint(-1, n), rng.randint(-1, n))
            if rng.random() < 0.4:
                p = (p[1], p[0])
            elems.append((int(p[0]), int(p[1]))); sx.append("(q %d %d)" % p)
        else:
            p = rng.choice([(0, 1, 2), (1,), ()])
            elems.append(p); sx.append("(q%s)" % "".join(" %d" % v for v in p))
    mask = set(elems)
    # rebuild the s-expression from the set (duplicates collapse)
    sx = []
    for e in mask:
        sx.append(str(e) if isinstance(e, int) else "(q%s)" % "".join(" %d" % v for v in e))
    if any(isinstance(e, tuple) and (det == "at" or len(e) != 2) for e in mask):
        cls = "set-bad-element"
    elif any(isinstance(e, tuple) for e in mask):
        cls = "set-pairs"
    return mask, "(set (%s))" % " ".join(sx), cls


# ------------------------------------------------------------------ measure masks
def gen_wmask(rng, m, k, hits):
    """collapse_weight masks; hits = list of (measure, index) likely to be reported"""
    def cell():
        if hits and rng.random() < 0.6:
            return tuple(int(v) for v in rng.choice(hits))
        return (rng.randint(-1, m), rng.randint(-1, k))
    q = rng.random()
    if q < 0.14:
        return None, "none", "None"
    if q < 0.34:    # set of (measure, index)
        cells = set(cell() for _ in range(rng.choice([0, 1, 2, 3])))
        bad = None
        if rng.random() < 0.2:
            bad = rng.choice([3, (0, 0, 1), (0.5, 1), (0, (1, 2)), (1,)])
            cells.add(bad)
        sx = " ".join("bad" if e is bad and bad is not None else "(%d %d)" % e for e in cells)
        return cells, "(set (%s))" % sx, "set-bad" if bad is not None else "set"
    if q < 0.56:    # dict {measure: {indices}}
        d = {}
        for _ in range(rng.choice([0, 1, 2, 3])):
            a, i = cell()
            d.setdefault(a, set()).add(i)
        if rng.random() < 0.15:
            d.setdefault(rng.randint(0, m), set())
        bad = None
        if rng.random() < 0.2:
            bad = rng.choice(["list", "fkey", "pairs", "skey"])
            if bad == "list":
                d[7] = [0]
            elif bad == "fkey":
                d[0.5] = {0}
            elif bad == "pairs":
                d[7] = {(0, 1)}
            else:
                d["a"] = {0}
        sx = []
        for a, s in d.items():
            if bad is not None and (a in (7, 0.5, "a")):
                sx.append("bad")
            else:
                sx.append("(%d %s)" % (a, ints(sorted(s))))
        return d, "(dict (%s))" % " ".join(sx), "dict-bad" if bad else "dict"
    if q < 0.78:    # where
        cells = [cell() for _ in range(rng.choice([0, 1, 2, 3]))]
        ms = [c[0] for c in cells]; is_ = [c[1] for c in cells]
        ragged = rng.random() < 0.15
        if ragged:
            is_ = is_ + [0]
        cont = rng.choice([tuple, tuple, list])
        inner = rng.choice([tuple, tuple, list])
        obj = cont((inner(ms), inner(is_)))
        return obj, "(where %s %s)" % (ints(ms), ints(is_)), ("where-ragged" if ragged else "where")
    if q < 0.88:
        obj = rng.choice([(), []])
        return obj, "empty", "empty-seq"
    obj = rng.choice([5, (1, 2, 3), (0, 1), "abc", 2.5, [1, 2, 3, 4]])
    return obj, "other", "other"


def gen_pmask(rng, m, k, hits):
    """collapse_position masks; hits = list of (measure, i, j)"""
    def cell():
        if hits and rng.random() < 0.6:
            a, i, j = (int(v) for v in rng.choice(hits))
        else:
            a, i, j = rng.randint(-1, m), rng.randint(-1, k), rng.randint(-1, k)
        if rng.random() < 0.4:
            i, j = j, i
        return a, i, j
    q = rng.random()
    if q < 0.14:
        return None, "none", "None"
    if q < 0.34:    # set of (measure, (i, j))
        cells = set()
        for _ in range(rng.choice([0, 1, 2, 3])):
            a, i, j = cell()
            cells.add((a, (i, j)))
        if rng.random() < 0.12:
            cells.add((0, (0, 1, 2)))          # accepted (ndim 1), never matches
        bad = None
        if rng.random() < 0.2:
            bad = rng.choice([(0, 1), 5, (0, (1, 2), 3), (0.5, (0, 1)), (0, ((0, 1), (1, 2)))])
            cells.add(bad)
        sx = " ".join("bad" if (bad is not None and e is bad) else "(%d %s)" % (e[0], ints(e[1])) for e in cells)
        return cells, "(set (%s))" % sx, "set-bad" if bad is not None else "set"
    if q < 0.56:    # dict {measure: {pairs}}
        d = {}
        for _ in range(rng.choice([0, 1, 2, 3])):
            a, i, j = cell()
            d.setdefault(a, set()).add((i, j))
        if rng.random() < 0.15:
            d.setdefault(rng.randint(0, m), set())
        bad = None
        if rng.random() < 0.2:
            bad = rng.choice(["scalar", "triple", "list", "fkey"])
            if bad == "scalar":
                d[7] = {1}
            elif bad == "triple":
                d[7] = {(0, 1, 2)}
            elif bad == "list":
                d[7] = [(0, 1)]
            else:
                d[0.5] = {(0, 1)}
        sx = []
        for a, s in d.items():
            if bad is not None and a in (7, 0.5):
                sx.append("bad")
            else:
                sx.append("(%d (%s))" % (a, " ".join("(%d %d)" % p for p in sorted(s))))
        return d, "(dict (%s))" % " ".join(sx), "dict-bad" if bad else "dict"
    if q < 0.80:    # where (measures, pairs)
        cells = [cell() for _ in range(rng.choice([0, 1, 1, 2, 3]))]
        ms = [c[0] for c in cells]
        ps = [[c[1], c[2]] for c in cells]
        r = rng.random()
        cls = "where"
        if r < 0.12 and ps:
            ps[-1] = ps[-1] + [0]; cls = "where-ragged" if len(ps) > 1 else "where-triples"
        elif r < 0.22:
            ms = ms + [rng.randint(0, m)]; cls = "where-misaligned"
        elif r < 0.30 and ms:
            ms = ms[:-1]; cls = "where-misaligned"
        if not ps:
            cls = "where-no-pairs"
        tupled = rng.random() < 0.7
        if not tupled and ps:
            cls += "-listpairs"
        cont = rng.choice([tuple, tuple, list])
        inner = tuple if tupled else list
        obj = cont((cont(ms), cont(inner(p) for p in ps)))
        sx = "(where %s (%s) %s)" % (ints(ms), " ".join(ints(p) for p in ps), "true" if tupled else "false")
        return obj, sx, cls
    if q < 0.88:
        obj = rng.choice([(), []])
        return obj, "empty", "empty-seq"
    obj = rng.choice([5, (1, 2, 3), ((), ()), "abc", 2.5])
    return obj, "other", "other"


# ------------------------------------------------------------------ implementation runners
def make_monitor(rows, npts="absent"):
    from mystic.monitors import Monitor
    m = Monitor() if npts == "absent" else Monitor(npts=npts)
    for r in rows:
        m(list(r), 0.0)
    return m


def call(f):
    try:
        return ("ok", f())
    except Exception as e:     # noqa
        return ("err", ERR.get(type(e).__name__, "other:" + type(e).__name__), str(e)[:120])


def canon_at(res):
    return sorted(int(i) for i in res)


def canon_as(res):
    return sorted((int(a), int(b)) for a, b in res)


def canon_w(res):
    """-> (format, sorted [(measure, index)])"""
    if isinstance(res, dict):
        return "dict", sorted((int(a), int(i)) for a, s in res.items() for i in s)
    if isinstance(res, set):
        return "set", sorted((int(a), int(i)) for a, i in res)
    if isinstance(res, tuple):
        if len(res) == 0:
            return "where", []
        a, b = res
        assert len(a) == len(b)
        return "where", sorted((int(x), int(y)) for x, y in zip(a, b))
    raise TypeError("unexpected result %r" % (res,))


def canon_p(res):
    if isinstance(res, dict):
        return "dict", sorted((int(a), int(i), int(j)) for a, s in res.items() for i, j in s)
    if isinstance(res, set):
        return "set", sorted((int(a), int(p[0]), int(p[1])) for a, p in res)
    if isinstance(res, tuple):
        if len(res) == 0:
            return "where", []
        a, b = res
        assert len(a) == len(b)
        return "where", sorted((int(x), int(p[0]), int(p[1])) for x, p in zip(a, b))
    raise TypeError("unexpected result %r" % (res,))


def gstr(g):
    return "none" if g is None else str(int(g))


# ------------------------------------------------------------------ one detector case
def det_case(rng, hist):
    """generate + run one detector case. returns dict(line, impl, monitor findings, tags)"""
    from mystic import collapse as ct
    det = rng.choice(["at", "at", "as", "as", "weight", "weight", "position", "position"])
    out = {"det": det, "findings": []}
    special = rng.random() < 0.12
    if det in ("at", "as"):
        n = rng.choice([0, 1, 1, 2, 2, 3, 3, 4, 5])
        T = rng.choice([0, 1, 1, 2, 3, 4, 5, 6, 8, 12])
        rows, kinds = gen_history(rng, n, T, special)
        ragged = False
        if T >= 2 and rng.random() < 0.04:
            rows[rng.randrange(T)] = rows[0][:-1] if n else [1.0]; ragged = True
        g = gen_generations(rng, T)
        w = ref_window(rows, g) if (g is None or g >= 1) else None
        finite = is_finite_rows(rows) and not ragged
        if det == "at":
            tk = rng.random()
            if tk < 0.45:
                tgt, tsx = None, "none"
            elif tk < 0.7:
                t = gen_values(rng) if not (rows and rows[-1] and rng.random() < 0.6) else rows[-1][rng.randrange(len(rows[-1]))]
                tgt, tsx = t, "(s %s)" % f2b(t)
            else:
                L = n if rng.random() < 0.8 else rng.choice([0, 1, n + 1, 3])
                base = rows[-1] if (rows and len(rows[-1]) == n) else [0.0] * n
                tgt = [(base[i] if i < n and rng.random() < 0.6 else gen_values(rng)) for i in range(L)]
                tsx = "(v %s)" % fl(tgt)
            if special and rng.random() < 0.3 and tgt is not None and not isinstance(tgt, list):
                tgt = rng.choice([math.inf, math.nan]); tsx = "(s %s)" % f2b(tgt)
            stats = []
            if w and finite and n:
                for i in range(n):
                    col = [r[i] for r in w]
                    if tgt is None:
                        stats.append(ref_ptp(col))
                    elif not isinstance(tgt, list):
                        if math.isfinite(tgt):
                            stats.append(ref_maxabs(col, tgt))
                    elif len(tgt) == n:
                        stats.append(ref_maxabs(col, tgt[i]))
            tol = pick_tol(rng, stats)
            tols = [tol]; tolarg = tol
            if rng.random() < 0.08:
                tols = [pick_tol(rng, stats) for _ in range(rng.choice([0, 2, 3]))]; tolarg = list(tols)
            likely = [i for i, s in enumerate(stats) if s <= max(tols + [-math.inf])] if len(stats) == n else []
            mask, msx, mcls = gen_setmask(rng, "at", n, likely)
            mon = make_monitor(rows)
            r = call(lambda: ct.collapse_at(mon, tgt, tolarg, g, mask))
            line = "C11 at (hist %s) (target %s) (tols %s) (gen %s) (mask %s)" % (fll(rows), tsx, fl(tols), gstr(g), msx)
            impl = ("ok", canon_at(r[1])) if r[0] == "ok" else r[:2]
            out.update(line=line, impl=impl, args={"hist": rows, "target": tgt, "tolerance": tolarg, "generations": g,
                                                  "mask": repr(mask)}, kinds=kinds, maskclass=mcls)
            # ---- monitor: the documented definition, directly
            doc_ok = (w is not None and len(w) > 0 and finite and n > 0 and len(tols) == 1 and not isinstance(tolarg, list)
                      and mcls in ("None", "set") and (tgt is None or (not isinstance(tgt, list) and math.isfinite(tgt))
                                                      or (isinstance(tgt, list) and len(tgt) == n)))
            if doc_ok:
                if r[0] != "ok":
                    out["findings"].append(("collapse_at/raises-on-valid-input", "collapse_at raised %s on a documented input" % (r[1],)))
                else:
                    want = [i for i in range(n) if stats[i] <= tol and not (mask is not None and i in mask)]
                    if want != impl[1]:
                        out["findings"].append(("collapse_at/not-per-definition",
                                                "collapse_at returned %r, the definition (change<=tolerance over the window, minus mask) gives %r" % (impl[1], want)))
                    out["findings"] += own_output_check("at", mon, dict(target=tgt, tolerance=tol, generations=g, mask=mask), r[1], hist)
                out["monitored"] = True
        else:
            offset = rng.random() < 0.4
            stats = {}
            if w and finite and n >= 2:
                for i in range(n):
                    for j in range(i + 1, n):
                        stats[(i, j)] = ref_pairstat(w, i, j, offset)
            tol = pick_tol(rng, list(stats.values()))
            likely = [p for p, s in stats.items() if s <= tol]
            mask, msx, mcls = gen_setmask(rng, "as", n, likely)
            mon = make_monitor(rows)
            r = call(lambda: ct.collapse_as(mon, offset, tol, g, mask))
            line = "C11 as (hist %s) (offset %s) (tol %s) (gen %s) (mask %s)" % (fll(rows), "true" if offset else "false", f2b(tol), gstr(g), msx)
            impl = ("ok", canon_as(r[1])) if r[0] == "ok" else r[:2]
            out.update(line=line, impl=impl, args={"hist": rows, "offset": offset, "tolerance": tol, "generations": g,
                                                  "mask": repr(mask)}, kinds=kinds, maskclass=mcls)
            doc_ok = w is not None and len(w) > 0 and finite and n > 0 and mcls in ("None", "set", "set-pairs")
            if doc_ok:
                if r[0] != "ok":
                    out["findings"].append(("collapse_as/raises-on-valid-input", "collapse_as raised %s on a documented input" % (r[1],)))
                else:
                    def masked(i, j):
                        if mask is None:
                            return False
                        return (i, j) in mask or (j, i) in mask or i in mask or j in mask
                    want = sorted(p for p, s in stats.items() if s <= tol and not masked(*p))
                    if want != impl[1]:
                        out["findings"].append(("collapse_as/not-per-definition",
                                                "collapse_as returned %r, the definition gives %r" % (impl[1], want)))
                    out["findings"] += own_output_check("as", mon, dict(offset=offset, tolerance=tol, generations=g, mask=mask), r[1], hist)
                out["monitored"] = True
        out["shape"] = "T=%s,n=%s" % ("0" if T == 0 else ("1" if T == 1 else "2+"), "0" if n == 0 else ("1" if n == 1 else "2+"))
        out["gclass"] = gclass(g, T)
        out["special"] = special or ragged
        return out
    # ---- measures
    m = rng.choice([1, 1, 2, 2, 3])
    k = rng.choice([1, 2, 2, 3, 3, 4])
    T = rng.choice([0, 1, 2, 3, 4, 5, 8])
    npts = tuple([k] * m)
    wcols, _ = gen_history(rng, m * k, T, False)
    pcols, pk = gen_history(rng, m * k, T, False)
    rows = []
    for t in range(T):
        row = []
        for a in range(m):
            wts = [abs(v) / 8.0 if rng.random() < 0.7 else 0.0 for v in wcols[t][a * k:(a + 1) * k]]
            row += wts + pcols[t][a * k:(a + 1) * k]
        rows.append(row)
    # weights: make some columns identically small over time
    for a in range(m):
        for i in range(k):
            if rng.random() < 0.35:
                v = rng.choice([0.0, 1 / 1024.0, 1 / 256.0])
                for t in range(T):
                    rows[t][2 * a * k + i] = v
    if special and T:
        rows[rng.randrange(T)][rng.randrange(2 * m * k)] = rng.choice([math.inf, math.nan, -math.inf])
    malformed = None
    q = rng.random()
    if q < 0.05:
        npts = "absent"; malformed = "npts-absent"
    elif q < 0.10:
        npts = rng.choice([(), (0, 0), (k + 1,) * m, (k, k + 1), (2 * m * k,), (1, 2, 3), (k,) * (m + 1)]); malformed = "npts-odd"
    elif q < 0.13 and T >= 2:
        rows[rng.randrange(T)] = rows[0][:-1]; malformed = "ragged"
    g = gen_generations(rng, T)
    w = ref_window(rows, g) if (g is None or g >= 1) else None
    finite = is_finite_rows(rows)
    mon = make_monitor(rows, npts)
    npsx = "none" if npts == "absent" else "(p %s)" % ints(npts)
    regular = malformed is None and finite and w is not None and len(w) > 0
    if det == "weight":
        stats = {}
        if regular:
            for a in range(m):
                for i in range(k):
                    stats[(a, i)] = max(r[2 * a * k + i] for r in w)
        tol = pick_tol(rng, list(stats.values()))
        hits = [c for c, s in stats.items() if s <= tol]
        mask, msx, mcls = gen_wmask(rng, m, k, hits)
        r = call(lambda: ct.collapse_weight(mon, tol, g, mask))
        line = "C11 weight (hist %s) (npts %s) (tol %s) (gen %s) (mask %s)" % (fll(rows), npsx, f2b(tol), gstr(g), msx)
        impl = (("ok",) + canon_w(r[1])) if r[0] == "ok" else r[:2]
        out.update(line=line, impl=impl, args={"hist": rows, "npts": npts, "tolerance": tol, "generations": g, "mask": repr(mask)},
                   maskclass=mcls)
        if regular and mcls in ("None", "set", "dict", "where", "empty-seq"):
            if r[0] != "ok":
                out["findings"].append(("collapse_weight/raises-on-valid-input", "collapse_weight raised %s on a documented input" % (r[1],)))
            else:
                def masked(a, i):
                    if mask is None:
                        return False
                    if isinstance(mask, set):
                        return (a, i) in mask
                    if isinstance(mask, dict):
                        return a in mask and i in mask[a]
                    if len(mask) == 0:
                        return False
                    return (a, i) in list(zip(*mask))
                want = sorted(c for c, s in stats.items() if s <= tol and not masked(*c))
                if want != impl[2]:
                    out["findings"].append(("collapse_weight/not-per-definition/" + mcls,
                                            "collapse_weight returned %r, the definition gives %r" % (impl[2], want)))
                wantfmt = {"None": "dict", "set": "set", "dict": "dict", "where": "where", "empty-seq": "where"}[mcls]
                if impl[1] != wantfmt:
                    out["findings"].append(("collapse_weight/format", "result format %s for a %s mask" % (impl[1], mcls)))
                out["findings"] += own_output_check("weight", mon, dict(tolerance=tol, generations=g, mask=mask), r[1], hist)
            out["monitored"] = True
    else:
        stats = {}
        if regular:
            for a in range(m):
                for i in range(k):
                    for j in range(i + 1, k):
                        stats[(a, i, j)] = max(abs(r[2 * a * k + k + i] - r[2 * a * k + k + j]) for r in w)
        tol = pick_tol(rng, list(stats.values()))
        hits = [c for c, s in stats.items() if s <= tol]
        mask, msx, mcls = gen_pmask(rng, m, k, hits)
        r = call(lambda: ct.collapse_position(mon, tol, g, mask))
        line = "C11 position (hist %s) (npts %s) (tol %s) (gen %s) (mask %s)" % (fll(rows), npsx, f2b(tol), gstr(g), msx)
        impl = (("ok",) + canon_p(r[1])) if r[0] == "ok" else r[:2]
        out.update(line=line, impl=impl, args={"hist": rows, "npts": npts, "tolerance": tol, "generations": g, "mask": repr(mask)},
                   maskclass=mcls)
        okcls = mcls in ("None", "set", "dict", "empty-seq") or (mcls.startswith("where") and not ("ragged" in mcls or "no-pairs" in mcls))
        if regular and okcls:
            if r[0] != "ok":
                out["findings"].append(("collapse_position/raises-on-valid-input", "collapse_position raised %s on a documented input" % (r[1],)))
            else:
                def masked(a, i, j):
                    if mask is None:
                        return False
                    if isinstance(mask, set):
                        return any(e[0] == a and tuple(e[1]) in ((i, j), (j, i)) for e in mask)
                    if isinstance(mask, dict):
                        return a in mask and ((i, j) in mask[a] or (j, i) in mask[a])
                    if len(mask) == 0:
                        return False
                    # 'where' format: the listed (measure, pair) entries, position by position
                    return any(ma == a and tuple(p) in ((i, j), (j, i)) for ma, p in zip(mask[0], mask[1]))
                want = sorted(c for c, s in stats.items() if s <= tol and not masked(*c))
                if want != impl[2]:
                    key = "collapse_position/not-per-definition/" + mcls
                    extra = sorted(set(impl[2]) - set(want)); missing = sorted(set(want) - set(impl[2]))
                    if mcls.endswith("-listpairs") and not missing and "misaligned" not in mcls:
                        key = "collapse_position/masked-pair-reported/where-mask-with-list-pairs"
                    elif "misaligned" in mcls:
                        key = None     # measures and pairs of different lengths: pairing is not documented; model only
                    if key:
                        out["findings"].append((key, "collapse_position returned %r, the definition (minus mask) gives %r (mask %r)" % (impl[2], want, mask)))
                if "listpairs" not in mcls and "misaligned" not in mcls and "triples" not in mcls:
                    out["findings"] += own_output_check("position", mon, dict(tolerance=tol, generations=g, mask=mask), r[1], hist)
            out["monitored"] = True
    out["shape"] = "T=%s,m=%d,k=%s" % ("0" if T == 0 else ("1" if T == 1 else "2+"), m, "1" if k == 1 else "2+")
    out["gclass"] = gclass(g, T)
    out["special"] = special or malformed is not None
    if malformed:
        out["maskclass"] += "+" + malformed
    return out


K_UNEVEN = "collapse_%s/uneven-npts/monitor-views-misattribute-columns"


def uneven_case(rng, hist):
    """product measures whose factors have DIFFERENT sizes, records laid out as product_measure.flatten does
    ([w_0.. x_0.. w_1.. x_1.. ..]): the real collapse_weight / collapse_position vs the model (which transcribes
    Monitor.get_ipos / get_wts / get_pos as they are) and vs the definition on the TRUE layout.  A difference from the
    definition is put into the recorded class (root cause C20-K6: get_ipos offsets every measure by npts[0], get_wts /
    get_pos reshape to (T, len(npts), -1)) only when the result is exactly what that mechanism predicts."""
    from mystic import collapse as ct
    det = rng.choice(["weight", "position"])
    npts = rng.choice([(2, 3), (3, 2), (2, 4), (4, 2), (1, 3), (3, 1), (1, 2), (2, 1), (2, 2, 4), (1, 2, 3), (3, 2, 1),
                       (2, 3, 4), (1, 1, 4), (3, 3, 2, 2), (2, 4, 2, 4), (1, 5)])
    m = len(npts); S = sum(npts)
    T = rng.choice([1, 2, 3, 4, 6])
    offs = [2 * sum(npts[:a]) for a in range(m)]
    base = []
    for a in range(m):
        w = [rng.choice([0.0, 1 / 1024.0, 0.25, 0.5, 1.0]) for _ in range(npts[a])]
        x = [dyadic(rng, -4, 4, 8) for _ in range(npts[a])]
        for i in range(1, npts[a]):
            if rng.random() < 0.4:
                x[i] = x[rng.randrange(i)]          # coincident positions
        base += w + x
    rows = []
    for t in range(T):
        row = list(base)
        for c in range(len(row)):
            if rng.random() < 0.15:
                row[c] = row[c] + rng.choice([1 / 2048.0, 1 / 128.0, 0.5])
        rows.append(row)
    g = rng.choice([None, 1, 2, T, T + 1])
    tol = rng.choice([0.0, 1 / 1024.0, 1 / 256.0, 1 / 64.0])
    w_ = ref_window(rows, g)
    mon = make_monitor(rows, npts)
    npsx = "(p %s)" % ints(npts)
    out = {"det": det, "findings": [], "maskclass": "None+uneven-npts", "gclass": gclass(g, T),
           "shape": "uneven:m=%d,%s" % (m, "divisible" if S % m == 0 else "not-divisible"), "special": False}
    # what the TRUE layout gives / what the monitor's views give (transcription of monitors.py l.296-324 as it is)
    iw = [offs[a] + i for a in range(m) for i in range(npts[a])]
    ip_true = [offs[a] + npts[a] + i for a in range(m) for i in range(npts[a])]
    ip_code = [offs[a] + npts[0] + i for a in range(m) for i in range(npts[a])]
    per = S // m if S % m == 0 else None

    def stat_w(cols):
        return {c: max(r[c] for r in w_) for c in cols}
    if det == "weight":
        r = call(lambda: ct.collapse_weight(mon, tol, g, None))
        line = "C11 weight (hist %s) (npts %s) (tol %s) (gen %s) (mask none)" % (fll(rows), npsx, f2b(tol), gstr(g))
        impl = (("ok",) + canon_w(r[1])) if r[0] == "ok" else r[:2]
        sw = stat_w(iw)
        want = ("ok", "dict", sorted((a, i) for a in range(m) for i in range(npts[a]) if sw[offs[a] + i] <= tol))
        if per is None:
            mech = ("err", "value")
        else:
            mech = ("ok", "dict", sorted((j // per, j % per) for j, c in enumerate(iw) if sw[c] <= tol))
    else:
        r = call(lambda: ct.collapse_position(mon, tol, g, None))
        line = "C11 position (hist %s) (npts %s) (tol %s) (gen %s) (mask none)" % (fll(rows), npsx, f2b(tol), gstr(g))
        impl = (("ok",) + canon_p(r[1])) if r[0] == "ok" else r[:2]
        want = ("ok", "dict", sorted((a, i, j) for a in range(m) for i in range(npts[a]) for j in range(i + 1, npts[a])
                                     if max(abs(rr[offs[a] + npts[a] + i] - rr[offs[a] + npts[a] + j]) for rr in w_) <= tol))
        if any(c >= 2 * S for c in ip_code):
            mech = ("err", "index")
        elif per is None:
            mech = ("err", "value")
        else:
            mech = ("ok", "dict", sorted((a, i, j) for a in range(m) for i in range(per) for j in range(i + 1, per)
                                         if max(abs(rr[ip_code[a * per + i]] - rr[ip_code[a * per + j]]) for rr in w_) <= tol))
    out.update(line=line, impl=impl, args={"hist": rows, "npts": npts, "tolerance": tol, "generations": g, "mask": "None"})
    if tuple(impl) != want:
        if tuple(impl) == mech:
            out["findings"].append((K_UNEVEN % det, "npts=%r: collapse_%s returned %r, the definition on the records' real layout "
                                    "[w_0.. x_0.. w_1.. x_1..] gives %r; the monitor's views (get_ipos offsets by npts[0], get_wts/get_pos "
                                    "reshape to (T, %d, -1)) predict exactly the returned value" % (npts, det, impl[1:], want[2], m)))
        else:
            out["findings"].append(("collapse_%s/not-per-definition/uneven-npts" % det,
                                    "npts=%r: collapse_%s returned %r, the definition gives %r, the monitor-view mechanism %r" % (npts, det, impl, want, mech)))
    out["monitored"] = True
    return out


def gclass(g, T):
    if g is None:
        return "g=None"
    if g == 0:
        return "g=0"
    if g < 0:
        return "g<0"
    if g < T:
        return "g<T"
    if g == T:
        return "g=T"
    return "g>T"


# ------------------------------------------------------------------ own output as mask, through the real update_mask
def own_output_check(det, mon, kwds, result, hist):
    """feed the detector its own output as mask, extended by the REAL mask.update_mask / termination.state"""
    from mystic import collapse as ct, termination as mt, mask as ma
    out = []
    if not result:
        return out
    g = kwds["generations"]
    fac = {"at": mt.CollapseAt, "as": mt.CollapseAs, "weight": mt.CollapseWeight, "position": mt.CollapsePosition}[det]
    fn = {"at": ct.collapse_at, "as": ct.collapse_as, "weight": ct.collapse_weight, "position": ct.collapse_position}[det]
    import copy
    try:
        cond = fac(**copy.deepcopy(kwds))
        before = list(mt.state(cond).values())[0]
        new = ma.update_mask(cond, {cond.__doc__: result})
        after = list(mt.state(new).values())[0]
    except Exception as e:   # noqa
        cont = type(kwds["mask"]).__name__
        if det in ("weight", "position") and isinstance(kwds["mask"], (list, tuple)) and len(kwds["mask"]) == 2 \
                and (isinstance(kwds["mask"], list) or any(isinstance(s, list) for s in kwds["mask"])):
            bump(hist, "own-output:update_mask-rejects-list-where-mask")
            return out        # rejected format at update_mask (list + tuple), compared with the model in stream `upd`
        out.append(("update_mask/raises/%s/%s" % (det, cont), "update_mask raised %s: %s on mask %r + collapse %r" % (type(e).__name__, e, kwds["mask"], result)))
        return out
    for kk in before:
        if kk != "mask" and repr(before[kk]) != repr(after.get(kk)):
            out.append(("update_mask/other-setting-changed/" + det, "setting %s changed from %r to %r" % (kk, before[kk], after.get(kk))))
    mask2 = after["mask"]
    if not covers(det, mask2, kwds["mask"], result):
        out.append(("update_mask/mask-did-not-grow/" + det, "mask %r + collapse %r gave %r" % (kwds["mask"], result, mask2)))
    kw2 = dict(kwds); kw2["mask"] = mask2
    pos = {"at": ("target", "tolerance", "generations", "mask"), "as": ("offset", "tolerance", "generations", "mask"),
           "weight": ("tolerance", "generations", "mask"), "position": ("tolerance", "generations", "mask")}[det]
    try:
        again = fn(mon, *[kw2[p] for p in pos])
    except Exception as e:   # noqa
        out.append(("own-output/raises/" + det, "detector raised %s: %s with its own output merged into the mask (%r)" % (type(e).__name__, e, mask2)))
        return out
    if again:
        out.append(("own-output/reported-again/" + det, "with mask %r (old mask + own output) the detector still reports %r" % (mask2, again)))
    bump(hist, "own-output-checked:" + det)
    return out


def _flat(e):
    if hasattr(e, "__len__"):
        out = ()
        for x in e:
            out += _flat(x)
        return out
    return (int(e),)


def flat_members(det, v):
    """members of a mask / collapse value as a set of canonical integer tuples (orientation kept)"""
    if v is None:
        return set()
    if isinstance(v, dict):
        return set((int(a),) + _flat(e) for a, s in v.items() for e in s)
    if isinstance(v, (set, frozenset)):
        return set(_flat(e) for e in v)
    if len(v) == 0:
        return set()
    return set((int(a),) + _flat(e) for a, e in zip(v[0], v[1]))


def covers(det, new, old, collapse):
    try:
        return flat_members(det, new) >= (flat_members(det, old) | flat_members(det, collapse))
    except Exception:    # noqa
        return False


# ------------------------------------------------------------------ update_mask on condition trees
FACT = ["CollapseAt", "CollapseAs", "CollapseWeight", "CollapsePosition", "VTR", "ChangeOverGeneration",
        "NormalizedChangeOverGeneration", "When", "And", "Or"]


def mask_sexp(det, v):
    """python mask value -> MaskV s-expression with integer-tuple elements (sets and dict keys sorted)"""
    def el(e):
        flat = []
        for x in (e if hasattr(e, "__len__") else (e,)):
            flat += [int(y) for y in x] if hasattr(x, "__len__") else [int(x)]
        return ints(flat)
    if v is None:
        return "none"
    if isinstance(v, set):
        return "(set (%s))" % " ".join(sorted(el(e) for e in v))
    if isinstance(v, dict):
        return "(dict (%s))" % " ".join("(%d (%s))" % (a, " ".join(sorted(el(e) for e in v[a]))) for a in sorted(v))
    if len(v) == 0:
        return "emptyseq"
    tup = isinstance(v[0], tuple) and isinstance(v[1], tuple)
    return "(where %s %s (%s))" % ("true" if tup else "false", ints(v[0]), " ".join(el(e) for e in v[1]))


class Interner:
    def __init__(self):
        self.t = {}

    def __call__(self, s):
        return self.t.setdefault(s, len(self.t))


def cond_sexp(c, intern):
    from mystic import termination as mt
    if isinstance(c, tuple):
        return "(n %s %s)" % ("true" if type(c).__name__ == "When" else "false", " ".join(cond_sexp(t, intern) for t in c))
    name = mt.type(c).__name__
    kw = list(mt.state(c).values())[0]
    det = {"CollapseAt": "at", "CollapseAs": "as", "CollapseWeight": "weight", "CollapsePosition": "position"}.get(name)
    rest = repr(sorted((k, repr(v)) for k, v in kw.items() if k != "mask"))
    return "(p %d %d %s %s)" % (FACT.index(name), intern(rest), "true" if "mask" in kw else "false",
                                mask_sexp(det, kw.get("mask")) if "mask" in kw else "none")


def cond_shape(c):
    from mystic import termination as mt
    if isinstance(c, tuple):
        return (type(c).__name__, [cond_shape(t) for t in c])
    kw = dict(list(mt.state(c).values())[0])
    m = kw.pop("mask", "no-mask-keyword")
    return (mt.type(c).__name__, repr(sorted((k, repr(v)) for k, v in kw.items())), m)


def gen_report(rng, det, fmt_of):
    """a collapse value in the format selected by the mask `fmt_of` (as the detectors do)"""
    n = rng.choice([1, 1, 2, 3])
    if det == "at":
        return set(rng.randint(0, 5) for _ in range(n))
    if det == "as":
        return set(tuple(sorted(rng.sample(range(6), 2))) for _ in range(n))
    cells = [(rng.randint(0, 2), rng.randint(0, 3)) for _ in range(n)]
    if det == "position":
        cells = [(a, tuple(sorted(rng.sample(range(4), 2)))) for a, _ in cells]
    if isinstance(fmt_of, set):
        return set(cells)
    if fmt_of is None or isinstance(fmt_of, dict):
        d = {}
        for a, e in cells:
            d.setdefault(a, set()).add(e)
        return d
    return (tuple(a for a, _ in cells), tuple(e for _, e in cells))


def gen_leaf(rng):
    from mystic import termination as mt
    k = rng.random()
    g = rng.choice([1, 5, 50])
    tol = rng.choice([0.005, 1e-4, 0.5])
    if k < 0.22:
        mask = rng.choice([None, None, set(), {0}, {1, 3}, {0, 2, 5}])
        return mt.CollapseAt(target=rng.choice([None, 0.0, [0.0, 1.0]]), tolerance=tol, generations=g, mask=mask), "at"
    if k < 0.42:
        mask = rng.choice([None, None, set(), {(0, 1)}, {(2, 1), 4}, {3}])
        return mt.CollapseAs(offset=rng.choice([False, True]), tolerance=tol, generations=g, mask=mask), "as"
    if k < 0.60:
        mask = rng.choice([None, None, {}, set(), (), {(0, 1)}, {0: {1}}, {0: {1}, 2: {0, 3}}, ((0, 1), (1, 2)), ((), ()),
                           [[0], [1]], ([0], [1])])
        return mt.CollapseWeight(tolerance=tol, generations=g, mask=mask), "weight"
    if k < 0.78:
        mask = rng.choice([None, None, {}, set(), (), {(0, (0, 1))}, {0: {(0, 1)}}, {1: {(0, 2), (1, 2)}}, ((0,), ((0, 1),)),
                           ((0, 1), ((0, 1), (2, 3))), [[0], [(0, 1)]]])
        return mt.CollapsePosition(tolerance=tol, generations=g, mask=mask), "position"
    if k < 0.86:
        return mt.VTR(rng.choice([1e-8, 0.5]), rng.choice([0.0, 1.0])), None
    if k < 0.94:
        return mt.ChangeOverGeneration(tol, g), None
    return mt.NormalizedChangeOverGeneration(tol, g), None


def gen_tree(rng, depth, leaves):
    from mystic import termination as mt
    if depth == 0 or rng.random() < 0.35:
        c, det = gen_leaf(rng)
        leaves.append((c, det))
        return c
    kind = rng.choice(["And", "Or", "Or", "When"])
    if kind == "When":
        sub = gen_tree(rng, depth - 1, leaves)
        return mt.When(sub)
    subs = [gen_tree(rng, depth - 1, leaves) for _ in range(rng.choice([1, 2, 2, 3]))]
    return (mt.And if kind == "And" else mt.Or)(*subs)


def upd_case(rng, hist):
    from mystic import termination as mt, mask as ma
    import copy
    leaves = []
    tree = gen_tree(rng, rng.choice([0, 1, 2, 2, 3]), leaves)
    out = {"findings": []}
    coll = {}
    coll_det = {}
    cands = [(c, d) for c, d in leaves if d is not None]
    rng.shuffle(cands)
    for c, d in cands[:rng.choice([0, 1, 1, 2, 3])]:
        kw = list(mt.state(c).values())[0]
        rep = gen_report(rng, d, kw["mask"]) if rng.random() < 0.92 else None
        coll[c.__doc__] = rep; coll_det[c.__doc__] = (d, c)
    if isinstance(tree, tuple) and rng.random() < 0.15:     # a key that is not in the tree (a bare primitive is extended whatever the key)
        c, d = gen_leaf(rng)
        while d is None:
            c, d = gen_leaf(rng)
        if c.__doc__ not in coll:
            coll[c.__doc__] = gen_report(rng, d, list(mt.state(c).values())[0]["mask"]); coll_det[c.__doc__] = (d, c)
    use_none = (not coll) and rng.random() < 0.3
    intern = Interner()
    csx = cond_sexp(tree, intern)
    clsx = " ".join("(%s %s)" % (cond_sexp(coll_det[k][1], intern), mask_sexp(coll_det[k][0], v)) for k, v in coll.items())
    line = "C11 update (cond %s) (collapse (%s))" % (csx, clsx)
    shape0 = cond_shape(tree)
    r = call(lambda: ma.update_mask(tree, None if use_none else dict(coll)))
    if r[0] == "ok":
        impl = ("ok", cond_sexp(r[1], intern))
        shape1 = cond_shape(r[1])
        # monitor: shape, types, settings preserved; masks only grow; targeted masks grow by the collapse
        bad = upd_monitor(shape0, shape1, coll, coll_det, top=not isinstance(tree, tuple))
        out["findings"] += bad
    else:
        impl = r[:2]
    out.update(line=line, impl=impl, args={"tree": repr(shape0), "collapse": repr(coll)},
               csx=csx, tag="upd:%s:%s" % ("bare" if not isinstance(tree, tuple) else "tree", "%d-keys" % len(coll)))
    return out


def upd_monitor(s0, s1, coll, coll_det, top):
    out = []

    def walk(a, b, path, is_top):
        if isinstance(a[1], list):
            if a[0] != b[0] or not isinstance(b[1], list) or len(a[1]) != len(b[1]):
                out.append(("update_mask/shape-changed", "node %s became %s at %s" % (a[0], b[0], path))); return
            for i, (x, y) in enumerate(zip(a[1], b[1])):
                walk(x, y, path + [i], False)
            return
        if isinstance(b[1], list) or a[0] != b[0] or a[1] != b[1]:
            out.append(("update_mask/other-setting-changed/tree", "leaf %r became %r at %s" % (a[:2], b[:2], path))); return
        det = {"CollapseAt": "at", "CollapseAs": "as", "CollapseWeight": "weight", "CollapsePosition": "position"}.get(a[0])
        if det is None:
            return
        if not covers(det, b[2], a[2], None):
            out.append(("update_mask/mask-shrank/" + det, "mask %r became %r at %s" % (a[2], b[2], path)))
    walk(s0, s1, [], top)
    return out


# ------------------------------------------------------------------ solver level
def solver_case(rng, hist, big=False):
    """a real solver with Collapse* conditions Or-ed with a stop condition on an objective with flat / zero / tied
    directions.  Returns dict(findings, reports(list of lists of item codes), tags)"""
    import numpy
    from mystic import solvers as ms, termination as mt
    from mystic.monitors import Monitor
    nd = rng.choice([2, 3, 3, 4])
    solver_name = rng.choice(["DE", "DE2", "NM", "Powell"])
    idx = list(range(nd)); rng.shuffle(idx)
    scen = rng.choice(["flat", "zero", "tied", "zero+tied", "target-list", "tied-offset"])
    c = [dyadic(rng, -2, 2, 4) for _ in range(nd)]
    i0, i1 = idx[0], idx[1]
    terms = []
    g = rng.choice([4, 6, 10])
    tol = rng.choice([1e-3, 1e-4, 1 / 1024.0])
    relation = {"scen": scen}
    if scen == "flat":
        def cost(x):
            return sum((x[k] - c[k]) ** 2 for k in range(nd) if k != i0)
        terms.append(mt.CollapseAt(None, tol, g))
    elif scen == "zero":
        def cost(x):
            return sum((x[k] - (0.0 if k == i0 else c[k])) ** 2 for k in range(nd))
        terms.append(mt.CollapseAt(0.0, tol, g))
    elif scen == "target-list":
        tl = [c[k] if k in (i0, i1) else c[k] + 100.0 for k in range(nd)]

        def cost(x):
            return sum((x[k] - c[k]) ** 2 for k in range(nd))
        terms.append(mt.CollapseAt(tl, tol, g))
    elif scen == "tied":
        def cost(x):
            return (x[i0] - x[i1]) ** 2 + sum((x[k] - c[k]) ** 2 for k in range(nd) if k != i1)
        terms.append(mt.CollapseAs(False, tol, g))
    elif scen == "tied-offset":
        def cost(x):
            return (x[i0] + 1.5 - x[i1]) ** 2 + sum((x[k] - c[k]) ** 2 for k in range(nd) if k != i1)
        terms.append(mt.CollapseAs(True, tol, g))
    else:
        def cost(x):
            return x[i0] ** 2 + (x[i0] - x[i1]) ** 2 + sum((x[k] - c[k]) ** 2 for k in range(nd) if k not in (i0, i1))
        terms.append(mt.CollapseAt(0.0, tol, g)); terms.append(mt.CollapseAs(False, tol, g))
    stop = rng.choice(["cog", "vtr", "ncog"])
    stopc = {"cog": mt.ChangeOverGeneration(1e-13, 5 * g), "vtr": mt.VTR(1e-20), "ncog": mt.NormalizedChangeOverGeneration(1e-10, 4 * g)}[stop]
    order = terms + [stopc]
    rng.shuffle(order)
    term = mt.Or(*order)
    if rng.random() < 0.25:
        term = mt.Or(mt.When(order[0]), *order[1:]) if len(order) > 1 else term
    seed = rng.randrange(2 ** 31)
    _random.seed(seed); numpy.random.seed(seed)
    calls = []
    events = []

    def cost_fn(x):
        calls.append([float(v) for v in x])
        return cost(x)
    if solver_name in ("DE", "DE2"):
        s = (ms.DifferentialEvolutionSolver if solver_name == "DE" else ms.DifferentialEvolutionSolver2)(nd, rng.choice([8, 12]))
    elif solver_name == "NM":
        s = ms.NelderMeadSimplexSolver(nd)
    else:
        s = ms.PowellDirectionalSolver(nd)
    s.SetRandomInitialPoints([-4.0] * nd, [4.0] * nd)
    maxgen = (400 if big else 160) if solver_name != "Powell" else (40 if big else 20)
    s.SetEvaluationLimits(generations=maxgen)
    s.SetGenerationMonitor(Monitor())
    orig = s.Collapse
    universe0 = nd + nd * (nd - 1) // 2

    def wrapped(disp=False):
        if len(events) > universe0 + 2:
            # the proved bound (collapse_chain_bounded) is exceeded: the loop of _Solve is not making progress
            raise CollapseLoopError("Collapse() called %d times for %d indices + pairs" % (len(events) + 1, universe0))
        before = mt.state(s._termination)
        n = len(calls)
        best = [float(v) for v in s.bestSolution]
        r = orig(disp)
        events.append({"ncalls": n, "collapse": r, "before": before, "after": mt.state(s._termination), "best": best,
                       "gens": s.generations, "orders": pair_orders(r)})
        return r
    s.Collapse = wrapped
    t0 = time.time()
    findings = []
    try:
        s.Solve(cost_fn, term)
    except CollapseLoopError as e:
        findings.append(("solver/collapse-loop-does-not-terminate", "%s (collapses: %r)" % (e, [repr(ev["collapse"])[:120] for ev in events[-3:]])))
        return {"findings": findings, "tag": "solver:%s:%s:loop" % (solver_name, scen), "reports": [], "ncollapses": 0,
                "args": {"solver": solver_name, "scenario": scen, "seed": seed}}
    except Exception as e:     # noqa
        import traceback
        key = "solver/raises/%s/%s" % (solver_name, scen)
        if scen == "target-list" and isinstance(e, ValueError) and "shape" in str(e):
            key = "solver/collapse-raises/CollapseAt-list-target/impose_at-gets-whole-target-list"
        findings.append((key, "Solve raised %s: %s" % (type(e).__name__, e)))
        return {"findings": findings, "tag": "solver:%s:%s:raised" % (solver_name, scen), "reports": [], "ncollapses": 0,
                "args": {"solver": solver_name, "scenario": scen, "seed": seed, "trace": traceback.format_exc()[-800:]}}
    res = analyse_run(s, solver_name, nd, calls, events, findings)
    return {"findings": findings, "tag": "solver:%s:%s:%d-collapses" % (solver_name, scen, min(res["ncoll"], 3)),
            "reports": res["reports"], "ncollapses": res["ncoll"], "universe": res["universe"],
            "args": {"solver": solver_name, "scenario": scen, "nd": nd, "seed": seed, "c": c, "i0": i0, "i1": i1, "tol": tol, "g": g,
                     "stop": stop, "final": res["final"], "relations": res["rels"], "ncalls": len(calls),
                     "events": [{"ncalls": e["ncalls"], "collapse": repr(e["collapse"]), "gens": e["gens"]} for e in events]}}


def analyse_run(s, solver_name, nd, calls, events, findings):
    """the solver-level clauses on one finished run: relations imposed by every applied collapse, checked on every
    later cost argument and on the final solution; state() masks grow by what was applied; nothing reported twice;
    Solve returned terminated.  Appends (class key, text) to `findings`."""
    from mystic import termination as mt
    # ---- relations imposed so far, checked on every later cost argument and on the final solution
    rels = []       # dicts: kind 'fixed' (i, value) | 'pair' (i, j: x[j] == x[i]) | 'dist' (i, j, d: ||x[j]-x[i]| - d| <= tol), ev
    reports = []
    ncoll = 0
    seen = set()
    universe = nd + nd * (nd - 1) // 2
    pair_code = {}
    for a in range(nd):
        for b in range(a + 1, nd):
            pair_code[(a, b)] = nd + len(pair_code)
    stopped = False
    apps = []       # what every Collapse() installed, in the order the code composes it (impose_at before impose_as)
    for ei, e in enumerate(events):
        coll = e["collapse"]
        if not coll:
            continue
        ncoll += 1
        rep = []
        ops_at = []; ops_as = []
        apps.append({"ev": ei, "ncalls": e["ncalls"], "ops_at": ops_at, "ops_as": ops_as})
        for key, val in coll.items():
            kind = key.split()[0]
            kw = e["before"].get(key)
            if kw is None:
                findings.append(("solver/collapse-key-not-in-termination", "collapse key %r is not a condition of the termination %r" % (key, list(e["before"]))))
                continue
            det = {"CollapseAt": "at", "CollapseAs": "as"}[kind]
            # mask growth: the same condition (same other settings) afterwards, mask >= before + applied
            after = [v for k2, v in e["after"].items() if k2.startswith(kind) and
                     all(repr(v.get(p)) == repr(kw.get(p)) for p in kw if p != "mask")]
            if len(after) != 1 or not covers(det, after[0].get("mask"), kw.get("mask"), val):
                findings.append(("solver/mask-did-not-grow/" + kind, "mask before %r, applied %r, after %r" % (kw.get("mask"), val, [a.get("mask") for a in after])))
            for item in val:
                code = int(item) if det == "at" else pair_code[tuple(sorted(int(v) for v in item))]
                if (kind, code) in seen:
                    findings.append(("solver/reported-again/" + kind, "%s reported %r again (already applied)" % (kind, item)))
                seen.add((kind, code))
                rep.append(code)
                if det == "at":
                    t = kw.get("target")
                    v = e["best"][int(item)] if t is None else (t[int(item)] if isinstance(t, (list, tuple)) else t)
                    rels.append({"kind": "fixed", "i": int(item), "v": float(v), "ev": ei})
                    ops_at.append(("at", int(item), float(v)))
                else:
                    i, j = int(item[0]), int(item[1])
                    if kw.get("offset") in (None, False):
                        order = (e.get("orders") or {}).get(key) or [tuple(int(v) for v in it) for it in val]
                        rels.append({"kind": "pair", "i": i, "j": j, "ev": ei, "order": order,
                                     "untied_by_connected": (i, j) in py_untied(order)})
                        if ("as", order) not in ops_as:
                            ops_as.append(("as", order))
                    else:
                        ops_as.append(("dist",))
                        rels.append({"kind": "dist", "i": i, "j": j, "d": abs(e["best"][j] - e["best"][i]), "tol": float(kw["tolerance"]), "ev": ei})
        reports.append(rep)
        if stopped:
            continue
        lo = e["ncalls"]
        v = first_violation(calls[lo:], rels)
        if v is not None:
            live = [a for a in apps if a["ncalls"] <= lo + v[0]]
            findings.append(viol_key("solver/evaluated-point", v, rels, "point #%d evaluated after collapse #%d" % (v[0], ncoll), live, nd))
            stopped = True
    final = [float(v) for v in s.bestSolution]
    shown = final
    if solver_name == "NM" and ncoll:
        # Nelder-Mead reports the stored PRE-constraint vertex (recorded finding F3 of C01/C03): the collapsed
        # relation is checked on what the solver evaluated for it, constraints(bestSolution)
        shown = [float(v) for v in s._constraints(list(final))]
    if ncoll:
        v = first_violation([shown], rels)
        if v is not None:
            # the collapse constraints that were installed when the reported point was evaluated (a best point found
            # between two collapses survives, F25): the class of the failure is decided for THAT composition
            occ = [i for i, xx in enumerate(calls) if xx == final] if solver_name != "NM" else []
            live = [a for a in apps if a["ncalls"] <= occ[-1]] if occ else apps
            key, what = viol_key("solver/final-solution", v, rels, "final solution", live, nd)
            lo = events[v[1]["ev"]]["ncalls"]
            if solver_name != "NM" and final in calls[:lo] and final not in calls[lo:]:
                # the reported best was found BEFORE the collapse that imposed the relation and never replaced
                key = "solver/final-solution/pre-collapse-best-survives"
                what = "the best point found before collapse #%d was never replaced: %s" % (v[1]["ev"] + 1, what)
            findings.append((key, what))
    if ncoll > universe:
        findings.append(("solver/too-many-collapses", "%d collapses for %d indices + pairs" % (ncoll, universe)))
    msg = s.Terminated(info=True)
    if not msg:
        findings.append(("solver/solve-returned-unterminated", "Solve returned but Terminated() is false"))
    return {"reports": reports, "ncoll": ncoll, "universe": universe, "rels": rels, "final": final}




def rel_holds(r, x):
    if r["kind"] == "fixed":
        return x[r["i"]] == r["v"]
    if r["kind"] == "pair":
        return x[r["j"]] == x[r["i"]]
    return abs(abs(x[r["j"]] - x[r["i"]]) - r["d"]) <= r["tol"]


class CollapseLoopError(Exception):
    pass


def first_violation(points, rels):
    for n, x in enumerate(points):
        for r in rels:
            if not rel_holds(r, x):
                return (n, r, x)
    return None


def rel_indices(r):
    return {r["i"]} if r["kind"] == "fixed" else {r["i"], r["j"]}


def rel_writes(r):
    # impose_as groups its pairs with tools.connected, which may take EITHER member of a pair as the one to overwrite
    return {r["i"]} if r["kind"] == "fixed" else {r["i"], r["j"]}


def exec_rank(r):
    """position in the composed constraint: `Collapse` chains the new decorators OUTSIDE the existing constraints
    (abstract_solver.py l.852), so the newest round runs first and the oldest last; inside one round impose_at runs
    before impose_as (l.845-846)"""
    return (-r["ev"], 0 if r["kind"] == "fixed" else 1)


def conflicted(rels):
    """relations that another collapse constraint can break by overwriting: seeds = a relation with a parameter
    written by a relation that executes AFTER it; closure: relations sharing a parameter with a conflicted one."""
    bad = set()
    for a, r in enumerate(rels):
        for q in rels:
            if q is not r and exec_rank(q) > exec_rank(r) and (rel_writes(q) & rel_indices(r)):
                bad.add(a)
    changed = True
    while changed:
        changed = False
        for a, r in enumerate(rels):
            if a in bad:
                continue
            if any(rel_indices(r) & rel_indices(rels[b]) for b in bad):
                bad.add(a); changed = True
    return bad


def predict_composed(apps, n):
    """what the composed collapse constraints of the UNCHANGED code do to a vector of distinct symbols: `Collapse` chains
    the new decorators outside the existing constraints (abstract_solver.py l.852), so the newest round runs first and
    the oldest last; inside a round impose_at runs before impose_as (l.845-846); impose_as ties the groups of
    tools.connected (py_connected, compared with the Lean model in stream `apply`).  None when an offset collapse is
    involved (x_j = x_i + 1 is not followed symbolically)."""
    x = [("s", i) for i in range(n)]
    for a in sorted(apps, key=lambda a: -a["ev"]):
        for op in a["ops_at"] + a["ops_as"]:
            if op[0] == "dist":
                return None
            if op[0] == "at":
                x[op[1]] = ("c", op[2])
            else:
                for k, mem in py_connected(op[1]):
                    for m in mem:
                        if k < n and m < n:
                            x[m] = x[k]
    return x


def viol_key(prefix, v, rels, where, apps=None, nd=None):
    """class key of a violated relation.  The two recorded mechanisms (F21: a collapse constraint that runs later in the
    composed function rewrites the parameters; F26: tools.connected left two groups unmerged) are recognised by
    running the composition of the unchanged code on a vector of distinct symbols: only a relation that this
    composition itself breaks falls into a recorded class; anything else is a new failure."""
    n, r, x = v
    a = rels.index(r)
    if r["kind"] == "dist":
        return (prefix + "/offset-pair-distance-not-kept",
                "%s: CollapseAs(offset=True) tracked |x[%d]-x[%d]| = %r, the applied constraint gives %r (x=%r)" % (
                    where, r["j"], r["i"], r["d"], abs(x[r["j"]] - x[r["i"]]), x))
    pred = predict_composed(apps, nd) if apps is not None else None
    if pred is not None:
        broken = (pred[r["i"]] != ("c", r["v"])) if r["kind"] == "fixed" else (pred[r["i"]] != pred[r["j"]])
    else:
        broken = (a in conflicted(rels)) or (r["kind"] == "pair" and r.get("untied_by_connected"))
    if broken and r["kind"] == "pair" and r.get("untied_by_connected"):
        return (prefix + "/pair-not-equal/connected-groups-not-merged",
                "%s: %s violated at x=%r; the pairs of this collapse were iterated as %r and tools.connected built the groups %r: "
                "a pair joined two existing groups, which are never merged" % (where, rel_text(r), x, r["order"], py_connected(r["order"])))
    if broken:
        return (prefix + "/relation-overwritten-by-another-collapse-constraint",
                "%s: %s violated at x=%r; another collapse constraint runs after it in the composed constraints function and rewrites its parameters (relations %r)" % (
                    where, rel_text(r), x, [rel_text(q) + "@%d" % q["ev"] for q in rels]))
    key = "/fixed-parameter-not-at-target" if r["kind"] == "fixed" else "/pair-not-equal"
    return (prefix + key, "%s: %s violated at x=%r although the composed collapse constraints keep it for every input (relations %r)" % (
        where, rel_text(r), x, [rel_text(q) + "@%d" % q["ev"] for q in rels]))


def rel_text(r):
    if r["kind"] == "fixed":
        return "x[%d]==%r" % (r["i"], r["v"])
    if r["kind"] == "pair":
        return "x[%d]==x[%d]" % (r["j"], r["i"])
    return "|x[%d]-x[%d]|==%r" % (r["j"], r["i"], r["d"])


# ------------------------------------------------------------------ applying a pair collapse (impose_as over connected)
def pair_orders(collapses):
    """{CollapseAs key: the pairs in the iteration order of the very set object that impose_as will iterate}"""
    return {k: [tuple(int(v) for v in it) for it in val] for k, val in (collapses or {}).items() if k.startswith("CollapseAs")}


def py_connected(order):
    """plain transcription of tools.connected (tools.py l.770-791) of the unchanged tree.  Used ONLY to decide whether a
    failing pair falls into the recorded class F26 (a pair joined two existing groups); it is compared with the Lean
    model on every case of stream `apply`."""
    groups = []
    for i, j in order:
        found = False
        for g in groups:
            if i == g[0] or i in g[1]:
                if j not in g[1]:
                    g[1].append(j)
                found = True; break
            if j == g[0] or j in g[1]:
                if i not in g[1]:
                    g[1].append(i)
                found = True; break
        if not found:
            groups.append([i, [j]])
    return groups


def py_untied(order):
    """the pairs that connected + the tie phase leave unequal on a vector of distinct values"""
    if not order:
        return set()
    x = list(range(1 + max(v for p in order for v in p)))
    for k, mem in py_connected(order):
        for m in mem:
            x[m] = x[k]
    return set(p for p in order if x[p[0]] != x[p[1]])


def py_bridged(order):
    """independent reading of `noBridge`: some pair joins two components that both exist when it is processed"""
    comp = {}

    def find(a):
        while comp[a] != a:
            a = comp[a]
        return a
    for i, j in order:
        if i in comp and j in comp:
            if find(i) != find(j):
                return True
        elif i in comp:
            comp[j] = find(i)
        elif j in comp:
            comp[i] = find(j)
        else:
            comp[i] = i; comp[j] = i
    return False


def components(pairs):
    adj = {}
    for a, b in pairs:
        adj.setdefault(a, set()).add(b); adj.setdefault(b, set()).add(a)
    seen = set(); out = []
    for a in sorted(adj):
        if a in seen:
            continue
        c = set(); todo = [a]
        while todo:
            v = todo.pop()
            if v in c:
                continue
            c.add(v); todo += list(adj[v] - c)
        seen |= c; out.append(c)
    return out


def nontransitive(pairs):
    """two pairs share a parameter while their other members are not a pair (a chain collapse)"""
    P = set(tuple(sorted(p)) for p in pairs)
    for a in P:
        for b in P:
            if a < b and len(set(a) & set(b)) == 1:
                o = tuple(sorted(set(a) ^ set(b)))
                if o not in P:
                    return True
    return False


def shape_class(n, E):
    """coverage class of a pair set (as collapse_as reports it: i<j)"""
    if not E:
        return "empty"
    comps = components(E)
    deg = {}
    for a, b in E:
        deg[a] = deg.get(a, 0) + 1; deg[b] = deg.get(b, 0) + 1
    if len(comps) > 1:
        return "%d-components%s" % (min(len(comps), 3), "+chain" if nontransitive(E) else "")
    m = len(comps[0])
    if len(E) == 1:
        return "single-pair"
    if len(E) == m * (m - 1) // 2:
        return "all-mutually-tied"
    if len(E) == m - 1:
        hub = [v for v in deg if deg[v] == m - 1]
        if hub:
            c = hub[0]; others = sorted(comps[0] - {c})
            pos = "lowest" if c < others[0] else ("highest" if c > others[-1] else "middle")
            return "%s:shared-%s" % ("chain-2" if m == 3 else "star-%d" % min(m - 1, 4), pos)
        if max(deg.values()) == 2:
            return "path-%d" % min(m - 1, 5)
        return "tree"
    return "cyclic-not-complete"


def gen_pairgraph(rng, n):
    idx = list(range(n)); rng.shuffle(idx)
    E = set()

    def add(a, b):
        E.add((min(a, b), max(a, b)))
    kind = rng.choice(["pair", "chain2", "chain2", "star", "path", "path", "path", "tree", "clique", "two", "random"])
    if n < 3:
        kind = "pair"
    if kind == "two" and n < 4:
        kind = "chain2"
    if kind == "pair":
        add(idx[0], idx[1])
    elif kind == "chain2":
        add(idx[0], idx[2]); add(idx[1], idx[2])
    elif kind == "star":
        for a in idx[1:1 + rng.randint(2, n - 1)]:
            add(idx[0], a)
    elif kind == "path":
        L = rng.randint(2, n - 1)
        for a, b in zip(idx[:L], idx[1:L + 1]):
            add(a, b)
    elif kind == "tree":
        m = rng.randint(3, n)
        for t in range(1, m):
            add(idx[t], idx[rng.randrange(t)])
    elif kind == "clique":
        m = rng.randint(3, min(n, 4))
        for a in range(m):
            for b in range(a + 1, m):
                add(idx[a], idx[b])
    elif kind == "two":
        k = rng.randint(2, n - 2)
        for part in (idx[:k], idx[k:]):
            for a, b in zip(part, part[1:]):
                if rng.random() < 0.85 or not E:
                    add(a, b)
        if len(idx[k:]) >= 2 and not any(set(e) & set(idx[k:]) for e in E):
            add(idx[k], idx[k + 1])
    else:
        for a in range(n):
            for b in range(a + 1, n):
                if rng.random() < 0.35:
                    add(a, b)
        if not E:
            add(idx[0], idx[1])
    return kind, E


def realize_history(rng, n, E, tol):
    """a history on which max_t |x_i - x_j| <= tol holds exactly for the pairs of E (closeness that is NOT transitive):
    all members sit at one base value, and every non-pair gets a record in which its two members are moved apart"""
    nodes = sorted(set(v for e in E for v in e))
    base = dyadic(rng, -2, 2, 16)
    row0 = [base if i in nodes else base + 8.0 * (i + 1) for i in range(n)]
    rows = [list(row0)] * rng.choice([1, 1, 2])
    rows = [list(r) for r in rows]
    for ai, a in enumerate(nodes):
        for b in nodes[ai + 1:]:
            if (a, b) in E:
                continue
            sep = rng.choice([1.5 * tol, 2.0 * tol, tol + tol * 2.0 ** -20])     # > tol; halves <= tol (2*tol: a tie with tol)
            sg = rng.choice([1.0, -1.0])
            r = list(row0); r[a] += sg * sep / 2; r[b] -= sg * sep / 2
            rows.append(r)
    rng.shuffle(rows)
    return rows


def apply_case(rng, hist):
    """detector -> constraint, as `Collapse()` does it: the REAL collapse_as on a history whose close pairs form a
    generated graph (chains / stars / paths / trees / cliques / several components, in every index order), then the
    REAL impose_as(<that very set>, False) on a parameter vector; both compared with the model, and the collapsed
    relation (every reported pair exactly equal, every other parameter untouched) evaluated on the result"""
    import numpy
    from mystic import collapse as ct, constraints as cn, tools as to
    n = rng.choice([2, 3, 3, 4, 4, 5, 5, 6, 7])
    kind, E = gen_pairgraph(rng, n)
    tol = rng.choice([2.0 ** -10, 2.0 ** -10, 2.0 ** -7, 0.25])
    rows = realize_history(rng, n, E, tol)
    T = len(rows)
    g = rng.choice([None, T, T, T + 3, 0, 50] + ([max(1, T - 1), max(1, T // 2)] if rng.random() < 0.3 else []))
    out = {"findings": [], "corr": []}
    mon = make_monitor(rows)
    r = call(lambda: ct.collapse_as(mon, False, tol, g, None))
    line_as = "C11 as (hist %s) (offset false) (tol %s) (gen %s) (mask none)" % (fll(rows), f2b(tol), gstr(g))
    out["lines"] = [line_as]
    out["args"] = {"hist": rows, "tolerance": tol, "generations": g, "generated_pairs": sorted(E), "generator": kind}
    if r[0] != "ok":
        out["findings"].append(("collapse_as/raises-on-valid-input", "collapse_as raised %s on a documented input" % (r[1],)))
        out["impl_as"] = r[:2]; out["tag"] = "apply:detector-raised"; out["S"] = None
        return out
    S = r[1]
    out["impl_as"] = ("ok", canon_as(S))
    w = ref_window(rows, g) if (g is None or g >= 1) else rows
    want = sorted((i, j) for i in range(n) for j in range(i + 1, n) if ref_pairstat(w, i, j, False) <= tol)
    if want != canon_as(S):
        out["findings"].append(("collapse_as/not-per-definition", "collapse_as returned %r, the definition gives %r" % (canon_as(S), want)))
    if (g is None or g == 0 or g >= T) and want != sorted(E):
        raise RuntimeError("generator: history does not realize the pair set %r (definition gives %r)" % (sorted(E), want))
    order = [(int(a), int(b)) for a, b in S]
    out["order"] = order
    out["S"] = S
    # ---- the parameter vector
    vals = rng.sample(range(-40, 41), n)
    x = [v / 8.0 + (0.0 if rng.random() < 0.8 else 2.0 ** -30) for v in vals]
    if rng.random() < 0.15 and n >= 2:
        x[rng.randrange(n)] = x[rng.randrange(n)]            # an accidental tie in the input
    container = rng.choice(["ndarray", "ndarray", "list"])
    xin = numpy.array(x) if container == "ndarray" else list(x)
    con = cn.impose_as(S, False)(lambda v: v)            # exactly what Collapse() builds (abstract_solver.py l.845)
    ry = call(lambda: [float(v) for v in con(xin)])
    rg = call(lambda: [(int(k), sorted(int(m) for m in v)) for k, v in to.connected(S).items()])
    out["lines"].append("C11 tie (pairs (%s)) (x %s)" % (" ".join("(%d %d)" % p for p in order), fl(x)))
    out["impl_tie"] = (ry[:2], rg[:2])
    out["args"].update({"pairs_in_iteration_order": order, "x": x, "container": container,
                        "impose_as_result": ry[1] if ry[0] == "ok" else repr(ry[1:]), "connected": repr(rg[1])})
    out["shape"] = shape_class(n, set(order))
    out["bridged"] = py_bridged(order)
    if [float(v) for v in xin] != x:
        out["findings"].append(("apply/input-modified", "impose_as modified its argument in place: %r -> %r" % (x, list(xin))))
    # ---- monitor: the collapsed relation on the implementation's result
    if ry[0] != "ok":
        out["findings"].append(("apply/raises", "impose_as(%r, False)(x) raised %s: %s" % (order, ry[1], ry[2])))
    else:
        y = ry[1]
        bad = [p for p in order if y[p[0]] != y[p[1]]]
        if len(y) != n:
            out["findings"].append(("apply/length-changed", "impose_as returned %d values for %d parameters" % (len(y), n)))
        elif bad:
            unt = py_untied(order)
            known = [p for p in bad if p in unt]
            key = "apply/pair-not-equal/connected-groups-not-merged" if len(known) == len(bad) else "apply/pair-not-equal"
            out["findings"].append((key, "collapse_as reported the pairs %r (iteration order); after impose_as(pairs, False) the point %r "
                                         "became %r: x[%d] != x[%d] (connected: %r)" % (order, x, y, bad[0][0], bad[0][1], rg[1])))
        else:
            touched = set(v for p in order for v in p)
            fr = [i for i in range(n) if i not in touched and f2b(y[i]) != f2b(x[i])]
            if fr:
                out["findings"].append(("apply/untied-parameter-changed", "parameter %d is in no collapsed pair but changed: %r -> %r (pairs %r)" % (fr[0], x, y, order)))
            comp_bad = [c for c in components(order) if len(set(f2b(y[i]) for i in c)) != 1 or not any(f2b(y[min(c)]) == f2b(x[i]) for i in c)]
            if comp_bad:
                out["findings"].append(("apply/component-value", "the component %r is not set to one of its members' own values: %r -> %r" % (sorted(comp_bad[0]), x, y)))
    out["tag"] = "apply:%s:%s" % (out["shape"], "bridging-order" if out["bridged"] else "ok-order")
    return out


def judge_apply(c, replies, add, hist):
    """compare one `apply` case with the two model replies"""
    case = {"id": c["id"], "request": c["lines"], "args": c["args"], "impl": [c.get("impl_as"), c.get("impl_tie")], "model": replies}
    ras = parse_reply(replies[0])
    if ras[0] == "bad-op":
        raise RuntimeError("driver answered bad-op for %s" % c["lines"][0])
    model = ("err", ras[1]) if ras[0] == "err" else ("ok", [(int(a), int(b)) for a, b in ras[1]["pairs"]])
    if tuple(model) != tuple(c["impl_as"]):
        add("correspondence", "collapse_as/diverges", "model %r, implementation %r" % (model, c["impl_as"]), case)
    if len(replies) > 1:
        rt = parse_reply(replies[1])
        if rt[0] != "ok":
            raise RuntimeError("driver answered %r for %s" % (replies[1], c["lines"][1]))
        mgroups = [(int(gk), sorted(int(m) for m in gm)) for gk, gm in rt[1]["groups"]]
        my = [t for t in rt[1]["y"]]
        (iy, ig) = c["impl_tie"]
        if ig != ("ok", mgroups):
            add("correspondence", "connected/diverges", "pairs %r: model groups %r, tools.connected %r" % (c["order"], mgroups, ig), case)
        if iy[0] != "ok" or [f2b(v) for v in iy[1]] != my:
            add("correspondence", "impose_as/diverges", "pairs %r on x=%r: model %r, impose_as %r" % (
                c["order"], c["args"]["x"], [common.b2f(t) for t in my], iy), case)
        # the harness's own transcription / reading of the hypothesis agree with the model
        pg = [(k, sorted(m)) for k, m in py_connected(c["order"])]
        if pg != mgroups or (rt[1]["nobridge"] == "true") == c["bridged"]:
            add("correspondence", "harness-classifier/diverges", "pairs %r: model groups %r nobridge=%s, harness groups %r bridged=%r" % (
                c["order"], mgroups, rt[1]["nobridge"], pg, c["bridged"]), case)
        # theorem applied_pairs_equal_partial, on the model's own output
        if rt[1]["nobridge"] == "true" and any(my[a] != my[b] for a, b in c["order"]):
            add("correspondence", "impose_as/model-contradicts-theorem", "noBridge holds but the model leaves a pair untied: %r" % (replies[1],), case)
        if rt[1]["grown"] == "true" and rt[1]["nobridge"] != "true":
            add("correspondence", "impose_as/model-contradicts-theorem", "oneComponentOrder without noBridge: %r" % (replies[1],), case)
        if rt[1]["grown"] == "true":
            bump(hist, "apply:one-component-grown-order")
    bump(hist, c["tag"])
    for key, what in c["findings"]:
        add("monitor", key, what, case)
    return case


# ------------------------------------------------------------------ solver level: chain collapses
def chain_case(rng, hist, big=False):
    """real solvers on an objective whose optimum has a CHAIN of parameters: consecutive members of the chain are
    within the collapse tolerance of each other, members two apart are not (non-transitive closeness).  `one-phase`:
    Solve with Or(CollapseAs, stop) from a random start (pairs are detected as the solver converges: across steps for
    DE / Nelder-Mead, mostly in one step for Powell).  `converge-first`: Solve with a plain stop condition, then install
    Or(CollapseAs, stop) and Solve again: the whole chain is detected in ONE step."""
    import numpy
    from mystic import solvers as ms, termination as mt
    from mystic.monitors import Monitor
    nd = rng.choice([3, 4, 4, 5, 6])
    solver_name = rng.choice(["DE", "DE2", "NM", "Powell", "Powell"])
    mode = rng.choice(["one-phase", "converge-first", "converge-first"])
    shape = rng.choice(["path", "path", "path", "fork"])
    m = rng.randint(3, min(nd, 5))
    idx = list(range(nd)); rng.shuffle(idx)
    chain = idx[:m]
    tol = rng.choice([2.0 ** -10, 2.0 ** -8])
    g = rng.choice([4, 6])
    base = dyadic(rng, -2, 2, 4)
    opt = [0.0] * nd
    far = list(range(1, nd + 1)); rng.shuffle(far)
    for t, k in enumerate(idx):
        opt[k] = base + rng.choice([-1.0, 1.0]) * (0.5 + far[t] * 0.75)
    step = 0.75 * tol
    if shape == "path":
        for t, k in enumerate(chain):
            opt[k] = base + t * step
    else:       # a centre with arms on both sides (arms on the same side coincide: mutually tied)
        opt[chain[0]] = base
        sides = [1.0, -1.0] + [rng.choice([1.0, -1.0]) for _ in range(m - 3)]
        for k, sg in zip(chain[1:], sides):
            opt[k] = base + sg * step
    wts = [rng.choice([1.0, 1.0, 4.0, 0.25]) for _ in range(nd)]

    def cost(x):
        return sum(wts[k] * (x[k] - opt[k]) ** 2 for k in range(nd))
    expected = sorted((min(a, b), max(a, b)) for ai, a in enumerate(chain) for b in chain[ai + 1:] if abs(opt[a] - opt[b]) <= tol)
    stop = rng.choice(["vtr", "vtr", "cog", "ncog"])
    stopc = {"cog": mt.ChangeOverGeneration(1e-13, 5 * g), "vtr": mt.VTR(1e-30), "ncog": mt.NormalizedChangeOverGeneration(1e-10, 4 * g)}[stop]
    order = [mt.CollapseAs(False, tol, g), stopc]
    rng.shuffle(order)
    term = mt.Or(*order)
    seed = rng.randrange(2 ** 31)
    _random.seed(seed); numpy.random.seed(seed)
    calls = []
    events = []

    def cost_fn(x):
        calls.append([float(v) for v in x])
        return cost(x)
    if solver_name in ("DE", "DE2"):
        s = (ms.DifferentialEvolutionSolver if solver_name == "DE" else ms.DifferentialEvolutionSolver2)(nd, rng.choice([10, 16]))
    elif solver_name == "NM":
        s = ms.NelderMeadSimplexSolver(nd)
    else:
        s = ms.PowellDirectionalSolver(nd)
    s.SetRandomInitialPoints([-4.0] * nd, [4.0] * nd)
    s.SetGenerationMonitor(Monitor())
    orig = s.Collapse
    universe0 = nd + nd * (nd - 1) // 2

    def wrapped(disp=False):
        if len(events) > universe0 + 2:
            raise CollapseLoopError("Collapse() called %d times for %d indices + pairs" % (len(events) + 1, universe0))
        before = mt.state(s._termination)
        n = len(calls)
        best = [float(v) for v in s.bestSolution]
        r = orig(disp)
        events.append({"ncalls": n, "collapse": r, "before": before, "after": mt.state(s._termination), "best": best,
                       "gens": s.generations, "orders": pair_orders(r)})
        return r
    s.Collapse = wrapped
    findings = []
    args = {"solver": solver_name, "mode": mode, "shape": shape, "nd": nd, "chain": chain, "opt": opt, "weights": wts, "tol": tol, "g": g,
            "stop": stop, "seed": seed, "expected_pairs": expected, "cost": "sum(w[k]*(x[k]-opt[k])**2)"}
    converged = None
    try:
        if mode == "converge-first":
            g1 = {"DE": 500, "DE2": 500, "NM": 900, "Powell": 12}[solver_name]
            s.SetEvaluationLimits(generations=g1)
            s.Solve(cost_fn, mt.VTR(1e-13))
            x1 = [float(v) for v in s.bestSolution]
            converged = max(abs(a - b) for a, b in zip(x1, opt)) <= tol / 16
            args["phase1"] = {"generations": s.generations, "best": x1, "converged": converged}
            s.SetEvaluationLimits(generations=s.generations + ((60 if big else 30) if solver_name != "Powell" else 8))
            s.Solve(cost_fn, term)
        else:
            s.SetEvaluationLimits(generations=(400 if big else 200) if solver_name != "Powell" else (40 if big else 20))
            s.Solve(cost_fn, term)
    except CollapseLoopError as e:
        findings.append(("solver/collapse-loop-does-not-terminate", "%s (collapses: %r)" % (e, [repr(ev["collapse"])[:120] for ev in events[-3:]])))
        return {"findings": findings, "tag": "chain:%s:%s:loop" % (solver_name, mode), "reports": [], "ncollapses": 0, "args": args}
    except Exception as e:     # noqa
        import traceback
        args["trace"] = traceback.format_exc()[-800:]
        findings.append(("solver/raises/%s/chain" % solver_name, "Solve raised %s: %s" % (type(e).__name__, e)))
        return {"findings": findings, "tag": "chain:%s:%s:raised" % (solver_name, mode), "reports": [], "ncollapses": 0, "args": args}
    res = analyse_run(s, solver_name, nd, calls, events, findings)
    # ---- coverage class: was a non-transitive chain applied, in one step or across steps
    per_event = [sorted(set(p for o in (e.get("orders") or {}).values() for p in o)) for e in events if e["collapse"]]
    allp = [p for ev in per_event for p in ev]
    if any(nontransitive(ev) for ev in per_event):
        cov = "one-step-chain"
        if any(py_bridged(o) for e in events for o in (e.get("orders") or {}).values()):
            cov += "+bridging-order"
    elif any(len(set(a) & set(b)) == 1 for i, ea in enumerate(per_event) for eb in per_event[i + 1:] for a in ea for b in eb):
        cov = "across-steps-chain"
    elif allp:
        cov = "pairs-no-chain"
    else:
        cov = "no-collapse"
    args.update({"final": res["final"], "relations": res["rels"], "ncalls": len(calls),
                 "events": [{"ncalls": e["ncalls"], "collapse": repr(e["collapse"]), "orders": e.get("orders"), "gens": e["gens"]} for e in events]})
    return {"findings": findings, "tag": "chain:%s:%s:%s" % (solver_name, mode, cov), "cov": cov, "reports": res["reports"],
            "ncollapses": res["ncoll"], "universe": res["universe"], "args": args}


# ------------------------------------------------------------------ shard
def run_shard(pid, seed, shard, ncases, tier, extra):
    import numpy
    common.import_mystic()
    numpy.seterr(all="ignore")
    only = (extra or {}).get("only")
    findings = []
    hist = {}
    samples = []
    cases = []
    lines = []
    nontrivial = 0
    evaluations = 0

    def add(kind, key, what, case):
        findings.append(Finding(kind, key, what, case))
    # ---- detectors
    nd = ncases if only in (None, "det") else 0
    for k in range(nd):
        rng = case_rng(PID + "/det", seed, shard, k)
        c = det_case(rng, hist)
        c["id"] = {"stream": "det", "seed": seed, "shard": shard, "k": k}
        cases.append(c); lines.append(c["line"])
    # ---- update_mask
    nu = max(1, ncases // 3) if only in (None, "upd") else 0
    for k in range(nu):
        rng = case_rng(PID + "/upd", seed, shard, k)
        c = upd_case(rng, hist)
        c["det"] = "upd"
        c["id"] = {"stream": "upd", "seed": seed, "shard": shard, "k": k}
        cases.append(c); lines.append(c["line"])
    # ---- product measures with factors of different sizes (own PRNG stream)
    nun = max(1, ncases // 5) if only in (None, "uneven") else 0
    for k in range(nun):
        rng = case_rng(PID + "/uneven", seed, shard, k)
        c = uneven_case(rng, hist)
        c["id"] = {"stream": "uneven", "seed": seed, "shard": shard, "k": k}
        cases.append(c); lines.append(c["line"])
    if isinstance(only, (list, tuple)):      # replay of one case
        stream, k = only[1], only[2]
        rng = case_rng(PID + "/" + stream, seed, shard, k)
        if stream == "det":
            c = det_case(rng, hist)
        elif stream == "upd":
            c = upd_case(rng, hist); c["det"] = "upd"
        elif stream == "uneven":
            c = uneven_case(rng, hist)
        else:
            c = None
        if c is not None:
            c["id"] = {"stream": stream, "seed": seed, "shard": shard, "k": k}
            cases.append(c); lines.append(c["line"])
    replies = leandrv.run_driver(lines)
    for c, rep in zip(cases, replies):
        evaluations += 1
        r = parse_reply(rep)
        case = {"id": c["id"], "request": c["line"], "args": c.get("args"), "impl": c["impl"], "model": rep}
        if r[0] == "bad-op":
            raise RuntimeError("driver answered bad-op for %s" % c["line"])
        det = c["det"]
        if det == "upd":
            if r[0] == "err":
                model = ("err", r[1])
            else:
                model = ("ok", canon_cond(common.parse_sexp(rep[rep.index("cond=") + 5:])[0]))
            impl = c["impl"] if c["impl"][0] == "err" else ("ok", canon_cond(common.parse_sexp(c["impl"][1])[0]))
            if model != impl:
                add("correspondence", "update_mask/diverges", "model %r, implementation %r" % (model, impl), case)
            bump(hist, c["tag"] + (":err" if impl[0] == "err" else ""))
            changed = impl[0] == "ok" and impl[1] != canon_cond(common.parse_sexp(c["csx"])[0])
            if changed:
                nontrivial += 1
                bump(hist, "upd:mask-changed")
        else:
            if r[0] == "err":
                model = ("err", r[1])
            elif det == "at":
                model = ("ok", [int(t) for t in r[1]["idx"]])
            elif det == "as":
                model = ("ok", [(int(a), int(b)) for a, b in r[1]["pairs"]])
            else:
                model = ("ok", r[1]["fmt"], [tuple(int(v) for v in t) for t in r[1]["hits"]])
            impl = tuple(c["impl"])
            if tuple(model) != impl:
                add("correspondence", "collapse_%s/diverges" % det, "model %r, implementation %r" % (model, impl), case)
            res = "err-" + impl[1] if impl[0] == "err" else ("empty" if not impl[-1] else "reports")
            bump(hist, "%s:%s" % (det, res))
            bump(hist, "%s:mask=%s" % (det, c.get("maskclass")))
            bump(hist, "%s:%s" % (det, c.get("gclass")))
            bump(hist, "%s:%s" % (det, c.get("shape")))
            if c.get("special"):
                bump(hist, "%s:special-floats-or-malformed" % det)
            if c.get("monitored"):
                bump(hist, "%s:definition-monitored" % det)
            if impl[0] == "ok" and impl[-1]:
                nontrivial += 1
            if len(samples) < 2 and impl[0] == "ok" and impl[-1] and c.get("maskclass") not in ("None",):
                samples.append(case)
        for key, what in c["findings"]:
            add("monitor", key, what, case)
    # ---- solver level
    ns = (extra or {}).get("nsolver", 0) if only in (None, "solver") else 0
    looplines = []
    loopcases = []
    for k in range(ns):
        rng = case_rng(PID + "/solver", seed, shard, k)
        c = solver_case(rng, hist, big=(tier == "thorough"))
        case = {"id": {"stream": "solver", "seed": seed, "shard": shard, "k": k, "tier": tier}, "args": c["args"]}
        evaluations += 1
        bump(hist, c["tag"])
        if c["ncollapses"]:
            nontrivial += 1
        for key, what in c["findings"]:
            add("monitor", key, what, case)
        if c["reports"]:
            looplines.append("C11 loop (n %d) (mask ()) (reports (%s))" % (c["universe"], " ".join(ints(r) for r in c["reports"])))
            loopcases.append((c, case))
    if isinstance(only, (list, tuple)) and only[1] == "solver":
        rng = case_rng(PID + "/solver", seed, shard, only[2])
        c = solver_case(rng, hist, big=(tier == "thorough"))
        case = {"id": {"stream": "solver", "seed": seed, "shard": shard, "k": only[2]}, "args": c["args"]}
        evaluations += 1
        for key, what in c["findings"]:
            add("monitor", key, what, case)
        if c["reports"]:
            looplines.append("C11 loop (n %d) (mask ()) (reports (%s))" % (c["universe"], " ".join(ints(r) for r in c["reports"])))
            loopcases.append((c, case))
    # ---- solver level, chain collapses (own PRNG stream)
    nc = (extra or {}).get("nchain", 0) if only in (None, "chain") else 0
    todo = list(range(nc))
    if isinstance(only, (list, tuple)) and only[1] == "chain":
        todo = [only[2]]
    for k in todo:
        rng = case_rng(PID + "/chain", seed, shard, k)
        c = chain_case(rng, hist, big=(tier == "thorough"))
        case = {"id": {"stream": "chain", "seed": seed, "shard": shard, "k": k, "tier": tier}, "args": c["args"]}
        evaluations += 1
        bump(hist, c["tag"])
        if c.get("cov") in ("one-step-chain", "one-step-chain+bridging-order", "across-steps-chain"):
            nontrivial += 1
        for key, what in c["findings"]:
            add("monitor", key, what, case)
        if c["reports"]:
            looplines.append("C11 loop (n %d) (mask ()) (reports (%s))" % (c["universe"], " ".join(ints(r) for r in c["reports"])))
            loopcases.append((c, case))
    # ---- detector -> constraint (apply)
    na = (extra or {}).get("napply", 0) if only in (None, "apply") else 0
    todo = list(range(na))
    if isinstance(only, (list, tuple)) and only[1] == "apply":
        todo = [only[2]]
    acases = []
    alines = []
    for k in todo:
        rng = case_rng(PID + "/apply", seed, shard, k)
        c = apply_case(rng, hist)
        c["id"] = {"stream": "apply", "seed": seed, "shard": shard, "k": k}
        acases.append(c); alines += c["lines"]
    areplies = leandrv.run_driver(alines) if alines else []
    pos = 0
    for c in acases:
        reps = areplies[pos:pos + len(c["lines"])]; pos += len(c["lines"])
        evaluations += 1
        lines += c["lines"]
        case = judge_apply(c, reps, add, hist)
        if c.get("order") and len(c["order"]) >= 2:
            nontrivial += 1
        if len(samples) < 3 and c.get("shape", "").startswith("chain-2"):
            samples.append(case)
    # ---- product measures: detector -> impose_measure (mapply), solver level (msolver); own PRNG streams
    for stream, fn, count in (("mapply", lambda r_: cm.mapply_case(r_, hist), (extra or {}).get("nmapply", 0)),
                              ("msolver", lambda r_: cm.msolver_case(r_, hist, big=(tier == "thorough")), (extra or {}).get("nmsolver", 0))):
        todo = list(range(count)) if only in (None, stream) else []
        if isinstance(only, (list, tuple)) and only[1] == stream:
            todo = [only[2]]
        mcases = []; mlines = []
        for k in todo:
            rng = case_rng(PID + "/" + stream, seed, shard, k)
            c = fn(rng)
            c["id"] = {"stream": stream, "seed": seed, "shard": shard, "k": k, "tier": tier}
            mcases.append(c); mlines += [p_["line"] for p_ in c["probes"]]
        mreplies = leandrv.run_driver(mlines) if mlines else []
        pos = 0
        for c in mcases:
            reps = mreplies[pos:pos + len(c["probes"])]; pos += len(c["probes"])
            evaluations += 1
            lines += [p_["line"] for p_ in c["probes"]]
            case = {"id": c["id"], "args": c["args"]}
            bump(hist, c["tag"])
            if c.get("nontrivial"):
                nontrivial += 1
            for key, what in c["findings"]:
                add("monitor", key, what, case)
            cm.judge_probes(c, reps, add, hist, case)
            if c.get("reports"):
                looplines.append("C11 loop (n %d) (mask ()) (reports (%s))" % (c["universe"], " ".join(ints(r) for r in c["reports"])))
                loopcases.append((c, case))
            if len(samples) < 5 and stream == "msolver" and c.get("nontrivial") and not any(s_.get("id", {}).get("stream") == "msolver" for s_ in samples if isinstance(s_.get("id"), dict)):
                samples.append({"id": c["id"], "args": {k_: v_ for k_, v_ in c["args"].items() if k_ not in ("events",)}})
    # ---- bounds collapse: collapse_cost vs Model/CollapseCost.lean (cost), solver level (csolver); own PRNG streams
    ncost = (extra or {}).get("ncost", 0) if only in (None, "cost") else 0
    todo = list(range(ncost))
    if isinstance(only, (list, tuple)) and only[1] == "cost":
        todo = [only[2]]
    ccases = []
    for k in todo:
        rng = case_rng(PID + "/cost", seed, shard, k)
        c = cc.cost_case(rng, hist)
        c["id"] = {"stream": "cost", "seed": seed, "shard": shard, "k": k, "tier": tier}
        ccases.append(c)
    creplies = leandrv.run_driver([c["line"] for c in ccases]) if ccases else []
    for c, rep in zip(ccases, creplies):
        evaluations += 1
        lines.append(c["line"])
        case = {"id": c["id"], "request": c["line"], "args": c["args"], "impl": c["impl"], "model": rep}
        r = cc.judge_cost(c, rep, add, case)
        if r[0] == "ok":
            bump(hist, "cost:model-chain-ordered=" + str(r[1].get("chain")))
        if c["nontrivial"]:
            nontrivial += 1
        for key, what in c["findings"]:
            add("monitor", key, what, case)
        if c["nontrivial"] and not any(isinstance(s_.get("id"), dict) and s_["id"].get("stream") == "cost" for s_ in samples):
            samples.append(case)
    ncs = (extra or {}).get("ncsolver", 0) if only in (None, "csolver") else 0
    todo = list(range(ncs))
    if isinstance(only, (list, tuple)) and only[1] == "csolver":
        todo = [only[2]]
    for k in todo:
        rng = case_rng(PID + "/csolver", seed, shard, k)
        c = cc.csolver_case(rng, hist, big=(tier == "thorough"))
        case = {"id": {"stream": "csolver", "seed": seed, "shard": shard, "k": k, "tier": tier}, "args": c["args"]}
        evaluations += 1
        bump(hist, c["tag"])
        if c["ncollapses"]:
            nontrivial += 1
        for key, what in c["findings"]:
            add("monitor", key, what, case)
    for (c, case), rep in zip(loopcases, leandrv.run_driver(looplines)):
        r = parse_reply(rep)
        lines.append("loop")
        # the real run applied one collapse per reporting round, and the masks are the union of the reports
        want_mask = sorted(set(v for rr in c["reports"] for v in rr))
        if r[0] != "ok" or int(r[1]["rounds"]) != c["ncollapses"] or sorted(int(t) for t in r[1]["mask"]) != want_mask:
            add("correspondence", "collapse-loop/diverges", "model %r, implementation: %d collapses, applied %r" % (rep, c["ncollapses"], c["reports"]), case)
        if int(r[1]["rounds"]) > c["universe"]:
            add("correspondence", "collapse-loop/bound", "model rounds %s exceed the proved bound %d" % (r[1]["rounds"], c["universe"]), case)
    return {"evaluations": evaluations, "nontrivial": nontrivial, "model_lines": len(lines), "findings": findings,
            "samples": samples, "hist": hist}


def canon_cond(sx):
    """parsed (p ty kw hasMask MASK) / (n ...) -> canonical nested tuples (sets and dicts sorted)"""
    if sx[0] == "n":
        return ("n", sx[1], tuple(canon_cond(t) for t in sx[2:]))
    m = sx[4]

    def el(e):
        return tuple(int(v) for v in e)
    if isinstance(m, str):
        cm = m
    elif m[0] == "set":
        cm = ("set", tuple(sorted(el(e) for e in m[1])))
    elif m[0] == "dict":
        cm = ("dict", tuple(sorted((int(kv[0]), tuple(sorted(el(e) for e in kv[1]))) for kv in m[1])))
    else:
        cm = ("where", m[1], tuple(int(v) for v in m[2]), tuple(el(e) for e in m[3]))
    return ("p", int(sx[1]), int(sx[2]), sx[3], cm)


# ------------------------------------------------------------------ known-finding witness (run first)
def witnesses():
    """collapse_position with a 'where' mask whose pairs are lists: the masked pair is reported"""
    common.import_mystic()
    from mystic import collapse as ct
    rows = [[0.5, 0.5, 1.0, 1.0], [0.5, 0.5, 1.0, 1.0]]
    mon = make_monitor(rows, (2,))
    mask = [[0], [[0, 1]]]
    res = ct.collapse_position(mon, 0.0, 2, mask)
    line = "C11 position (hist %s) (npts (p (2))) (tol %s) (gen 2) (mask (where (0) ((0 1)) false))" % (fll(rows), f2b(0.0))
    rep = leandrv.run_driver([line])[0]
    out = []
    case = {"id": "witness", "request": line, "args": {"hist": rows, "npts": (2,), "tolerance": 0.0, "generations": 2, "mask": repr(mask)},
            "impl": repr(res), "model": rep}
    fmt, hits = canon_p(res)
    if hits:
        out.append(Finding("monitor", "collapse_position/masked-pair-reported/where-mask-with-list-pairs",
                           "collapse_position(mask=[[0],[[0,1]]]) reports %r although (measure 0, pair (0,1)) is in the mask" % (hits,), case))
    r = parse_reply(rep)
    if r[0] != "ok" or [tuple(int(v) for v in t) for t in r[1]["hits"]] != hits:
        out.append(Finding("correspondence", "collapse_position/diverges", "witness: model %r, implementation %r" % (rep, hits), case))
    # F26: a path of four parameters reported by collapse_as and applied by impose_as in a bridging iteration order
    import numpy
    from mystic import constraints as cn
    tol = 2.0 ** -10
    rows = [[0.0, 1.5 * tol, 2.25 * tol, 5.0, 0.75 * tol]] * 3
    S = ct.collapse_as(make_monitor(rows), False, tol, 3, None)
    order = [(int(a), int(b)) for a, b in S]
    x = [10.0, 11.0, 12.0, 13.0, 14.0]
    y = [float(v) for v in cn.impose_as(S, False)(lambda v: v)(numpy.array(x))]
    line = "C11 tie (pairs (%s)) (x %s)" % (" ".join("(%d %d)" % p_ for p_ in order), fl(x))
    rep = leandrv.run_driver([line])[0]
    case = {"id": "witness", "request": line, "args": {"hist": rows, "tolerance": tol, "generations": 3, "pairs_in_iteration_order": order, "x": x},
            "impl": y, "model": rep}
    r = parse_reply(rep)
    if r[0] != "ok" or list(r[1]["y"]) != [f2b(v) for v in y]:
        out.append(Finding("correspondence", "impose_as/diverges", "witness: model %r, implementation %r" % (rep, y), case))
    bad = [p_ for p_ in order if y[p_[0]] != y[p_[1]]]
    if sorted(order) != [(0, 4), (1, 2), (1, 4)]:
        out.append(Finding("monitor", "collapse_as/not-per-definition", "witness: collapse_as returned %r for the path 0-4-1-2" % (order,), case))
    elif bad:
        key = "apply/pair-not-equal/connected-groups-not-merged" if set(bad) <= py_untied(order) else "apply/pair-not-equal"
        out.append(Finding("monitor", key, "collapse_as reported the path %r (iteration order); impose_as(pairs, False) turned %r into %r: x[%d] != x[%d]" % (
            order, x, y, bad[0][0], bad[0][1]), case))
    # F27: measure collapses of two rounds composed as Collapse() does (new round OUTSIDE the old one): round 1 collapses
    # the position pair (0,1), round 2 the weight index 0 (= the key of that pair's group)
    from mystic import tools as to
    npts = (3,)
    c1 = cn.impose_measure(npts, [{0: {(0, 1)}}], [])(lambda v: v)
    c2 = to.chain(cn.impose_measure(npts, [], [{0: {0}}]))(c1)
    x = [0.0, 0.5, 0.5, 2.0, 2.0, 6.0]
    y = [float(v) for v in c2(list(x))]
    rounds = [{"tr": [(0, [(0, 1)])], "nw": []}, {"tr": [], "nw": [(0, [0])]}]
    line = cm.measure_line(npts, rounds, x)
    rep = leandrv.run_driver([line])[0]
    c = {"probes": [{"line": line, "raw": x, "out": y, "nrounds": 2, "rounds": rounds,
                     "rels": cm.rels_of_round(rounds[0], 0) + cm.rels_of_round(rounds[1], 1),
                     "bad": [r_ for r_ in cm.rels_of_round(rounds[0], 0) + cm.rels_of_round(rounds[1], 1) if not cm.mrel_holds(r_, y, npts)],
                     "prefix": "mapply", "where": "witness: impose_measure result", "npts": npts, "sample": True}]}
    cm.judge_probes(c, [rep], lambda kind, key, what, case_: out.append(Finding(kind, key, what, case_)), {}, {"id": "witness"})
    return out


def main(tier, seed):
    t0 = time.time()
    proof = framework.proof_stage(PID, MODULE, THEOREMS, tier)
    nshards, per, nsolver, nchain, napply, nmapply, nmsolver, ncost, ncsolver = (16, 1000, 24, 20, 600, 200, 10, 300, 8) if tier == "quick" else (
        64, 6000, 150, 120, 4000, 2000, 60, 2500, 60)
    run = framework.run_shards("c11", "run_shard", PID, seed, nshards, per, tier,
                               extra={"nsolver": nsolver, "nchain": nchain, "napply": napply, "nmapply": nmapply,
                                      "nmsolver": nmsolver, "ncost": ncost, "ncsolver": ncsolver})
    run["findings"] = witnesses() + run["findings"]

    def search_more():
        r = framework.run_shards("c11", "run_shard", PID, seed + 7919, 32, 600, tier,
                                 extra={"nsolver": 10, "nchain": 10, "napply": 400, "nmapply": 200, "nmsolver": 8,
                                        "ncost": 400, "ncsolver": 8})
        return r["findings"]
    rule = ("streams: det = the four real detectors on generated monitors (flat/drifting/tied/near-tolerance/jump/random columns, "
            "dyadic values so that ties with the tolerance are exact, tolerances at a column's change and one ulp either side, 0, "
            "negative, inf; windows None/0/1/../T-1/T/T+1/longer/negative; T and n from 0; inf/nan/-0.0; ragged rows; masks None / "
            "sets of indices, pairs in both orientations, out-of-range and negative members / dict / set / 'where' in tuple and "
            "list flavours / rejected formats) compared on the returned members or the error enum; upd = mask.update_mask on "
            "And/Or/When trees; solver = DE, DE2, Nelder-Mead, Powell with Or(Collapse*, stop) on objectives with flat / zero / "
            "tied directions; apply = real collapse_as on histories realising a generated non-transitive pair graph (chains with "
            "the shared parameter at every index position, stars, paths, trees, cliques, several components) followed by the real "
            "impose_as(set, False) / tools.connected vs Model/CollapseApply.lean; chain = the four solvers on objectives with a "
            "non-transitive chain of close optima, collapsed in one step (converge first) or across steps; mapply = real "
            "collapse_weight / collapse_position on product-measure histories (dead weights and close positions of the same "
            "measure sharing indices: dead index = root of a pair / second member / unrelated; stars, triangles, paths) reported "
            "in one round or in successive rounds (second detection with the first output as mask), then the real "
            "impose_measure of every round chained as Collapse() does, vs Model/CollapseMeasure.lean; msolver = DE, DE2, "
            "Nelder-Mead, Powell on product-measure problems with Or(stop, CollapseWeight, CollapsePosition) (flat objective "
            "from a designed start, equal or different windows = one round or successive rounds; quadratic objectives with dead "
            "weights and coincident / chained positions at the optimum), every cost argument after a collapse and the final "
            "solution checked for weight == 0 / positions equal, the composed constraint recorded (input, output) and compared "
            "with the model on samples and on every failing input. non-trivial = a "
            "detector case that reports at least one member, an update_mask case that changed a mask, a solver run with at least "
            "one applied collapse, an apply case with at least two pairs, a chain run that applied a non-transitive chain, a "
            "mapply case with at least one collapsed weight or pair, a msolver run that applied both a weight and a position collapse; "
            "cost = the real collapse_cost on generated monitors (grids of several spacings, reversed / tied / constant / random "
            "columns, runs of good and bad records with lengths around `samples` at either end and in the interior, special "
            "floats, every mask spelling) vs Model/CollapseCost.lean + run-based definition monitors + termination round trip "
            "(non-trivial = reports at least one parameter); masks of stream cost are generated in every spelling the validation "
            "accepts (bare (lo,hi) tuple, list of tuples = documented; [lo,hi], list of lists, tuple of tuples / lists), the "
            "detector's own output is fed back in each of them, and whenever the harness's own intersection of the unmasked "
            "result with the mask IS the mask (nothing meets the test / own output / mask inside the fresh bounds) the detector "
            "and the CollapseCost condition (evaluated twice) must report nothing; the caller's mask object after the call is "
            "compared with the model (in-place rewrite of bare intervals); csolver = DE, DE2, Nelder-Mead, Powell with "
            "Or(CollapseCost(mask = None / the solver's bounds as tools.solver_bounds spells them / lists / partial / other "
            "containers), stop), driven by Solve() or step-wise with Collapsed()/Collapse(), on "
            "bowls with high plateaus; every applied cost collapse is justified against the unmasked detector on a copy of the "
            "recorded history (non-trivial = at least one applied cost collapse); uneven = collapse_weight / "
            "collapse_position on product measures with factors of different sizes")
    tb = ["Lean 4.33 kernel; axioms per theorem listed under coverage.theorems",
          "hand-written model Model/Collapse.lean tied to collapse.py / mask.py by this differential run only",
          "the generator builds every mask together with its model term (no classifier inspects the Python object)",
          "solver level (cost arguments after a collapse, final solution, state() masks, termination of Solve) is checked on the "
          "implementation by the monitor; the model side is the abstract collapse loop (Loop.run) replaying the real reports",
          "hand-written model Model/CollapseApply.lean (tools.connected + tie phase of impose_as) tied to tools.py / constraints.py "
          "by stream `apply` only; the offset loop of impose_as (offset False = 0) is not modelled",
          "class keys of failing relations: the harness's transcription py_connected / predict_composed of the unchanged "
          "composition (compared with the Lean model on every `apply` case) decides whether a failure is a recorded class",
          "measure collapses: Model/CollapseMeasure.lean = C19's Discrete.imposeMeasure (imported) over Clps.connected of the "
          "pairs in the real iteration order, rounds composed newest-first; tied to constraints.impose_measure / "
          "abstract_solver.Collapse by streams mapply and msolver (structure exact: NaN pattern, zero pattern of the weights, "
          "equality of collapsed pairs; values within rel 1e-9 because python's compensated sum / numpy's pairwise sum are not "
          "the model's sequential sums; bit-exact and toleranced agreements counted separately)",
          "a failing measure relation is a recorded class only when the Lean model of the unchanged composition breaks the same "
          "relation on the same recorded input and the mechanism is found on the model's own groups (c11_measure.classify)",
          "bounds collapse: hand-written model Model/CollapseCost.lean tied to collapse.collapse_cost / tools.interval_overlap by stream "
          "`cost` only (keys, interval end points as bit patterns, error enum); the sort permutation of columns with tied values "
          "is numpy's (passed to the model), of other columns the model's own stable sort; impose_bounds is not modelled (solver "
          "level monitored by stream `csolver`)",
          "class keys of failing cost-collapse clauses: c11_cost.definition_check / cost_case decide from the case itself "
          "(upper interval equal to value + count, clip with a bad extreme record, degenerate interval, empty intersection with "
          "the mask) whether a failure is a recorded class; stream `uneven`: the harness's transcription of the unchanged monitor "
          "views (compared with the Lean model on every case) decides whether a deviation is the recorded class of C20-K6"]
    assumptions = ["IEEE binary64 - and comparisons agree between Lean Float and numpy float64; numpy max/min/ptp reductions "
                   "propagate NaN (modelled)",
                   "detector results are compared as sets of members (row-major order of numpy.where is not compared)",
                   "monitor histories are lists of equal-length rows of floats; array-valued tolerances only for collapse_at",
                   "stream apply: parameter values are finite and never -0.0 (x[i] += False would turn -0.0 into 0.0); the pairs "
                   "are iterated in the order list(the_set) gives for the very set object handed to impose_as",
                   "streams mapply / msolver: equal factor sizes (the monitor's measure views reshape to (T, len(npts), -1)); "
                   "the member sets of tools.connected are iterated in insertion order by the model (only the order in which "
                   "weights are added up depends on it: inside the value tolerance)",
                   "stream cost: parameter values and mask entries are never NaN; `samples` is None or an int; costs are scalars; "
                   "numpy float64 + int64 at collapse.py l.318 equals Float + Float.ofNat (counts are small)"]
    return framework.finish(PID, tier, seed, t0, proof, run, rule, tb, assumptions, search_more=search_more)


def replay(path):
    common.import_mystic()
    data = json.load(open(path))
    cs = data.get("case")
    if cs is None and data.get("correspondence_not_checking"):
        cs = data["correspondence_not_checking"][0]["case"]
    if cs is None:
        print("replay: no stored case in %s (proof-stage failure: %r)" % (path, data.get("theorems_not_checking")))
        return 1
    leandrv.ensure_driver()
    if cs.get("id") == "witness":
        fs = witnesses()
    else:
        i = cs["id"]
        r = run_shard(PID, i["seed"], i["shard"], 0, i.get("tier", "quick"), {"only": ["one", i["stream"], i["k"]]})
        fs = r["findings"]
    known = {e["class_key"] for e in framework.load_known(PID)}
    rc = 0
    for f in fs:
        if f["class_key"] in known:
            print("KNOWN-FINDING: property=%s %s [%s]" % (PID, f["what"], f["class_key"]))
        else:
            print("VIOLATION property=%s replay=%s" % (PID, path)); print("  " + f["kind"] + ": " + f["class_key"] + ": " + f["what"][:400])
            rc = 1
    if not fs:
        print("replay: case passes (model and implementation agree, monitor holds)")
    return rc
