import sys, os, argparse, importlib, traceback
sys.path.insert(0, os.path.dirname(os.path.abspath(__file__)))
import common


def main():
    ap = argparse.ArgumentParser()
    ap.add_argument("pid")
    ap.add_argument("--tier", default=os.environ.get("VERIF_TIER", "quick"))
    ap.add_argument("--replay", default=None)
    a = ap.parse_args()
    tier = a.tier if a.tier in ("quick", "thorough") else "quick"
    seed = common.seed_env()
    try:
        mod = importlib.import_module(a.pid.lower())
        if a.replay:
            rc = mod.replay(a.replay)
        else:
            rc = mod.main(tier, seed)
    except SystemExit:
        raise
    except Exception:
        sys.stderr.write("harness failure (exit 2, not a verdict):\n" + traceback.format_exc())
        rc = 2
    sys.exit(rc)


if __name__ == "__main__":
    main()
