"""C14 - the argument SHAPES of generate_conditions / generate_penalty (model: lean/MysticVerif/Model/EmittedPShape.lean).

HOW the lines of a case reach generate_penalty:
  pair    one text; the pair (inequalities, equalities) generate_conditions returns is handed over as it is
  texts   a tuple / list / nesting of TEXTS (blocks of the lines, now and then an empty text, one-element wrappers):
          generate_conditions returns the pairs nested like the argument
  hand    a hand-made nesting (tuples, lists, empty groups, one-element wrappers) of the condition functions of one text
  flat    the flat list of them;   single  one function outside any sequence;   array  a 1-d numpy object array
and the FORM of `ptype`: None / one type / a flat list / a list nested like the conditions / nested differently / longer than
needed / too short / - a class of its own - a list as long as the OUTER sequence of nested conditions ("a list of
mystic.penalty types of the same length as conditions" read literally); with join=and_/or_: nothing / one type / an entry per
member (nested as deep as the conditions) / one list for every member / fewer entries than members.

Monitor (python's own reading of the text(s) and of the documented pairing - conditions and types are flattened and paired
one to one; None = the quadratic type of the condition's kind; one type = that type for every condition): for ALL lines of ALL
texts orientation and kind of the condition, penalty = the documented sum over every line, zero exactly where every line is
satisfied and positive elsewhere, with join=and_ zero exactly where every line holds, with join=or_ where all lines of one
member hold, zero at the output of the constraint generated from the same text(s).
"""
import math, warnings
import common
from common import fl, f2b, same_float, parse_reply, b2f
from framework import Finding
import symtrans as T
import c13

KEY_DROP = "generate_penalty/nested-conditions/ptype-list-as-long-as-outer-sequence/lines-unpenalised"
INEQ = ("<", "<=", ">", ">=")
EQ_TYPES = ["quadratic_equality", "linear_equality", "uniform_equality"]
IN_TYPES = ["quadratic_inequality", "linear_inequality", "uniform_inequality"]


def _c14():
    import c14
    return c14


# ------------------------------------------------------------------ the generator's own structure
def _split(rels2, idxs):
    """one text: inequality lines (text order), then equality lines (text order)"""
    return [k for k in idxs if rels2[k][1] in INEQ], [k for k in idxs if rels2[k][1] not in INEQ]


def cond_nest(case):
    """(nest, order): the nesting of the `conditions` argument over the positions 0.. of its flattening, and the line
    (index into case['rels2']) every position measures"""
    sh = case["shape"]; rels2 = case["rels2"]; m = len(rels2)
    if sh["how"] == "texts":
        order = []

        def leaf(b):
            ine, eq = _split(rels2, sh["blocks"][b])
            s = len(order); order.extend(ine + eq)
            return ["T", ["T"] + list(range(s, s + len(ine))), ["T"] + list(range(s + len(ine), s + len(ine) + len(eq)))]
        return c13.nest_subst(sh["tree"], leaf), order
    ine, eq = _split(rels2, range(m))
    if sh["how"] == "pair":
        return ["T", ["T"] + list(range(len(ine))), ["T"] + list(range(len(ine), m))], ine + eq
    return sh["tree"], ine + eq


def ptype_flat(pt):
    return [pt] if isinstance(pt, str) else [v for u in pt for v in ptype_flat(u)]


def ptype_depth(pt):
    return max([0] + [1 + ptype_depth(u) for u in pt if isinstance(u, list)])


def ptype_sexp(pt):
    if pt is None:
        return "none"
    return pt if isinstance(pt, str) else "(" + " ".join(ptype_sexp(u) for u in pt) + ")"


def own_reading(case, nest, kinds):
    """which penalty type every condition receives, and the members of a joined penalty, by the documented behaviour.
    names[pos] = type name, or None where the list handed over has no entry for that condition"""
    pt = case["ptype_s"]; join = case["join"]; m = len(kinds)

    def pair(positions, p):
        if p is None:
            return ["quadratic_inequality" if kinds[q] == "inequality" else "quadratic_equality" for q in positions]
        if isinstance(p, str):
            return [p] * len(positions)
        f = ptype_flat(p)
        return [f[k] if k < len(f) else None for k in range(len(positions))]
    names = [None] * m
    if not join:
        allpos = c13.nest_flat(nest)
        for q, nmq in zip(allpos, pair(allpos, pt)):
            names[q] = nmq
        return {"groups": [allpos], "names": names, "generr": False}
    items = c13.nest_top(nest)
    groups = [c13.nest_flat(t) for t in items]
    per_member = isinstance(pt, list) and ptype_depth(pt) >= c13.nest_depth(items)
    if per_member and len(pt) < len(items):
        return {"groups": groups, "names": names, "generr": True}         # next(p) on an exhausted iterator
    for g, entry in zip(groups, pt if per_member else [pt] * len(groups)):
        for q, nmq in zip(g, pair(g, entry)):
            names[q] = nmq
    return {"groups": groups, "names": names, "generr": False}


# ------------------------------------------------------------------ generator
def gen_shape(rng, case):
    rels2 = case["rels2"]; m = len(rels2)
    u = rng.random()
    how = "pair" if u < 0.27 else "texts" if u < 0.55 else "hand" if u < 0.80 else "flat" if u < 0.88 else "single" if u < 0.94 else "array"
    if how == "single" and m != 1:
        how = "hand"
    if m == 0 and how in ("single", "array"):
        how = "hand"                                                   # no line at all: empty text / empty collections
    sh = {"how": how}
    if how == "texts":
        if case["drive"]:
            # the solvers are generated from the same texts: lines on one left-hand variable stay in one text (the
            # constraints parser couples them)
            cuts = [p for p in range(1, m) if not ({r[0] for r in rels2[:p]} & {r[0] for r in rels2[p:]})]
        else:
            cuts = list(range(1, m))
        chosen = sorted(c for c in cuts if rng.random() < 0.6)
        edges = [0] + chosen + [m]
        blocks = [list(range(a, b)) for a, b in zip(edges, edges[1:])]
        if m == 0:
            blocks = [[] for _ in range(rng.choice([1, 1, 2]))]
        elif rng.random() < 0.15:
            blocks.insert(rng.randint(0, len(blocks)), [])            # an empty text: generate_conditions('') == ((), ())
        sh["blank"] = rng.choice(["", "", "   ", "\n  \n"])
        ids = list(range(len(blocks)))
        sh["blocks"] = blocks
        sh["tree"] = c13.gen_nest(rng, ids, 0) if rng.random() < 0.65 else c13.gen_nest(rng, ids, 2, empty=0.04)
    elif how == "hand":
        sh["tree"] = c13.gen_nest(rng, list(range(m)), rng.choice([1, 1, 2, 3]))
        if rng.random() < 0.15:
            sh["tree"] = [rng.choice("TL"), sh["tree"]]               # everything wrapped once more
    elif how == "flat":
        sh["tree"] = [rng.choice("TL")] + list(range(m))
    elif how == "single":
        sh["tree"] = 0
    elif how == "array":
        sh["tree"] = ["A"] + list(range(m))
    case["shape"] = sh
    if m == 0:
        case["iter"] = 0       # the penalty of NO condition is the bare `lambda x: 0.0` (no iter()/clear(); iteration state is C15's)
    nest, order = cond_nest(case)
    kinds = ["inequality" if rels2[k][1] in INEQ else "equality" for k in order]
    items = c13.nest_top(nest); groups = [c13.nest_flat(t) for t in items]
    k = case["k"]
    avail_in = IN_TYPES if k is not None else IN_TYPES[:2]
    avail_eq = EQ_TYPES if k is not None else EQ_TYPES[:2]
    sloppy = rng.random() < 0.12                                       # types that need not match the kind of their line

    def pick(q=None):
        if q is None or sloppy:
            return rng.choice(avail_in + avail_eq)
        return rng.choice(avail_in if kinds[q] == "inequality" else avail_eq)
    join = rng.choice([None] * 6 + ["and_", "and_", "or_", "or_"])
    if case["drive"] and join == "or_":
        join = None
    pt = None; form = "none"
    v = rng.random()
    if join is None:
        if v < 0.20:
            pass
        elif v < 0.32:
            pt = pick(); form = "one"
        elif v < 0.47:
            pt = [pick(q) for q in range(m)]; form = "flat"
        elif v < 0.62:
            pt = c13._untag(c13.nest_subst(nest, pick)) if isinstance(nest, list) else [pick(0)]; form = "mirror"
        elif v < 0.72:
            pt = c13._untag(c13.nest_subst(c13.gen_nest(rng, list(range(m)), 2, empty=0.04), pick)); form = "renest"
        elif v < 0.80:
            pt = [pick(q) for q in range(m)] + [pick() for _ in range(rng.randint(1, 2))]; form = "longer"
        elif v < 0.88 and m >= 2:
            keep = rng.randint(1, m - 1)
            pt = [pick(q) for q in range(keep)]; form = "short"
            if keep == len(items) and c13.nest_depth(items) >= 1:
                form = "outer-length"
        elif len(items) < m and isinstance(nest, list):
            # `a list of mystic.penalty types of the same length as conditions`, read literally for nested conditions
            if how in ("pair",) and len(items) == 2 and rng.random() < 0.6:
                pt = [rng.choice(avail_in), rng.choice(avail_eq)]       # one type for the inequalities, one for the equalities
            else:
                pt = [pick(g[0]) if g else pick() for g in groups]
            form = "outer-length"
        if form in ("flat", "mirror", "renest", "longer") and not ptype_flat(pt):
            pt = None; form = "none"
    else:
        case["iter"] = 0
        if v < 0.25:
            pass
        elif v < 0.38:
            pt = pick(); form = "one"
        elif v < 0.66:
            # as deep as the conditions: every member gets its own entry (a type, or the list of its group)
            pt = [pick(t) if not isinstance(t, list) else c13._untag(c13.nest_subst(t, pick)) for t in items]
            form = "per-member"
            if rng.random() < 0.12 and len(pt) >= 2:
                pt = pt[:rng.randint(1, len(pt) - 1)]; form = "fewer-than-members"
        elif v < 0.84:
            # flatter than the conditions: every member gets the WHOLE list
            size = max([len(g) for g in groups] + [1])
            pt = [pick() for _ in range(size + rng.choice([0, 0, 1]))]; form = "whole-list"
            if rng.random() < 0.2 and size >= 2:
                pt = pt[:rng.randint(1, size - 1)]; form = "whole-list-short"
        elif c13.nest_depth(items) >= 1 and groups and max(len(g) for g in groups) > len(items):
            pt = [pick() for _ in items]; form = "outer-length"
        if pt == []:
            pt = None; form = "none"
    case["ptype_s"] = pt
    case["ptype_form"] = form
    case["ptype_tuples"] = rng.random() < 0.4
    case["join"] = join
    case["ptype"] = None; case["grouping"] = None


# ------------------------------------------------------------------ running the implementation
def block_text(case, idxs):
    if not idxs:
        return case["shape"].get("blank", "")
    nm = c13.namer(case["scheme"])
    lines = ["%s %s %s" % (T.print_expr(l, nm), cmp, T.print_expr(r, nm)) for (l, cmp, r) in (case["rels2"][k] for k in idxs)]
    pad = "    " if len(lines) > 1 else ""
    return "\n".join(pad + l for l in lines)


def texts_arg(case):
    sh = case["shape"]
    return c13.py_build(sh["tree"], lambda b: block_text(case, sh["blocks"][b]))


def build_conditions(case, S, locs, kw):
    sh = case["shape"]
    if sh["how"] == "texts":
        return S.generate_conditions(texts_arg(case), locals=locs, **kw)
    pair = S.generate_conditions(block_text(case, list(range(len(case["rels2"])))), locals=locs, **kw)
    if sh["how"] == "pair":
        return pair
    flat = list(pair[0]) + list(pair[1])
    return c13.py_build(sh["tree"], lambda k: flat[k])


def py_ptype(pt, P, tuples):
    if pt is None:
        return None
    if isinstance(pt, str):
        return getattr(P, pt)
    seq = [py_ptype(u, P, tuples) for u in pt]
    return tuple(seq) if tuples else seq


def run_impl(case):
    from mystic import symbolic as S, penalty as P, coupler as CP
    c14 = _c14()
    kw = c13.mystic_args(case)
    sh = case["shape"]
    obs = {"text": repr(texts_arg(case)) if sh["how"] == "texts" else block_text(case, list(range(len(case["rels2"]))))}
    try:
        locs = dict(case["locals"]) if case["locals"] is not None else None
        cobj = build_conditions(case, S, locs, kw)
        conds = c13.py_flat(cobj)
        obs["conds"] = [(f.__name__, f.__doc__) for f in conds]
        obs["nest"] = c13.py_nest(cobj)
    except Exception as exc:
        obs["gen_raises"] = "%s: %s" % (type(exc).__name__, exc)
        return obs
    kwds = {}
    if case["k"] is not None:
        kwds["k"] = case["k"]
    if case["h"] is not None:
        kwds["h"] = case["h"]
    members = []
    pen = None
    try:
        ptype = py_ptype(case["ptype_s"], P, case.get("ptype_tuples"))
        if case["join"]:
            real = getattr(CP, case["join"])

            def jn(*ms):
                members[:] = ms
                return real(*ms)
            pen = S.generate_penalty(cobj, ptype=ptype, join=jn, **kwds)
        else:
            pen = S.generate_penalty(cobj, ptype=ptype, **kwds) if ptype is not None else S.generate_penalty(cobj, **kwds)
            for _ in range(case["iter"]):
                pen.iter()
        obs["pdoc"] = pen.__doc__
        obs["members"] = [mb.__doc__ for mb in members]
    except Exception as exc:
        obs["pen_gen_raises"] = "%s: %s" % (type(exc).__name__, exc)
    x = list(case["x"])
    if case["drive"]:
        try:
            locs = dict(case["locals"]) if case["locals"] is not None else None
            if sh["how"] == "texts":
                solv = S.generate_solvers(texts_arg(case), locals=locs, **kw)
            else:
                solv = S.generate_solvers(block_text(case, list(range(len(case["rels2"])))), locals=locs, **kw)
            cf = S.generate_constraint(solv)
            with warnings.catch_warnings():
                warnings.simplefilter("ignore")
                x = [float(v) for v in cf(list(x))]
        except ZeroDivisionError:
            obs["drive_raises"] = "zerodiv"; return obs
        except Exception as exc:
            obs["gen_raises"] = "constraint: %s: %s" % (type(exc).__name__, exc); return obs
    obs["point"] = x
    with warnings.catch_warnings():
        warnings.simplefilter("ignore")
        obs["cvals"] = c14.eval_conds(conds, x)
        if pen is not None:
            try:
                obs["pen"] = float(pen(list(x)))
                if case["join"]:
                    obs["parts"] = [float(mb(list(x))) for mb in members]
            except OverflowError:
                obs["pen_overflow"] = True      # python's float ** 2 raises where IEEE gives inf
            except Exception as exc:
                obs["pen_raises"] = "%s: %s" % (type(exc).__name__, exc)
        obs["cvals_again"] = c14.after_decoy(S, case, conds, x)
    return obs


# ------------------------------------------------------------------ request
def build_request(case, obs):
    rels2 = case["rels2"]; consts = case["consts"]
    nest, order = cond_nest(case)
    names = [nm for nm, _ in obs["conds"]]
    if len(names) != len(order):
        return None, "%d conditions emitted for %d lines" % (len(names), len(order))
    if obs.get("nest") != c13._untag(nest):
        return None, "the conditions come back nested as %r, the texts / the hand-made nesting prescribe %r" % (obs.get("nest"), c13._untag(nest))
    try:
        exprs = [T.parse_expr(doc, consts) for _, doc in obs["conds"]]
    except T.Untranslatable as exc:
        return None, "emitted source outside the modelled language: %s" % exc
    if any(nm not in ("inequality", "equality") for nm in names):
        return None, "a condition function is named %r" % (names,)
    tol = (case["locals"] or {}).get("tol", 1e-15); rel = (case["locals"] or {}).get("rel", 1e-15)
    np_names = lambda src: src.replace("mean(", "average(").replace("spread(", "ptp(")
    rs = []
    for k in order:
        lhs, cmp, rhs = rels2[k]
        rs.append("(%s %s %s)" % (T.sexp(T.parse_expr(np_names(T.print_expr(lhs, T.xj)), consts)), T.CMP_SYM[cmp],
                                  T.sexp(T.parse_expr(np_names(T.print_expr(rhs, T.xj)), consts))))
    cs = ["(%s %s)" % (nm, T.sexp(e)) for nm, e in zip(names, exprs)]
    kk = case["k"] if case["k"] is not None else 100
    hh = case["h"] if case["h"] is not None else 5
    join = case["join"]
    line = "C14 pens (tol %s) (rel %s) (k %s) (h %s) (n %d) (kj %s) (join %s) (x %s) (rels (%s)) (conds (%s)) (nest %s) (ptype %s)" % (
        f2b(tol), f2b(rel), f2b(float(kk)), f2b(float(hh)), case["iter"] if not join else 0, f2b(1.0),
        join.rstrip("_") if join else "none", fl(obs["point"]), " ".join(rs), " ".join(cs), c13.nest_sexp(nest), ptype_sexp(case["ptype_s"]))

    def _has(e, pred):
        return isinstance(e, tuple) and (pred(e) or any(_has(t, pred) for t in e[1:]))
    npfn = any(_has(e, lambda t: t[0] == "app1") for e in exprs)
    mayraise = any(_has(e, lambda t: t[0] == "/" or (t[0] == "app2" and t[3][0] == "n" and t[3][1] < 0)) for e in exprs)
    own = own_reading(case, nest, names)
    info = {"order": order, "names": names, "ptypes": own["names"], "groups": own["groups"], "generr": own["generr"],
            "K": float(kk) * float(hh) ** (case["iter"] if not join else 0), "K0": float(kk),
            "inexact": any(T.inexact(e) for e in exprs), "np_mayraise": npfn and mayraise, "nest": nest}
    info["tie"] = _c14().tie_flags(case, order, obs["point"]) if info["inexact"] else {}
    info["pow_overflow"] = _c14().overflow_flags(case, obs)
    return line, info


# ------------------------------------------------------------------ monitor (independent of the model)
def _sum_terms(c14, pairs, K):
    w = 0.0
    for p, c in pairs:
        w += c14.term_value(p, K, c)
    return w


def _close(a, b):
    return a == b or (a != a and b != b) or (math.isfinite(a) and math.isfinite(b) and abs(a - b) <= 1e-9 * max(abs(b), 1e-300))


def monitor(case, obs, info):
    c14 = _c14()
    out = []
    if "cvals" not in obs:
        return out
    x = obs["point"]
    out.extend(c14.later_compilation(obs))
    if not all(math.isfinite(v) for v in x):
        return out
    order = info["order"]; names = info["names"]; pts = info["ptypes"]; groups = info["groups"]
    join = case["join"]; form = case["ptype_form"]
    lo, status, usable = c14.line_status(case, obs, order, names)
    out.extend(lo)
    where = "generate_penalty(<conditions nested as %r>, ptype=%r%s)" % (c13._untag(info["nest"]), case["ptype_s"], (", join=%s" % join) if join else "")
    if info["generr"]:
        return out                      # fewer types than members: generate_penalty raises (checked against the model)
    if "pen_gen_raises" in obs:
        out.append(("penalty/shape/generate-raises", "%s raised %s (texts %s)" % (where, obs["pen_gen_raises"], obs["text"])))
        return out
    if "pen_overflow" in obs:
        return out
    if "pen" not in obs:
        if not (join == "or_" and not groups and "min()" in str(obs.get("pen_raises"))):       # or_ over no member at all
            out.append(("penalty/raises", "%s(x) raised %s" % (where, obs.get("pen_raises"))))
        return out
    pv = obs["pen"]
    if not usable or any(st is None for st in status):
        return out
    K = info["K"]
    if not (math.isfinite(K) and K > 0):
        return out
    cval = [st[0] for st in status]; sat = [st[1] for st in status]
    paired = [q for q in range(len(order)) if pts[q] is not None]
    dropped = [q for q in range(len(order)) if pts[q] is None]
    conform = all((pts[q] in IN_TYPES) == (names[q] == "inequality") for q in paired)
    big = all(abs(cval[q]) > 1e-100 for q in range(len(order)) if not sat[q]) and K >= 1e-3
    # the class of the recorded defect: a list as long as the OUTER sequence of nested conditions; any other too-short list is
    # outside the documented input ("of the same length as conditions") and only the pairing itself is checked
    items = c13.nest_top(info["nest"]); pt_s = case["ptype_s"]
    known_class = (bool(dropped) and isinstance(pt_s, list) and ptype_depth(pt_s) == 0 and len(pt_s) == len(items)
                   and c13.nest_depth(items) >= 1)
    if not join:
        # documented sum over the lines that have a type (every line when the list covers them)
        want = _sum_terms(c14, [(pts[q], cval[q]) for q in paired], K)
        if math.isfinite(want) and not _close(pv, want):
            out.append(("penalty/shape/sum" if not dropped else "penalty/shape/short-ptype/prefix-sum",
                        "%s = %r at x=%r is not the documented sum %r of the per-line terms (types %r, condition values %r, K=%r)" %
                        (where, pv, x, want, pts, cval, K)))
        if not dropped and conform:
            if pv < 0:
                out.append(("penalty/shape/negative", "%s = %r < 0 at x=%r" % (where, pv, x)))
            if all(sat) and pv != 0.0:
                out.append(("penalty/shape/zero-iff", "every line of %s is satisfied at x=%r (condition values %r) but %s = %r" % (obs["text"], x, cval, where, pv)))
            if not all(sat) and big and not (pv > 0):
                out.append(("penalty/shape/zero-iff", "a line of %s is violated at x=%r (condition values %r) but %s = %r" % (obs["text"], x, cval, where, pv)))
            if case["drive"] and pv != 0.0 and not _absorbed_ne(case, obs, order):
                out.append(("drive/penalty-not-zero", "%s(constraint(x)) = %r at constraint(x)=%r (texts %s)" % (where, pv, x, obs["text"])))
        elif known_class:
            # the property's clause on ALL lines, as stated: zero exactly where every line is satisfied
            if (all(sat) and pv != 0.0) or (not all(sat) and big and not (pv > 0)):
                out.append((KEY_DROP, "%s: %d types for %d conditions (zip of the two FLATTENED arguments) - the condition(s) %r get no penalty term: "
                            "at x=%r the condition values are %r (satisfied: %r) but the penalty is %r (texts %s)" %
                            (where, len(paired), len(order), [obs["conds"][q][1] for q in dropped], x, cval, sat, pv, obs["text"])))
        return out
    # ---- join
    parts = obs.get("parts")
    if parts is None or len(parts) != len(groups):
        out.append(("penalty/shape/join-members", "%s built %r members for %d top-level items" % (where, None if parts is None else len(parts), len(groups))))
        return out
    K0 = info["K0"]
    wantj = abs(sum(parts)) if join == "and_" else (abs(min(parts)) if parts else None)
    if wantj is not None and not (pv == wantj or (pv != pv and wantj != wantj) or
                                  (len(parts) > 2 and math.isfinite(wantj) and abs(pv - wantj) <= 1e-12 * abs(wantj))):
        out.append(("penalty/shape/join-%s" % join, "%s gives %r, member penalties %r" % (where, pv, parts)))
    for g, pvg in zip(groups, parts):
        want = _sum_terms(c14, [(pts[q], cval[q]) for q in g if pts[q] is not None], K0)
        if math.isfinite(want) and not _close(pvg, want):
            out.append(("penalty/shape/join-member-sum" if not dropped else "penalty/shape/short-ptype/member-prefix-sum",
                        "%s: the member over conditions %r gives %r at x=%r, the documented sum of its per-line terms is %r (types %r, values %r)" %
                        (where, g, pvg, x, want, [pts[q] for q in g], [cval[q] for q in g])))
    gsat = [all(sat[q] for q in g) for g in groups]
    bigj = all(abs(cval[q]) > 1e-100 for q in range(len(order)) if not sat[q]) and K0 >= 1e-3
    bad = None
    if pv == pv and K0 > 0:
        if join == "and_":
            if all(gsat) and pv != 0.0:
                bad = "every line is satisfied (condition values %r) but the and_-joined penalty is %r" % (cval, pv)
            elif not all(gsat) and bigj and not (pv > 0):
                bad = "a line is violated (condition values %r) but the and_-joined penalty is %r" % (cval, pv)
        else:
            if any(gsat) and pv != 0.0:
                bad = "all lines of one member are satisfied (condition values %r, members %r) but the or_-joined penalty is %r" % (cval, groups, pv)
            elif not any(gsat) and bigj and not (pv > 0):
                bad = "every member has a violated line (condition values %r, members %r) but the or_-joined penalty is %r" % (cval, groups, pv)
        if pv < 0:
            out.append(("penalty/shape/join-negative", "%s gives %r < 0" % (where, pv)))
    if bad:
        if not dropped and conform:
            out.append(("penalty/shape/join-%s/zero-iff" % join.rstrip("_"), "%s at x=%r: %s" % (where, x, bad)))
        elif known_class:
            out.append((KEY_DROP, "%s: the type list has %d entries, the members hold %r conditions - %s (x=%r, texts %s)" %
                        (where, len(ptype_flat(case["ptype_s"])), [len(g) for g in groups], bad, x, obs["text"])))
    if join == "and_" and case["drive"] and not dropped and conform and pv != 0.0 and not _absorbed_ne(case, obs, order):
        out.append(("drive/penalty-not-zero", "%s(constraint(x)) = %r at constraint(x)=%r (texts %s)" % (where, pv, x, obs["text"])))
    return out


def _absorbed_ne(case, obs, order):
    """a '!=' step that rounding absorbs (custom tiny tolerance): the constraint cannot move the point in floating point"""
    x = obs["point"]; consts = case["consts"]
    tol = (case["locals"] or {}).get("tol", 1e-15); rel = (case["locals"] or {}).get("rel", 1e-15)
    for k in order:
        lhs, cmp, rhs = case["rels2"][k]
        if cmp == "!=":
            R = float(T.py_eval(rhs, x, consts)); t = c13.tolf(R, tol, rel)
            if R + t * 1.1 == R:
                return True
    return False


# ------------------------------------------------------------------ correspondence with the Lean model
def _doc_pairs(doc):
    """the `(penalty type, condition source)` lines of a generated penalty's __doc__"""
    if not doc:
        return []
    return [tuple(l.split(": ", 1)) for l in doc.split("\n")]


def _shape_hist(c14, case, info, hist):
    sh = case["shape"]; nest = info["nest"]

    def walk(t, f):
        if isinstance(t, list):
            f(t)
            for u in t[1:]:
                walk(u, f)
    seen = set()

    def f(t):
        if len(t) == 1:
            seen.add("empty-group")
        if len(t) == 2:
            seen.add("one-element-wrapper")
    walk(nest, f)
    if sh["how"] == "texts":
        walk(sh["tree"], lambda t: seen.add("texts-in-a-list") if t[0] == "L" else None)
        if any(not b for b in sh["blocks"]):
            seen.add("empty-text")
        c14.bump(hist, "shape:texts:%d-texts" % len(sh["blocks"]))
    for tag in seen:
        c14.bump(hist, "shape:has:" + tag)
    c14.bump(hist, "shape:depth=%d" % (c13.nest_depth(c13.nest_top(nest))))
    if not case["rels2"]:
        c14.bump(hist, "shape:no-line-at-all")
    if case["drive"]:
        c14.bump(hist, "shape:drive")


def check_case(case, obs, rep, info, hist):
    c14 = _c14()
    fs = []
    cdesc = {"case": case, "impl": obs, "model": rep, "request": info.get("line")}
    r = parse_reply(rep)
    if r[0] != "ok":
        return [Finding("correspondence", "pens/model-%s" % r[0], "model replied %r" % (rep,), cdesc)]
    kv = r[1]
    join = case["join"]; how = case["shape"]["how"]
    c14.bump(hist, "shape:%s" % how); c14.bump(hist, "shape-ptype:%s%s" % ("join/" if join else "", case["ptype_form"]))
    _shape_hist(c14, case, info, hist)
    if any(b != "true" for b in kv["recog"]):
        bad = [obs["conds"][k] for k, b in enumerate(kv["recog"]) if b != "true"]
        fs.append(Finding("correspondence", "recogniseCond/rejected", "emitted condition(s) %r are not what the text's line must produce (recog=%r)" % (bad, kv["recog"]), cdesc))
    cf, skip = c14.compare_cvals(obs, info, kv["cvals"], hist, cdesc)
    fs.extend(cf)
    docs = [d for _, d in obs["conds"]]
    if kv["res"] == "generr":
        if "pen_gen_raises" in obs:
            c14.bump(hist, "shape:generate-raises(fewer types than members)")
        else:
            fs.append(Finding("correspondence", "penalty-shape/diverges", "the model raises while building the penalty, the implementation built one (doc %r)" % (obs.get("pdoc"),), cdesc))
        return fs
    if "pen_gen_raises" in obs:
        fs.append(Finding("correspondence", "penalty-shape/diverges", "generate_penalty raised %s, the model builds a penalty" % obs["pen_gen_raises"], cdesc))
        return fs
    # WHICH (type, condition) pairs were stacked: the model's pairing vs the generated penalty's own __doc__
    if not join:
        mpairs = [(t, docs[int(q)]) for t, q in zip(kv["types"], kv["used"])]
        if mpairs != _doc_pairs(obs.get("pdoc")):
            fs.append(Finding("correspondence", "penalty-shape/pairs", "the model stacks %r, the generated penalty documents %r" % (mpairs, _doc_pairs(obs.get("pdoc"))), cdesc))
        c14.bump(hist, "shape:cover=%s conform=%s" % (kv["cover"], kv["conform"]))
    else:
        mgroups = [[(t, docs[int(q)]) for t, q in zip(ts, g)] for ts, g in zip(kv["types"], kv["groups"])]
        igroups = [_doc_pairs(d) for d in obs.get("members", [])]
        if mgroups != igroups:
            fs.append(Finding("correspondence", "penalty-shape/members", "the model's members %r, the implementation's %r" % (mgroups, igroups), cdesc))
        c14.bump(hist, "shape:join:%s cover=%s conform=%s" % (join, kv["cover"], kv["conform"]))
    # the hypotheses of the shape theorems as the model decides them agree with the harness' own reading
    own_cover = all(p is not None for p in info["ptypes"])
    if (kv["cover"] == "true") != own_cover:
        fs.append(Finding("correspondence", "penalty-shape/cover", "model cover=%s, own reading of the pairing %r" % (kv["cover"], info["ptypes"]), cdesc))
    if skip:
        return fs
    if kv["res"] == "raises":
        if "pen_raises" in obs and "min()" in obs["pen_raises"]:
            c14.bump(hist, "shape:join-or-no-members")
        else:
            fs.append(Finding("correspondence", "penalty-shape/diverges", "the model's or_ over no members raises, the implementation %r" % (obs.get("pen", obs.get("pen_raises")),), cdesc))
        return fs
    mp = b2f(kv["pen"])
    if join:
        if "pen_overflow" in obs:
            c14.bump(hist, "pen:overflow"); return fs
        if "pen" not in obs:
            fs.append(Finding("correspondence", "penalty-shape/diverges", "implementation raised %s" % obs.get("pen_raises"), cdesc))
            return fs
        mparts = [b2f(v) for v in kv["parts"]]
        quad = any(p is not None and p.startswith("quadratic") for p in info["ptypes"])

        def near(a, b, rt):
            return same_float(a, b) or (math.isfinite(a) and math.isfinite(b) and
                                        (abs(a - b) <= rt * abs(a) or (info.get("inexact") and abs(a - b) <= 1e-6 * (1 + abs(a)))))
        ip = obs.get("parts", [])
        if len(ip) == len(mparts) and same_float(mp, obs["pen"]) and all(same_float(a, b) for a, b in zip(mparts, ip)):
            c14.bump(hist, "shape:join:%s:bit-exact" % join)
        elif len(ip) == len(mparts) and (quad or len(mparts) > 2 or info.get("inexact")) and near(mp, obs["pen"], 1e-12) and all(near(a, b, 1e-12) for a, b in zip(mparts, ip)):
            c14.bump(hist, "shape:join:%s:toleranced" % join)       # c**2 via C pow / python's compensated sum of > 2 members
        else:
            fs.append(Finding("correspondence", "penalty-shape/join-diverges", "join=%s: model %r members %r, implementation %r members %r" %
                              (join, mp, mparts, obs["pen"], ip), cdesc))
        return fs
    if "pen_raises" in obs:
        fs.append(Finding("correspondence", "penalty-shape/diverges", "implementation raised %s, model gives %r" % (obs["pen_raises"], mp), cdesc))
        return fs
    fs.extend(c14.compare_pen(obs, info, mp, hist, cdesc))
    return fs
