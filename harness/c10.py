"""C10 - termination conditions mean what they say, alone and in combination.
Correspondence: real mystic.termination (primitives, When/And/Or construction and the call modes
info=False/True/'self'/'not', state/type rebuilding) vs lean Model/Termination at Float (bit-exact verdicts).
Monitor: the documented inequality of every primitive (exact rational arithmetic), And=all / Or=any / When=same
on the expression as written, info names only satisfied members, info truthy iff satisfied, rebuilt == original."""
import sys, os, io, time, math, json, contextlib, warnings
from fractions import Fraction
import common
from common import case_rng, f2b, fl, fll, parse_reply, dyadic, gfloat, ulp_up, ulp_dn
import framework, leandrv
from framework import Finding

PID = "C10"
MODULE = "MysticVerif.Props.C10"
THEOREMS = [
    "MysticVerif.C10.and_iff",
    "MysticVerif.C10.or_iff",
    "MysticVerif.C10.when_iff",
    "MysticVerif.C10.evalB_eq_den",
    "MysticVerif.C10.build_den_partial",
    "MysticVerif.C10.when_or_unpacked_witness",
    "MysticVerif.C10.sibling_collision_witness",
    "MysticVerif.C10.info_only_satisfied",
    "MysticVerif.C10.info_truthy_iff_eval",
    "MysticVerif.C10.empty_and_witness",
    "MysticVerif.C10.rebuild_same",
    "MysticVerif.C10.vtr_spec",
    "MysticVerif.C10.cog_spec",
    "MysticVerif.C10.cog_none",
    "MysticVerif.C10.cog_negative_tolerance_witness",
    "MysticVerif.C10.ncog_spec",
    "MysticVerif.C10.crt_spec",
    "MysticVerif.C10.crt_spec_warn",
    "MysticVerif.C10.solimp_spec",
    "MysticVerif.C10.nct_spec",
    "MysticVerif.C10.nct_spec_window",
    "MysticVerif.C10.nct_spec_nowindow",
    "MysticVerif.C10.vtrcog_spec",
    "MysticVerif.C10.popspread_spec",
    "MysticVerif.C10.gradnorm_spec",
    "MysticVerif.C10.evallimits_spec",
    "MysticVerif.C10.timelimits_spec",
    "MysticVerif.C10.interrupt_spec",
    # deepening (1): GradientNormTolerance for every norm, on the solver's gradient or approx_fprime of the raw cost
    "MysticVerif.C10.gradp_eval",
    "MysticVerif.C10.gradp_given",
    "MysticVerif.C10.gradp_fallback",
    "MysticVerif.C10.gradp_neginf_raises",
    "MysticVerif.C10.approx_points_count",
    "MysticVerif.C10.approx_points_head",
    "MysticVerif.C10.bump_getElem?",
    "MysticVerif.C10.approxFprime_length",
    "MysticVerif.C10.approxFprime_affine",
    "MysticVerif.C10.gradp_inf_eq_gradnorm",
    "MysticVerif.C10.gradp_spec_inf",
    "MysticVerif.C10.gradp_spec_zero",
    "MysticVerif.C10.gradp_spec_fin",
    "MysticVerif.C10.gradp_spec_fallback",
    "MysticVerif.C10.gradp_fallback_witness",
    # deepening (1b): Collapse* conditions as termination conditions
    "MysticVerif.C10.collapse_at_spec",
    "MysticVerif.C10.collapse_as_spec",
    "MysticVerif.C10.collapse_report_iff",
    "MysticVerif.C10.collapse_guard",
    # deepening (2)/(3): conditions as dict keys, keys of state()
    "MysticVerif.C10.keyEq_refl",
    "MysticVerif.C10.keyEq_ignores_class",
    "MysticVerif.C10.keyEq_prim",
    "MysticVerif.C10.state_keys_spec",
]

INF = float("inf")
WARN = "Warning: Invalid termination condition (nPop < 2)"
KINDS = ["vtr", "cog", "ncog", "crt", "solimp", "nct", "vtrcog", "popspread", "gradnorm",
         "evallimits", "timelimits", "interrupt", "gradp", "gradp", "cat", "cas"]
NAN = float("nan")
EPS = 2.0 ** -26          # mystic._scipy060optimize._epsilon (checked against the module at import of mystic)


class CostFn(object):
    """the raw cost of the synthetic solver: c0 + sum_i (a_i x_i + b_i x_i^2), accumulated left to right in binary64;
    records the points it is called at"""

    def __init__(self, c0, a, b):
        self.c0, self.a, self.b = c0, list(a), list(b)
        self.calls = []

    def __call__(self, x):
        xs = [float(t) for t in x]
        self.calls.append(xs)
        s = self.c0
        for xi, ai, bi in zip(xs, self.a, self.b):
            s = (s + ai * xi) + bi * (xi * xi)
        return s


def own_approx(best, cost):
    """forward differences as documented for approx_fprime, by this harness's own loop"""
    f = CostFn(*cost)
    f0 = f(best)
    g = []
    for k in range(len(best)):
        x = [b + (EPS if j == k else 0.0) for j, b in enumerate(best)]
        g.append((f(x) - f0) / EPS)
    return g


def eff_grad(v):
    """the gradient GradientNormTolerance works on (None: it raises before)"""
    if not v.get("gradnone"):
        return list(v["grad"])
    if v.get("cost") is None:
        return None
    return own_approx(v["best"], v["cost"])


# ------------------------------------------------------------------ the synthetic solver view
class SolverView(object):
    pass


class Clock(object):
    """fake time.time / perf_counter / process_time (TimeLimits captures the function at construction)"""

    def __init__(self):
        self.t = [0.0, 0.0, 0.0]
        self.fns = [lambda: self.t[0], lambda: self.t[1], lambda: self.t[2]]

    def __enter__(self):
        self.saved = (time.time, time.perf_counter, time.process_time)
        time.time, time.perf_counter, time.process_time = self.fns
        return self

    def __exit__(self, *a):
        time.time, time.perf_counter, time.process_time = self.saved


def gen_value(rng, regime):
    if regime == "int":
        return float(rng.randint(-4, 6))
    if regime == "dyadic":
        return dyadic(rng, -6, 6, 8)
    return gfloat(rng, 8.0)


def gen_hist(rng, regime):
    n = rng.choice([0, 1, 1, 2, 2, 3, 3, 4, 5, 6, 8, 12])
    style = rng.choice(["mono", "mono", "plateau", "random", "infstart", "allinf", "tail-tie"])
    h = []
    if style == "mono":
        cur = gen_value(rng, regime) + 6.0
        for _ in range(n):
            if rng.random() < 0.55:
                cur = cur - abs(gen_value(rng, regime)) / rng.choice([1, 4, 64, 1024])
            h.append(cur)
    elif style == "plateau":
        c = gen_value(rng, regime)
        h = [c] * n
        if n > 2 and rng.random() < 0.5:
            h[0] = c + 1.0
    elif style == "random":
        h = [gen_value(rng, regime) for _ in range(n)]
    elif style == "infstart":
        k = rng.randint(0, n)
        cur = gen_value(rng, regime)
        h = [INF] * k + [cur - 0.25 * i for i in range(n - k)]
    elif style == "allinf":
        h = [rng.choice([INF, INF, -INF])] * n if rng.random() < 0.7 else [rng.choice([INF, -INF]) for _ in range(n)]
    else:
        h = [gen_value(rng, regime) for _ in range(n)]
        if n >= 2:
            j = rng.randrange(n - 1)
            h[j] = h[-1]
    return h


def gen_view(rng, regime):
    import numpy
    v = {}
    v["hist"] = gen_hist(rng, regime)
    dim = rng.choice([1, 1, 2, 2, 3, 4, 6, 7]) if regime == "float" else rng.choice([1, 2, 3, 4, 7, 9])
    if rng.random() < 0.03:
        dim = 0
    npop = rng.choice([0, 1, 2, 2, 3, 3, 4, 5])
    base = [gen_value(rng, regime) for _ in range(dim)]
    spread = rng.choice([0.0, 0.0, 2.0 ** -20, 2.0 ** -10, 0.125, 1.0])
    pop = []
    for i in range(npop):
        if i == 0 or spread == 0.0:
            pop.append(list(base))
        else:
            pop.append([b + spread * rng.randint(-2, 2) for b in base])
    if npop and dim and rng.random() < 0.1:
        pop[rng.randrange(npop)][rng.randrange(dim)] = rng.choice([INF, -INF])
    v["pop"] = pop
    ne = npop if rng.random() < 0.9 else rng.choice([0, 1, 2, 3])
    e0 = gen_value(rng, regime)
    espread = rng.choice([0.0, 2.0 ** -20, 0.125, 1.0])
    v["pope"] = [e0 + espread * rng.randint(0, 3) * (i > 0) for i in range(ne)]
    if ne and rng.random() < 0.1:
        v["pope"][rng.randrange(ne)] = INF
    if ne and rng.random() < 0.05:
        v["pope"] = [INF] * ne
    v["best"] = list(base)
    step = rng.choice([0.0, 2.0 ** -20, 2.0 ** -10, 0.125, 1.0])
    two_d = rng.random() < 0.25
    rows = rng.choice([1, 2, 2, 3]) if two_d else 1     # an empty trial population is not generated (numpy shape error)
    v["trial"] = [[b + step * rng.randint(-2, 2) for b in base] for _ in range(rows)]
    v["trial2d"] = two_d
    v["grad"] = [rng.choice([0.0, 2.0 ** -20, 0.125, -0.125, 1.0, -2.0]) * rng.randint(0, 2) for _ in range(dim)]
    if dim and rng.random() < 0.05:
        v["grad"][rng.randrange(dim)] = rng.choice([INF, float("nan")])
    v["gens"] = rng.choice([0, 1, 2, 3, 5, 10, len(v["hist"])])
    v["fcalls"] = rng.choice([0, 1, 7, 20, 100])
    v["early"] = rng.random() < 0.4
    v["clock"] = [dyadic(rng, 0, 64, 4), dyadic(rng, 0, 64, 4), dyadic(rng, 0, 64, 4)]
    v["np"] = rng.random() < 0.3          # energies stored as numpy.float64 (as real solvers do)
    # malformed populations: ragged rows, trial / best of different lengths (never a length of 1: numpy broadcasts it)
    if npop >= 2 and dim >= 2 and rng.random() < 0.04:
        r = rng.randrange(npop)
        v["pop"][r] = v["pop"][r][:-1] if rng.random() < 0.7 else v["pop"][r] + [0.0]
    if dim >= 3 and rng.random() < 0.04:
        if two_d and rows >= 2 and rng.random() < 0.5:
            v["trial"][rng.randrange(rows)].pop()                       # ragged trial population
        else:
            v["trial"] = [r[:-1] for r in v["trial"]]                   # len(trial) = len(best) - 1 >= 2
    # the step monitor's parameter history (read by the Collapse* conditions): usually as long as the energy history
    lg = len(v["hist"])
    ns = lg if rng.random() < 0.75 else rng.choice([0, 1, max(lg - 1, 0), lg + 1, 3])
    sdim = dim if rng.random() < 0.9 else rng.choice([1, 2, 3])
    cols = []
    for _ in range(sdim):
        c0 = gen_value(rng, regime)
        style = rng.choice(["const", "const", "settle", "drift", "random", "pair"])
        if style == "pair" and cols:
            off = rng.choice([0.0, 0.0, 0.125, 2.0 ** -20])
            cols.append([x + off * rng.choice([1, 1, 1, 0]) for x in cols[-1]])
        elif style == "const":
            cols.append([c0] * ns)
        elif style == "settle":
            k = rng.randint(0, ns)
            cols.append([c0 + 1.0 + i for i in range(k)] + [c0] * (ns - k))
        elif style == "drift":
            d = rng.choice([2.0 ** -20, 2.0 ** -10, 0.125])
            cols.append([c0 + d * rng.randint(-1, 1) for _ in range(ns)])
        else:
            cols.append([gen_value(rng, regime) for _ in range(ns)])
    v["steps"] = [[cols[j][i] for j in range(sdim)] for i in range(ns)]
    if ns >= 2 and sdim >= 2 and rng.random() < 0.03:
        v["steps"][rng.randrange(ns)].pop()                              # ragged monitor
    # the gradient: supplied by the solver, or (as for every mystic solver) absent -> approx_fprime of the RAW cost
    v["gradnone"] = rng.random() < 0.45
    v["gradattr"] = rng.choice(["absent", "none", "lastnone"])
    if rng.random() < 0.06:
        v["cost"] = None                                                # a solver view without `_cost`
    else:
        if regime == "float":
            co = lambda: rng.choice([0.0, 1.0, -1.0, gfloat(rng, 2.0)])
        else:
            co = lambda: float(rng.choice([0, 0, 1, -1, 2, -3])) * rng.choice([1.0, 0.5, 2.0 ** -12])
        v["cost"] = [co(), [co() for _ in range(dim)], [co() for _ in range(dim)]]
    if dim and rng.random() < 0.05:
        v["grad"][rng.randrange(dim)] = rng.choice([1e200, -1e200, 1e-200, 3e154])
    return v


def make_solver(v):
    import numpy
    s = SolverView()
    s.energy_history = [numpy.float64(x) for x in v["hist"]] if v["np"] else list(v["hist"])
    s.population = [list(r) for r in v["pop"]]
    s.popEnergy = list(v["pope"])
    s.bestSolution = list(v["best"])
    s.trialSolution = [list(r) for r in v["trial"]] if v["trial2d"] else (list(v["trial"][0]) if v["trial"] else [])
    if not v.get("gradnone"):
        s.gradient = [numpy.array(v["grad"], dtype=float)]
    elif v.get("gradattr") == "none":
        s.gradient = [None]
    elif v.get("gradattr") == "lastnone":
        s.gradient = [numpy.array(v["grad"], dtype=float), None]
    if v.get("cost") is not None:
        s._rawcost = CostFn(*v["cost"])
        s._cost = (None, s._rawcost, ())
    s.generations = v["gens"]
    s._fcalls = [v["fcalls"]]
    s._EARLYEXIT = v["early"]
    from mystic.monitors import Monitor
    s._stepmon = Monitor()
    s._stepmon._x = [list(r) for r in v.get("steps", [])]
    s._stepmon._y = [0.0] * len(s._stepmon._x)
    return s


# ------------------------------------------------------------------ primitives
_TOLTAGS = []      # how the tolerances of the current case were aimed (coverage histogram only)


def pick_tol(rng, q, allow_neg=True):
    """tolerance around the measured quantity q: exact tie, one ulp either side, looser, tighter, 0, inf, negative"""
    k = rng.random()
    aimed = True
    if q is None or q != q or q in (INF, -INF):
        q = abs(dyadic(rng, 0, 4, 8)); aimed = False
    pre = "tol:" if aimed else "tol(unaimed):"
    if k < 0.22:
        _TOLTAGS.append(pre + "tie"); return q
    if k < 0.34:
        _TOLTAGS.append(pre + "ulp-above"); return ulp_up(q)
    if k < 0.46:
        _TOLTAGS.append(pre + "ulp-below"); return ulp_dn(q)
    if k < 0.58:
        _TOLTAGS.append(pre + "looser"); return q + abs(dyadic(rng, 0, 2, 8)) + 0.125
    if k < 0.70:
        _TOLTAGS.append(pre + "tighter"); return q - abs(dyadic(rng, 0, 2, 8)) - 0.125
    if k < 0.78:
        _TOLTAGS.append("tol:zero"); return 0.0
    if k < 0.83:
        _TOLTAGS.append("tol:inf"); return INF
    if k < 0.90 and allow_neg:
        _TOLTAGS.append("tol:negative"); return -abs(dyadic(rng, 0, 2, 8)) - 0.125
    _TOLTAGS.append("tol:random"); return abs(gfloat(rng, 2.0))


def pick_gens(rng, lg):
    k = rng.random()
    if k < 0.06:
        return None
    if k < 0.11:
        return float(rng.choice([1, 2, max(lg - 1, 0)])) + rng.choice([0.0, 0.5, 0.75])      # floored by int()
    if k < 0.15:
        return -rng.randint(1, 3)                                                                # malformed
    return rng.choice([0, 1, 1, 2, 2, 3, max(lg - 2, 0), max(lg - 1, 0), max(lg - 1, 0), lg, lg + 1, lg + 5])


def py_index(h, i):
    try:
        return h[i]
    except IndexError:
        return None


def window(h, g):
    """(hist[-g], hist[-1]) as python reads it, or None"""
    gi = 0 if g is None else int(g)
    if not len(h) or len(h) <= gi:
        return None
    a = py_index(h, -gi)
    return None if a is None else (a, h[-1])


def gen_prim(rng, v, kind=None):
    """a primitive's settings, targeted at the view so that ties / one-ulp boundaries are hit"""
    kind = kind or rng.choice(KINDS)
    h = v["hist"]; lg = len(h)
    if kind == "vtr":
        tgt = rng.choice([0.0, gen_value(rng, "dyadic"), h[-1] if lg else 1.0])
        q = abs(h[-1] - tgt) if lg else None
        return ("vtr", pick_tol(rng, q), tgt)
    if kind == "cog":
        g = pick_gens(rng, lg)
        w = window(h, g)
        return ("cog", pick_tol(rng, (w[0] - w[1]) if w else None), g)
    if kind == "ncog":
        g = pick_gens(rng, lg)
        w = window(h, g)
        q = None
        if w and (abs(w[0]) + abs(w[1])) not in (0.0, INF) and w[0] - w[1] == w[0] - w[1]:
            q = 2.0 * (w[0] - w[1]) / (abs(w[0]) + abs(w[1]))
        return ("ncog", pick_tol(rng, q), g)
    if kind == "crt":
        pop = v["pop"]; pe = v["pope"]
        qx = qf = None
        try:
            qx = max(abs(a - b) for r in pop[1:] for a, b in zip(r, pop[0]))
            qf = max(abs(pe[0] - e) for e in pe[1:])
        except (ValueError, IndexError):
            pass
        return ("crt", pick_tol(rng, qx), pick_tol(rng, qf) if rng.random() < 0.6 else INF)
    if kind == "solimp":
        q = None
        if v["trial"]:
            sums = []
            for r in v["trial"]:
                s = None
                for b, t in zip(v["best"], r):
                    s = abs(b - t) if s is None else s + abs(b - t)
                sums.append(0.0 if s is None else s)
            q = max(sums)
        return ("solimp", pick_tol(rng, q))
    if kind == "nct":
        k = rng.random()
        g = pick_gens(rng, lg)
        if k < 0.5:
            return ("nct", None, abs(gfloat(rng, 1.0)), g)
        fval = rng.choice([0.0, 1.0, -2.0, gen_value(rng, "dyadic"), h[-1] if lg else 1.0])
        q = None
        if lg and fval not in (0.0, INF, -INF) and abs(h[-1]) != INF:
            q = abs(h[-1] - fval) / abs(fval)
        return ("nct", fval, pick_tol(rng, q), g)
    if kind == "vtrcog":
        g = pick_gens(rng, lg)
        w = window(h, g)
        tgt = rng.choice([0.0, gen_value(rng, "dyadic"), h[-1] if lg else 1.0])
        qf = abs(h[-1] - tgt) if lg else None
        ftol = pick_tol(rng, qf) if rng.random() < 0.6 else -1.0
        return ("vtrcog", ftol, pick_tol(rng, (w[0] - w[1]) if w else None), g, tgt)
    if kind == "popspread":
        pop = v["pop"]
        q = None
        try:
            rat = [abs(a - b) / abs(b) for r in pop for a, b in zip(r, pop[0]) if b not in (0.0, INF, -INF) and abs(a) != INF]
            q = max(rat) if rat else None
        except (IndexError, ValueError):
            pass
        return ("popspread", pick_tol(rng, q))
    if kind == "gradnorm":
        gr = [abs(x) for x in v["grad"] if x == x]
        return ("gradnorm", pick_tol(rng, max(gr) if gr else None))
    if kind in ("cat", "cas"):
        steps = v.get("steps", [])
        sdim = len(steps[0]) if steps else 0
        g = rng.choice([0, 1, 2, 2, max(lg - 2, 0), max(lg - 1, 0), max(lg - 1, 0), lg, lg + 1, len(steps), -1])
        win = steps[-g:] if steps else []
        k = rng.random()
        if k < 0.5:
            mask = None
        elif k < 0.72:
            mask = {"set": sorted(set(rng.randint(-1, max(sdim, 1)) for _ in range(rng.randint(0, 2))))}
        elif k < 0.86 and kind == "cas":
            mask = {"set": [[rng.randrange(max(sdim, 1)), rng.randrange(max(sdim, 1))] for _ in range(rng.randint(1, 2))]
                    + ([rng.randrange(max(sdim, 1))] if rng.random() < 0.3 else [])}
        elif k < 0.93:
            mask = {"set": [0, [0, 1, 2]] if kind == "cas" else [[0, 1]]}    # bad element: ValueError
        else:
            mask = {"list": [0]}                                              # not a set: TypeError
        rect = bool(win) and all(len(r) == len(win[0]) for r in win) and len(win[0]) > 0 and \
            all(_finite(*r) for r in win)
        if kind == "cat":
            tk = rng.random()
            if tk < 0.45 or not rect:
                tgt = None
            elif tk < 0.7:
                tgt = rng.choice([win[-1][rng.randrange(len(win[0]))], 0.0, gen_value(rng, "dyadic")])
            else:
                tgt = [r_ + rng.choice([0.0, 0.0, 0.125]) for r_ in win[-1]]
                if rng.random() < 0.1:
                    tgt = tgt[:-1] if len(tgt) > 1 else tgt + [0.0]
            q = None
            if rect:
                i = rng.randrange(len(win[0]))
                col = [r[i] for r in win]
                if tgt is None:
                    q = max(col) - min(col)
                else:
                    t = tgt if not isinstance(tgt, list) else (tgt[i] if i < len(tgt) else tgt[0])
                    q = max(abs(x - t) for x in col)
            tol = pick_tol(rng, q)
            if rng.random() < 0.1:
                tol = [tol, pick_tol(rng, q)]
            return ("cat", tgt, tol, g, mask)
        q = None
        if rect and len(win[0]) >= 2:
            i, j = rng.sample(range(len(win[0])), 2)
            d = [abs(r[i] - r[j]) for r in win]
            off = rng.random() < 0.4
            q = (max(d) - min(d)) if off else max(d)
        else:
            off = rng.random() < 0.4
        return ("cas", off, pick_tol(rng, q), g, mask)
    if kind == "gradp":
        p = rng.choice([0, 0.0, 1, 1.0, 2, 2.0, 2, 3, 4.0, 0.5, 1.5, 2.5, 7, -1.0, -2.0, 100.0, 1e-3, INF, INF, -INF, NAN])
        g = eff_grad(v)
        q = gradp_value(g, p) if g is not None else None
        if gradp_class(g, p) == "exact":
            return ("gradp", pick_tol(rng, q), p)
        # inexact power / pairwise sum: the tolerance keeps a relative distance >= 2^-20 from the norm
        if q is None or q != q or q in (INF, -INF):
            q = abs(dyadic(rng, 0, 4, 8))
        tol = rng.choice([q * (1 + 2.0 ** -16), q * (1 - 2.0 ** -16), 2 * q + 1.0, q / 2 - 0.125, 0.0, INF, -1.0])
        _TOLTAGS.append("tol(toleranced-stream)")
        return ("gradp", tol, p)
    if kind == "evallimits":
        def lim(cur):
            return rng.choice([None, None, 0, cur - 1, cur, cur + 1, cur + 10, -1])
        return ("evallimits", lim(v["gens"]), lim(v["fcalls"]))
    if kind == "timelimits":
        sysm = rng.choice([None, True, False])
        i = {None: 0, True: 1, False: 2}[sysm]
        start = [dyadic(rng, 0, 32, 4) for _ in range(3)]
        el = v["clock"][i] - start[i]
        sec = rng.choice([el, ulp_up(el), ulp_dn(el), -el, 0.0, abs(el) + 1.0, 86400.0, INF])
        return ("timelimits", sec, sysm, start)
    return ("interrupt",)


def _powp(x, p):
    import math
    try:
        return math.pow(x, p)
    except (OverflowError, ValueError, ZeroDivisionError):
        return NAN


def gradp_value(g, p):
    """the documented norm sum(abs(g)**p)**(1/p) in floats (only used to aim tolerances and to decide far-from-boundary
    cases); None when undefined"""
    if g is None or p != p or p == -INF:
        return None
    if p == 0:
        return float(sum(1 for x in g if x != 0.0))
    if p == INF:
        return max([abs(x) for x in g]) if g and all(x == x for x in g) else None
    if any(x != x for x in g):
        return None
    s = 0.0
    for x in g:
        s = s + _powp(abs(x), p)
    if s == 0.0 and p < 0:
        return None
    return _powp(s, 1.0 / p)


def gradp_class(g, p):
    """'exact': the real code's float evaluation is reproduced bit for bit by the model (every power is exactly
    representable or a correctly rounded operation, the sum is sequential or exact); 'toleranced' otherwise"""
    if g is None:
        return "exact"
    if p != p:
        return "exact"
    if p == 0 or p in (INF, -INF):
        return "exact"
    if not _finite(*g):
        return "toleranced"
    # numpy's array power is a SIMD routine (not libm) except for the fast paths square / identity / sqrt / reciprocal,
    # and sums of 8 or more terms are pairwise: bit-exact only with correctly rounded elementwise operations and a
    # sequential sum (<= 7 terms), or when everything is a small integer (every power and every partial sum, in any
    # order, is exact)
    ints = all(float(x).is_integer() for x in g)
    small = False
    if ints and float(p) == int(p) and 1 <= p <= 8:
        small = sum(abs(Fraction(x)) ** int(p) for x in g) < 2 ** 53
    if p in (1, 2, 0.5, -1) and len(g) <= 7:
        return "exact"
    if small:
        return "exact"
    return "toleranced"


_NPSET = [False]     # settings handed to the factories as numpy scalars (docs then read `np.float64(1.0)`)


def _np(x):
    import numpy
    if not _NPSET[0] or isinstance(x, bool) or x is None:
        return x
    if isinstance(x, float):
        return numpy.float64(x)
    if isinstance(x, int):
        return numpy.int64(x)
    return x


def build_prim(spec, clock):
    """call the real factory (TimeLimits under the fake clock reading `start`)"""
    from mystic import termination as T
    k = spec[0]
    if _NPSET[0] and k not in ("cat", "cas", "timelimits", "interrupt"):
        spec = tuple([spec[0]] + [_np(x) for x in spec[1:]])
    if k == "vtr":
        return T.VTR(spec[1], spec[2])
    if k == "cog":
        return T.ChangeOverGeneration(spec[1], spec[2])
    if k == "ncog":
        return T.NormalizedChangeOverGeneration(spec[1], spec[2])
    if k == "crt":
        return T.CandidateRelativeTolerance(spec[1], spec[2])
    if k == "solimp":
        return T.SolutionImprovement(spec[1])
    if k == "nct":
        return T.NormalizedCostTarget(spec[1], spec[2], spec[3])
    if k == "vtrcog":
        return T.VTRChangeOverGeneration(spec[1], spec[2], spec[3], spec[4])
    if k == "popspread":
        return T.PopulationSpread(spec[1])
    if k == "gradnorm":
        return T.GradientNormTolerance(spec[1])
    if k == "gradp":
        return T.GradientNormTolerance(spec[1], spec[2])
    if k == "cat":
        return T.CollapseAt(target=spec[1], tolerance=spec[2], generations=spec[3], mask=mask_py(spec[4]))
    if k == "cas":
        return T.CollapseAs(offset=spec[1], tolerance=spec[2], generations=spec[3], mask=mask_py(spec[4]))
    if k == "evallimits":
        return T.EvaluationLimits(spec[1], spec[2])
    if k == "timelimits":
        clock.t = list(spec[3])
        return T.TimeLimits(spec[1], spec[2])
    return T.SolverInterrupt()


def mask_py(m):
    """the python `mask` argument of a Collapse* condition from its JSON-friendly description"""
    if m is None:
        return None
    if "list" in m:
        return list(m["list"])
    return set(tuple(e) if isinstance(e, (list, tuple)) else e for e in m["set"])


def mask_sexp(m):
    if m is None:
        return "none"
    if "list" in m:
        return "other"
    return "(set (%s))" % " ".join(("(q %s)" % " ".join(str(int(i)) for i in e)) if isinstance(e, (list, tuple)) else str(int(e))
                                   for e in m["set"])


def oi(g):
    return "none" if g is None else str(int(g))


_GRADNONE = [False]      # the view of the case being encoded has no solver gradient


def norm_sexp(p):
    if p == 0:
        return "zero"
    if p == INF:
        return "inf"
    if p == -INF:
        return "neginf"
    return "(fin %s)" % f2b(float(p))


def prim_sexp(spec, oid, did):
    k = spec[0]
    if k == "cat":
        tgt = spec[1]
        ts = "none" if tgt is None else ("(v %s)" % fl(tgt) if isinstance(tgt, (list, tuple)) else "(s %s)" % f2b(tgt))
        tols = spec[2] if isinstance(spec[2], (list, tuple)) else [spec[2]]
        return "(p %d %d collapseAt %s %s %d %s)" % (oid, did, ts, fl(tols), spec[3], mask_sexp(spec[4]))
    if k == "cas":
        return "(p %d %d collapseAs %s %s %d %s)" % (oid, did, "true" if spec[1] else "false", f2b(spec[2]), spec[3],
                                                     mask_sexp(spec[4]))
    if k == "gradp" or (k == "gradnorm" and _GRADNONE[0]):
        body = "gradnormP %s %s" % (f2b(spec[1]), norm_sexp(spec[2] if k == "gradp" else INF))
        return "(p %d %d %s)" % (oid, did, body)
    if k == "vtr":
        body = "vtr %s %s" % (f2b(spec[1]), f2b(spec[2]))
    elif k in ("cog", "ncog"):
        body = "%s %s %s" % (k, f2b(spec[1]), oi(spec[2]))
    elif k == "crt":
        body = "crt %s %s" % (f2b(spec[1]), f2b(spec[2]))
    elif k in ("solimp", "popspread", "gradnorm"):
        body = "%s %s" % (k, f2b(spec[1]))
    elif k == "nct":
        body = "nct %s %s %s" % ("none" if spec[1] is None else f2b(spec[1]), f2b(spec[2]), oi(spec[3]))
    elif k == "vtrcog":
        body = "vtrcog %s %s %s %s" % (f2b(spec[1]), f2b(spec[2]), oi(spec[3]), f2b(spec[4]))
    elif k == "evallimits":
        body = "evallimits %s %s" % (oi(spec[1]), oi(spec[2]))
    elif k == "timelimits":
        sysm = {None: "none", True: "true", False: "false"}[spec[2]]
        body = "timelimits %s %s %s %s %s" % (f2b(spec[1]), sysm, f2b(spec[3][0]), f2b(spec[3][1]), f2b(spec[3][2]))
    else:
        body = "interrupt"
    return "(p %d %d %s)" % (oid, did, body)


# ------------------------------------------------------------------ expressions
def gen_expr(rng, nprims, depth):
    """('p', i) | ('when', e) | ('and', [e..]) | ('or', [e..]); primitives are reused (same object)"""
    k = rng.random()
    if depth <= 0 or k < 0.30:
        return ("p", rng.randrange(nprims))
    if k < 0.42:
        return ("when", gen_expr(rng, nprims, depth - 1))
    op = "and" if k < 0.71 else "or"
    n = rng.choice([0, 1, 1, 2, 2, 2, 2, 3, 3, 4])
    if n == 0 and rng.random() < 0.5:
        n = 2
    es = [gen_expr(rng, nprims, depth - 1) for _ in range(n)]
    if n >= 2 and rng.random() < 0.10:
        es[1] = es[0]                       # the same member twice (the same subtree: equal keys of the same class)
    if n >= 2 and rng.random() < 0.08:
        # sibling tuples with equal members but different classes (dict key collision)
        a, b = ("p", rng.randrange(nprims)), ("p", rng.randrange(nprims))
        pair = [("and", [a, b]), ("or", [a, b])]
        rng.shuffle(pair)
        es[0], es[1] = pair
    return (op, es)


def gen_expr2(rng, e, nprims):
    """a second expression over the same primitive objects: the same tree, the same tree under other classes (equal as
    tuples!), with one primitive replaced, a member dropped / repeated, or an unrelated tree"""
    k = rng.random()
    if k < 0.15:
        return e

    def reclass(x, deep):
        if x[0] == "p":
            return x
        if x[0] == "when":
            return (rng.choice(["and", "or"]), [reclass(x[1], deep)]) if rng.random() < 0.5 else ("when", reclass(x[1], deep))
        nm = rng.choice(["and", "or"]) if (deep or rng.random() < 0.7) else x[0]
        return (nm, [reclass(y, deep) if deep else y for y in x[1]])
    if k < 0.5:
        return reclass(e, rng.random() < 0.5)

    def mutate(x):
        if x[0] == "p":
            return ("p", rng.randrange(nprims))
        if x[0] == "when":
            return ("when", mutate(x[1]))
        ys = list(x[1])
        if not ys:
            return (x[0], [("p", rng.randrange(nprims))])
        j = rng.randrange(len(ys))
        c = rng.random()
        if c < 0.4:
            ys[j] = mutate(ys[j])
        elif c < 0.6:
            ys.pop(j)
        elif c < 0.8:
            ys.insert(j, ys[j])
        else:
            ys.reverse()
        return (x[0], ys)
    if k < 0.85:
        return mutate(e)
    return gen_expr(rng, nprims, rng.choice([0, 1, 2]))


def expr_sexp(e, specs, dids):
    if e[0] == "p":
        return prim_sexp(specs[e[1]], e[1], dids[e[1]])
    if e[0] == "when":
        return "(when %s)" % expr_sexp(e[1], specs, dids)
    return "(%s%s)" % (e[0], "".join(" " + expr_sexp(x, specs, dids) for x in e[1]))


def expr_build(e, objs):
    from mystic import termination as T
    if e[0] == "p":
        return objs[e[1]]
    if e[0] == "when":
        return T.When(expr_build(e[1], objs))
    cls = T.And if e[0] == "and" else T.Or
    return cls(*[expr_build(x, objs) for x in e[1]])


def expr_prims(e):
    if e[0] == "p":
        return [e[1]]
    if e[0] == "when":
        return expr_prims(e[1])
    return [i for x in e[1] for i in expr_prims(x)]


def struct_str(c, objs):
    from mystic import termination as T
    if isinstance(c, tuple):
        nm = "or" if isinstance(c, T.Or) else ("and" if isinstance(c, T.And) else "when")
        return "(" + " ".join([nm] + [struct_str(m, objs) for m in c]) + ")"
    for i, o in enumerate(objs):
        if o is c:
            return "o%d" % i
    return "?"


def struct_shape(c, docmap):
    """class names and nesting of a condition (primitives as their doc id)"""
    from mystic import termination as T
    if isinstance(c, tuple):
        nm = "or" if isinstance(c, T.Or) else ("and" if isinstance(c, T.And) else "when")
        return (nm,) + tuple(struct_shape(m, docmap) for m in c)
    return docmap.get(c.__doc__, c.__doc__)


def exc_enum(exc):
    if isinstance(exc, IndexError):
        return "index"
    if isinstance(exc, ValueError):
        return "value"
    if isinstance(exc, TypeError):
        return "type"
    if isinstance(exc, AttributeError):
        return "attr"
    return "other:" + type(exc).__name__


def call(f, *a):
    try:
        with contextlib.redirect_stdout(io.StringIO()):
            return ("ok", f(*a))
    except Exception as exc:          # noqa
        return ("err", exc_enum(exc))


def pout(r):
    if r[0] == "err":
        return "err-" + r[1]
    x = r[1]
    if isinstance(x, str) and x == WARN:
        return "warn"
    return "sat" if x else "unsat"


def payload_of(r, doc):
    """what a satisfied Collapse* condition reports after ' at ' as a sorted list of index lists ('n': nothing / not a
    Collapse* report; '?..': unreadable)"""
    import numpy
    if r[0] != "ok" or not isinstance(r[1], str) or not r[1].startswith(doc + " at "):
        return "n"
    text = r[1][len(doc) + 4:]
    try:
        val = eval(text, {"np": numpy, "numpy": numpy})
        out = sorted([int(i) for i in e] if isinstance(e, tuple) else [int(e)] for e in val)
    except Exception:      # noqa
        return "?" + text
    return out if out else "n"


def info_atoms(s, docs):
    """info string -> sorted atom tokens ('d<i>', 'warn', or '?<text>' for anything unknown)"""
    if not isinstance(s, str):
        return ["?notstr:%r" % (s,)]
    out = set()
    for piece in s.split("; "):
        if piece == "":
            continue
        if piece == WARN:
            out.add("warn")
        elif piece in docs:
            out.add("d%d" % docs[piece])
        else:
            # a Collapse* condition reports `doc + ' at ' + str(collapsed)` (the report itself is compared per primitive)
            ds_ = [d for d in docs if piece.startswith(d + " at ")]
            out.add(("d%d" % docs[ds_[0]]) if ds_ else ("?" + piece))
    ds = sorted([a for a in out if a[0] == "d"], key=lambda a: int(a[1:]))
    return ds + sorted(a for a in out if a[0] != "d")


def run_case(rng, regime=None):
    """build one case, run the real code; returns dict(case..., request line, observations)"""
    from mystic import termination as T
    regime = regime or rng.choice(["int", "dyadic", "dyadic", "float"])
    v = gen_view(rng, regime)
    del _TOLTAGS[:]
    nprims = rng.choice([1, 1, 2, 2, 3, 3, 4, 5])
    specs = [gen_prim(rng, v) for _ in range(nprims)]
    if nprims >= 2 and rng.random() < 0.1:
        specs[1] = specs[0]                     # two distinct objects with the same doc
    depth = rng.choice([0, 1, 1, 2, 2, 3, 4])
    e = gen_expr(rng, nprims, depth)
    same_clock = rng.random() < 0.7
    rclock = None if same_clock else [dyadic(rng, 0, 32, 4) for _ in range(3)]
    auxp = rng.choice([None, 0, 1, 2, 2.0, 3, 4, 0.5, 1.5, 2.5, 7, -1.0, -2.0, 100.0, INF, -INF, NAN])
    case = execute({"regime": regime, "view": v, "specs": specs, "expr": e, "rclock": rclock,
                    "auxp": auxp, "auxw": rng.choice(["grad", "eff"]), "expr2": gen_expr2(rng, e, nprims),
                    "npset": rng.random() < 0.15})
    case["toltags"] = list(_TOLTAGS)
    return case


def execute(case):
    from mystic import termination as T
    v = case["view"]; specs = [tuple(s) for s in case["specs"]]; e = case["expr"]
    obs = {}
    _NPSET[0] = bool(case.get("npset"))
    with Clock() as clock, warnings.catch_warnings():
        warnings.simplefilter("ignore")
        objs = [build_prim(s, clock) for s in specs]
        docs = {}
        dids = []
        for o in objs:
            dids.append(docs.setdefault(o.__doc__, len(docs)))
        cond = expr_build(e, objs)
        # rebuilt primitives: type(c)(**state(c)[doc])
        rebuilt = []
        rebuilt2 = []
        for s, o in zip(specs, objs):
            rc = case["rclock"]
            clock.t = list(rc) if rc is not None else (list(s[3]) if s[0] == "timelimits" else [0.0, 0.0, 0.0])
            try:
                st = T.state(o)
                rebuilt.append(T.type(o)(**st[o.__doc__]))
            except Exception as exc:     # noqa
                rebuilt.append(exc)
                rebuilt2.append(exc)
                continue
            # a caller deriving a VARIANT from the reported settings edits the returned dict in place (this is what
            # mask.update_mask / tools.no_mask do); the condition's own reported state must not follow: rebuild again
            try:
                kw = st[o.__doc__]
                for key in list(kw):
                    if isinstance(kw[key], (int, float)) and not isinstance(kw[key], bool):
                        kw[key] = kw[key] + 1
                    elif kw[key] is None:
                        kw[key] = 1
                if len(kw) > 1:
                    kw.pop(sorted(kw)[0])
                rebuilt2.append(T.type(o)(**T.state(o)[o.__doc__]))
            except Exception as exc:     # noqa
                rebuilt2.append(exc)
        clock.t = list(v["clock"])
        solver = make_solver(v)
        obs["built"] = struct_str(cond, objs)
        order = expr_prims(e)
        obs["prims"] = [pout(call(objs[i], solver)) for i in order]
        obs["pay"] = [payload_of(call(objs[i], solver, True), objs[i].__doc__) for i in order]
        obs["rb"] = [("raise:" + type(rebuilt[i]).__name__) if isinstance(rebuilt[i], Exception)
                     else pout(call(rebuilt[i], solver)) for i in order]
        def same_doc(a, b):
            # the same factory and equal keyword settings (a set-valued mask may be written in another order)
            if a.__doc__ == b.__doc__:
                return True
            try:
                ka, kb = a.__doc__.split(" with ", 1)[0], b.__doc__.split(" with ", 1)[0]
                return ka == kb and list(T.state(a).values()) == list(T.state(b).values())
            except Exception:      # noqa
                return False
        obs["rbdoc"] = [(not isinstance(rebuilt[i], Exception)) and same_doc(rebuilt[i], objs[i]) for i in order]
        obs["rb2"] = [("raise:" + type(rebuilt2[i]).__name__) if isinstance(rebuilt2[i], Exception)
                      else pout(call(rebuilt2[i], solver)) for i in order]
        obs["rb2doc"] = [(not isinstance(rebuilt2[i], Exception)) and same_doc(rebuilt2[i], objs[i]) for i in order]
        rb = call(cond, solver)
        obs["b"] = ("err-" + rb[1]) if rb[0] == "err" else bool(rb[1])
        obs["btype"] = type(rb[1]).__name__ if rb[0] == "ok" else None
        ri = call(cond, solver, True)
        obs["info"] = ("err-" + ri[1]) if ri[0] == "err" else info_atoms(ri[1], docs)
        obs["info_raw"] = ri[1] if ri[0] == "ok" else None
        if isinstance(cond, tuple):
            rs = call(cond, solver, "self")
            if rs[0] == "err":
                obs["self"] = "err-" + rs[1]
            else:
                obs["self"] = sorted(next(i for i, m in enumerate(cond) if m is r) for r in rs[1])
            rn = call(cond, solver, "not")
            if rn[0] == "err":
                obs["not"] = "err-" + rn[1]
            else:
                obs["not"] = [i for i, m in enumerate(cond) if any(m == r for r in rn[1])]
        else:
            obs["self"] = []; obs["not"] = []
        try:
            st = T.state(cond)
            obs["state_keys_ok"] = set(st.keys()) == set(objs[i].__doc__ for i in order)
            obs["skeys"] = [docs.get(k_, -1) for k_ in st.keys()]
        except Exception as exc:   # noqa
            obs["state_keys_ok"] = "raise:" + type(exc).__name__
            obs["skeys"] = "raise:" + type(exc).__name__
        # the whole tree rebuilt: type(c)(*members rebuilt), primitives from type + state
        docs2 = dict(docs)      # a rebuilt primitive may write a set-valued mask in another order: same doc id

        def rebuild_tree(c):
            if isinstance(c, tuple):
                return T.type(c)(*[rebuild_tree(m) for m in c])
            r_ = T.type(c)(**T.state(c)[c.__doc__])
            docs2.setdefault(r_.__doc__, docs[c.__doc__])
            return r_
        clock.t = list(v["clock"])
        has_tl = any(specs[i][0] == "timelimits" for i in order)
        try:
            rt = rebuild_tree(cond)
            r2 = call(rt, solver)
            r2i = call(rt, solver, True)
            obs["tree_rb"] = {"b": ("err-" + r2[1]) if r2[0] == "err" else bool(r2[1]),
                              "info": ("err-" + r2i[1]) if r2i[0] == "err" else info_atoms(r2i[1], docs2),
                              "built": struct_shape(rt, docs2) == struct_shape(cond, docs2), "skip": has_tl}
        except Exception as exc:   # noqa
            obs["tree_rb"] = {"raise": type(exc).__name__, "skip": has_tl}
        # a second condition built from the same primitive objects: equality / hash / use as a dict key
        e2 = case.get("expr2")
        if e2 is not None:
            cond2 = expr_build(e2, objs)
            eq = (cond == cond2)
            obs["eq"] = {"eq": bool(eq), "hash": (hash(cond) == hash(cond2)) if isinstance(cond, tuple) and isinstance(cond2, tuple) else None,
                         "dict": len({cond: 1, cond2: 2})}
        obs["docs"] = {d: i for d, i in docs.items()}
        case = dict(case); case["_docs_in_order"] = [o.__doc__ for o in objs]
        _GRADNONE[0] = bool(v.get("gradnone"))
        aux = execute_aux(case, v, obs)
        case.pop("_docs_in_order")
    rc = case["rclock"] if case["rclock"] is not None else [0.0, 0.0, 0.0]
    # when the clock at rebuilding is "the same", each TimeLimits restarts at its own start: the model takes
    # rclock for all three timers, so send per-primitive starts by giving the spec's start (see request below)
    _GRADNONE[0] = bool(v.get("gradnone"))
    cost = v.get("cost")
    line = ("C10 run (hist %s) (pop %s) (pope %s) (best %s) (trial %s) (trial2d %s) (grad %s) (gens %d) (fcalls %d) "
            "(early %s) (clock %s) (rclock %s) (sameclock %s) (gradnone %s) (cost %s) (steps %s) (expr %s)") % (
        fl(v["hist"]), fll(v["pop"]), fl(v["pope"]), fl(v["best"]), fll(v["trial"]),
        "true" if v["trial2d"] else "false", fl(v["grad"]), v["gens"], v["fcalls"],
        "true" if v["early"] else "false", fl(v["clock"]), fl(rc),
        "true" if case["rclock"] is None else "false", "true" if v.get("gradnone") else "false",
        "none" if cost is None else "(%s %s %s)" % (f2b(cost[0]), fl(cost[1]), fl(cost[2])),
        fll(v.get("steps", [])), expr_sexp(e, specs, dids))
    case = dict(case); case["request"] = line; case["impl"] = obs; case["aux"] = aux
    return case


def cost_sexp(cost):
    return "none" if cost is None else "(%s %s %s)" % (f2b(cost[0]), fl(cost[1]), fl(cost[2]))


def execute_aux(case, v, obs):
    """the auxiliary correspondence streams of one case: approx_fprime on the raw cost (points and gradient, directly
    and through one call of GradientNormTolerance) and Lnorm on the case's gradient.  Returns [(stream, request)]."""
    import numpy
    from mystic import termination as T
    aux = []
    obs["aux"] = {}
    if v.get("cost") is not None:
        from mystic._scipy060optimize import approx_fprime, _epsilon
        f = CostFn(*v["cost"])
        r = call(approx_fprime, list(v["best"]), f, _epsilon)
        a = {"eps_ok": _epsilon == EPS, "pts": [list(c) for c in f.calls],
             "grad": [float(t) for t in r[1]] if r[0] == "ok" else "err-" + r[1]}
        if v.get("gradnone"):
            solver2 = make_solver(v)
            call(T.GradientNormTolerance(1.0, 2), solver2)
            a["via_term"] = [list(x) for x in solver2._rawcost.calls]
            a["fcalls_after"] = solver2._fcalls[0]
        obs["aux"]["approx"] = a
        aux.append(("approx", "C10 approx (best %s) (cost %s)" % (fl(v["best"]), cost_sexp(v["cost"]))))
    if case.get("expr2") is not None and "eq" in obs:
        specs_ = [tuple(s_) for s_ in case["specs"]]
        dids_ = [obs["docs"][d_] for d_ in case["_docs_in_order"]]
        aux.append(("eq", "C10 eq (a %s) (b %s)" % (expr_sexp(case["expr"], specs_, dids_),
                                                     expr_sexp(case["expr2"], specs_, dids_))))
    auxp = case.get("auxp")
    if auxp is not None:
        from mystic.math.distance import Lnorm
        w = eff_grad(v)
        if w is None or case.get("auxw") == "grad":
            w = list(v["grad"])
        r = call(Lnorm, numpy.array(w, dtype=float), auxp, 0)
        obs["aux"]["lnorm"] = {"class": gradp_class(w, auxp), "w": w,
                               "value": float(r[1]) if r[0] == "ok" else "err-" + r[1]}
        aux.append(("lnorm", "C10 lnorm (w %s) (norm %s)" % (fl(w), norm_sexp(auxp))))
    return aux


def compare_aux(case, replies):
    """[(stream, difference)] and histogram tags for the auxiliary streams"""
    diffs = []; tags = []
    for (stream, _req), rep in zip(case["aux"], replies):
        r = parse_reply(rep)
        if stream == "approx":
            a = case["impl"]["aux"]["approx"]
            if r[0] != "ok":
                diffs.append((stream, "model replied %r" % (rep,))); continue
            kv = r[1]
            if not a["eps_ok"]:
                diffs.append((stream, "_epsilon is not 2**-26"))
            mpts = [[common.b2f(t) for t in row] for row in kv["pts"]]
            ipts = a["pts"]
            if [[f2b(x) for x in row] for row in mpts] != [[f2b(x) for x in row] for row in ipts]:
                diffs.append((stream, "approx_fprime evaluates the cost at %r, the model at %r" % (ipts, mpts)))
            if isinstance(a["grad"], str):
                diffs.append((stream, "approx_fprime raised %s" % a["grad"]))
            elif [f2b(x) for x in a["grad"]] != [f2b(common.b2f(t)) for t in kv["grad"]]:
                diffs.append((stream, "approx_fprime gradient %r, model %r" % (a["grad"], [common.b2f(t) for t in kv["grad"]])))
            tags.append("aux:approx:dim%s" % (len(ipts) - 1 if len(ipts) < 5 else "4+"))
            if "via_term" in a:
                tags.append("aux:approx-via-termination")
                if [[f2b(x) for x in row] for row in a["via_term"]] != [[f2b(x) for x in row] for row in mpts]:
                    diffs.append(("approx-via-termination", "GradientNormTolerance evaluated the raw cost at %r, the model says %r"
                                  % (a["via_term"], mpts)))
        elif stream == "eq":
            a = case["impl"]["eq"]
            tags.append("aux:eq:%s" % a["eq"])
            if r[0] != "ok" or (r[1]["eq"] == "true") != a["eq"]:
                diffs.append((stream, "cond == cond2 is %s, model replies %r (%s vs %s)" % (
                    a["eq"], rep, show_expr(case["expr"]), show_expr(case["expr2"]))))
            if a["eq"] and a["hash"] is False:
                diffs.append((stream, "equal conditions with different hashes"))
            if a["dict"] != (1 if a["eq"] else 2):
                diffs.append((stream, "as dict keys: %d entries for eq=%s" % (a["dict"], a["eq"])))
        elif stream == "lnorm":
            a = case["impl"]["aux"]["lnorm"]
            tags.append("aux:lnorm:%s:%s" % (a["class"], "err" if isinstance(a["value"], str) else "value"))
            if isinstance(a["value"], str):
                if not (r[0] == "err" and "err-" + r[1] == a["value"]):
                    diffs.append((stream, "Lnorm raises %s, model replies %r" % (a["value"], rep)))
                continue
            if r[0] != "ok":
                diffs.append((stream, "Lnorm returns %r, model replies %r" % (a["value"], rep))); continue
            m = common.b2f(r[1]["norm"])
            x = a["value"]
            if a["class"] == "exact":
                if f2b(m) != f2b(x) and not (m != m and x != x) and not (m == 0.0 and x == 0.0):
                    diffs.append((stream, "Lnorm(%r, %r) = %r, model %r (exactness regime)" % (a["w"], case.get("auxp"), x, m)))
            else:
                ok = (m != m and x != x) or m == x or (_finite(m, x) and abs(m - x) <= 1e-9 * max(abs(m), abs(x)))
                if not ok:
                    diffs.append((stream, "Lnorm(%r, %r) = %r, model %r (toleranced 1e-9)" % (a["w"], case.get("auxp"), x, m)))
    return diffs, tags


# ------------------------------------------------------------------ monitor: the documented inequalities
def _finite(*xs):
    return all(x == x and x not in (INF, -INF) for x in xs)


class Skip(Exception):
    pass


def le_decide(pairs):
    """pairs = [(lhs, rhs)] as functions of a number constructor N; all must hold.  Returns True/False, or raises
    Skip when some pair is within rounding of its boundary and float evaluation of it is not exact."""
    ok = True
    for fn in pairs:
        lf, rf = fn(float)
        if lf != lf or rf != rf:
            raise Skip("nan")
        if not _finite(lf, rf):
            ok = ok and (lf <= rf)
            continue
        le, re_ = fn(Fraction)
        exact = (Fraction(lf) == le and Fraction(rf) == re_)
        if not exact and le != re_ and abs(le - re_) <= Fraction(1, 10 ** 12) * max(abs(le), abs(re_)):
            raise Skip("rounding")
        ok = ok and (le <= re_)
    return ok


def nz(N, x):
    """number in type N; non-finite values only ever reach the float evaluation"""
    return N(x) if (N is float or _finite(x)) else x


def spec_expected(spec, v):
    """(expected verdict by the documented inequality, negative-tolerance mechanism present?) or raises Skip"""
    k = spec[0]
    h = v["hist"]; lg = len(h)

    def win(g):
        gi = 0 if g is None else int(g)
        if lg == 0 or lg <= gi:
            return None
        if gi < 0 and (-gi) >= lg:
            raise Skip("index-error")
        return (h[-gi], h[-1])

    def change_le(a, b, tol):
        # documented `cost[-g] - cost[-1] <= tol`; equal values (also equal infinities) are a change of 0
        if a == b:
            return 0.0 <= tol
        if not _finite(a, b):
            d = a - b
            if d != d:
                raise Skip("nan")
            return d <= tol
        return le_decide([lambda N: (nz(N, a) - nz(N, b), nz(N, tol))])

    if k == "vtr":
        if not lg:
            return False, False
        tol, tgt = spec[1], spec[2]
        return le_decide([lambda N: (abs(nz(N, h[-1]) - nz(N, tgt)), nz(N, tol))]), False
    if k == "cog":
        w = win(spec[2])
        if w is None:
            return False, False
        return change_le(w[0], w[1], spec[1]), (spec[1] < 0 and w[0] == w[1])
    if k == "ncog":
        w = win(spec[2])
        if w is None:
            return False, False
        a, b = w; tol = spec[1]
        neg = tol < 0 and a == b
        if not _finite(a, b):
            if a == b:
                return (0.0 <= tol), neg      # tol*inf + eta: sign of tol (0*inf is nan -> skip)
            raise Skip("nonfinite")
        if tol != tol or not _finite(tol):
            if tol == INF and (abs(a) + abs(b)) > 0:
                return True, False
            raise Skip("nonfinite-tol")
        eta = Fraction(1e-20)
        lhs = 2 * (Fraction(a) - Fraction(b)); rhs = Fraction(tol) * (abs(Fraction(a)) + abs(Fraction(b))) + eta
        if lhs != rhs and abs(lhs - rhs) <= Fraction(1, 10 ** 12) * max(abs(lhs), abs(rhs)) + 2 * eta:
            raise Skip("rounding")
        return lhs <= rhs, neg
    if k == "crt":
        pe = v["pope"]; pop = v["pop"]
        if len(pe) < 2:
            return True, False                 # no other candidate: vacuously within tolerance
        if len(pop) < 2 or not pop[0]:
            raise Skip("malformed")
        pairs = []
        for r in pop[1:]:
            for a, b in zip(r, pop[0]):
                pairs.append((lambda a, b: (lambda N: (abs(nz(N, a) - nz(N, b)), nz(N, spec[1]))))(a, b))
        for e in pe[1:]:
            pairs.append((lambda e: (lambda N: (abs(nz(N, pe[0]) - nz(N, e)), nz(N, spec[2]))))(e))
        # evaluate every pair (no short circuit) so that a NaN anywhere skips the case
        res = [le_decide([p]) for p in pairs]
        return all(res), False
    if k == "solimp":
        rows = v["trial"]
        if not rows:
            raise Skip("malformed")
        res = []
        for r in rows:
            def f(N, r=r):
                s = None
                for b, t in zip(v["best"], r):
                    d = abs(nz(N, b) - nz(N, t))
                    s = d if s is None else s + d
                return (N(0) if s is None else s, nz(N, spec[1]))
            res.append(le_decide([f]))
        return all(res), False
    if k == "nct":
        if not lg:
            return False, False
        fval, tol, g = spec[1], spec[2], spec[3]
        gi = 0 if g is None else int(g)
        if fval is None:
            if gi == 0:
                return True, False
            w = win(g)
            if w is None:
                return False, False
            return change_le(w[0], w[1], 0.0), False      # "no improvement over g iterations"
        r = le_decide([lambda N: (abs(nz(N, h[-1]) - nz(N, fval)), nz(N, tol) * abs(nz(N, fval)))])
        return r, tol < 0
    if k == "vtrcog":
        if not lg:
            return False, False
        ftol, gtol, g, tgt = spec[1:5]
        w = win(g)
        c1 = False; neg = False
        if w is not None:
            c1 = change_le(w[0], w[1], gtol)
            neg = gtol < 0 and w[0] == w[1]
        c2 = le_decide([lambda N: (abs(nz(N, h[-1]) - nz(N, tgt)), nz(N, ftol))])
        return (c1 or c2), neg
    if k == "popspread":
        pop = v["pop"]; tol = spec[1]
        if not pop:
            raise Skip("malformed")
        res = []
        for r in pop:
            for a, b in zip(r, pop[0]):
                if a == b:
                    if b == b and not _finite(b):
                        raise Skip("nonfinite")
                res.append(le_decide([(lambda a, b: (lambda N: (abs(nz(N, a) - nz(N, b)), nz(N, tol) * abs(nz(N, b)))))(a, b)]))
        return all(res), tol < 0
    if k == "gradp" and not (spec[2] == INF):
        tol, p = spec[1], spec[2]
        g = eff_grad(v)
        if g is None or p == -INF:
            raise Skip("malformed")
        if p != p:
            raise Skip("nan-norm")                   # the documented formula has no meaning (IEEE: 1**nan = 1)
        if p == 0:
            return (sum(1 for x in g if x != 0.0) <= tol), False
        if any(x != x for x in g):
            return False, False
        if tol != tol:
            return False, False
        mech = "gradp/fp-error-falls-back-to-inf-norm" if fp_trouble(g, p) else (
            "gradp/power-underflows" if fp_underflow(g, p) else False)
        if float(p) == int(p) and 1 <= p <= 100 and _finite(*g):
            if tol == INF:
                return True, mech
            if tol < 0:
                return False, mech
            if not g:
                return True, mech
            lhs = sum(abs(Fraction(x)) ** int(p) for x in g); rhs = Fraction(tol) ** int(p)
            # an exact tie is decided by the code only when 1/p is exact (p a power of two): s**(1./3) is rounded
            tie_ok = lhs != rhs or (int(p) & (int(p) - 1)) == 0
            if abs(lhs - rhs) <= Fraction(1, 10 ** 12) * max(lhs, rhs) and not (lhs == rhs and tie_ok):
                raise Skip("rounding")
            return lhs <= rhs, mech
        q = gradp_value([abs(x) for x in g], p)
        if q is None or q != q:
            raise Skip("nonfinite")
        if q != tol and _finite(q, tol) and abs(q - tol) <= 1e-9 * max(abs(q), abs(tol)):
            raise Skip("rounding")
        return q <= tol, mech
    if k in ("gradnorm", "gradp"):
        g = eff_grad(v)
        if g is None:
            raise Skip("malformed")
        if not g:
            raise Skip("malformed")
        if any(x != x for x in g):
            return False, False
        return all(le_decide([(lambda x: (lambda N: (abs(nz(N, x)), nz(N, spec[1]))))(x)]) for x in g), False
    if k in ("cat", "cas"):
        return bool(collapse_expected(spec, v)), False
    if k == "evallimits":
        gl, el = spec[1], spec[2]
        return ((el is not None and v["fcalls"] >= el) or (gl is not None and v["gens"] >= gl)), False
    if k == "timelimits":
        i = {None: 0, True: 1, False: 2}[spec[2]]
        return le_decide([lambda N: (abs(nz(N, spec[1])), nz(N, v["clock"][i]) - nz(N, spec[3][i]))]), False
    return bool(v["early"]), False


def collapse_expected(spec, v):
    """the documented meaning of CollapseAt / CollapseAs by this harness's own exact computation: the sorted list of
    collapsed indices / index pairs over the last `generations` monitor entries ([] when the energy history is not longer
    than `generations`); Skip on malformed input (the condition raises) or settings without a documented reading"""
    k = spec[0]
    lg = len(v["hist"])
    g = spec[3]
    if lg == 0 or lg <= g:
        return []
    steps = v.get("steps", [])
    win = steps[-g:]
    if not win or not win[0] or any(len(r) != len(win[0]) for r in win) or not all(_finite(*r) for r in win):
        raise Skip("malformed")
    m = spec[4]
    if m is not None and "list" in m:
        raise Skip("malformed")
    tol = spec[2]
    if isinstance(tol, (list, tuple)) or tol != tol:
        raise Skip("list-tolerance")
    n = len(win[0])
    F = Fraction
    # small dyadic values: every difference the code forms is exactly representable
    exact_regime = all(abs(val) < 2.0 ** 20 and F(val).denominator <= 2 ** 20 for r in win for val in r)

    def le(x):            # exact `x <= tol`; the code's float differences are rounded: no verdict within 1e-12 of a tie
        if tol == INF:
            return True
        if tol == -INF:
            return False
        t = F(tol)
        if x != t and abs(x - t) <= F(1, 10 ** 12) * max(abs(x), abs(t)):
            raise Skip("rounding")
        if x == t and not exact_regime:
            # an EXACT tie with the tolerance: the code's float differences are rounded and can land one ulp above it
            # (seen: ptp = 3.0000000000000018 for an exact 3); a verdict only where the float arithmetic is exact too
            raise Skip("rounding")
        return x <= t
    if k == "cat":
        tgt = spec[1]
        if m is not None and any(isinstance(e, (list, tuple)) for e in m["set"]):
            raise Skip("malformed")
        if isinstance(tgt, (list, tuple)) and len(tgt) != n:
            raise Skip("target-length")
        if tgt is not None and not _finite(*(tgt if isinstance(tgt, (list, tuple)) else [tgt])):
            raise Skip("nonfinite")
        out = []
        for i in range(n):
            col = [F(r[i]) for r in win]
            if tgt is None:
                ch = max(col) - min(col)
            else:
                t = F(tgt[i]) if isinstance(tgt, (list, tuple)) else F(tgt)
                ch = max(abs(x - t) for x in col)
            if le(ch) and not (m is not None and i in m["set"]):
                out.append([i])
        return out
    if m is not None and any(isinstance(e, (list, tuple)) and len(e) != 2 for e in m["set"]):
        raise Skip("malformed")
    singles = set(e for e in (m["set"] if m else []) if not isinstance(e, (list, tuple)))
    pairs = set(tuple(e) for e in (m["set"] if m else []) if isinstance(e, (list, tuple)))
    out = []
    for i in range(n):
        for j in range(i + 1, n):
            d = [abs(F(r[i]) - F(r[j])) for r in win]
            ch = (max(d) - min(d)) if spec[1] else max(d)
            if le(ch) and not (i in singles or j in singles or (i, j) in pairs or (j, i) in pairs):
                out.append([i, j])
    return out


def fp_trouble(g, p):
    """would sum(abs(g**p))**(1/p) raise FloatingPointError (overflow / invalid) in binary64?  (Lnorm then silently uses
    the infinity norm instead of the documented p-norm)"""
    import math
    if any(x < 0 for x in g) and float(p) != int(p):
        return True                                   # negative base, fractional power: invalid
    s = 0.0
    for x in g:
        if not _finite(x) or x == 0.0:
            t = _powp(abs(x), p) if x != 0.0 or p > 0 else INF
        else:
            try:
                t = math.pow(abs(x), p)
            except OverflowError:
                return True
            if t == INF:
                return True
        s2 = s + t
        if s2 == INF and _finite(s, t):
            return True
        s = s2
    if _finite(s) and s != 0.0:
        try:
            r = math.pow(s, 1.0 / p)
        except OverflowError:
            return True
        if r == INF:
            return True
    return False


def fp_underflow(g, p):
    """does some non-zero |x|**p underflow (to zero or into the subnormals) in binary64?"""
    for x in g:
        if x != 0.0 and _finite(x):
            t = _powp(abs(x), p)
            if t == t and t < 2.2250738585072014e-308:
                return True
    return False


def den(e, verdict):
    if e[0] == "p":
        return verdict[e[1]]
    if e[0] == "when":
        return den(e[1], verdict)
    if e[0] == "and":
        return all(den(x, verdict) for x in e[1])
    return any(den(x, verdict) for x in e[1])


def mechanisms(cond):
    """which of the known construction/aggregation mechanisms are present in the real object tree"""
    from mystic import termination as T
    out = set()

    def walk(c):
        if not isinstance(c, tuple):
            return
        if len(c) == 0 and not isinstance(c, T.Or):
            out.add("empty-all")
        ms = list(c)
        for i in range(len(ms)):
            for j in range(i + 1, len(ms)):
                if isinstance(ms[i], tuple) and isinstance(ms[j], tuple) and ms[i] == ms[j] \
                        and struct_str(ms[i], []) != struct_str(ms[j], []):
                    out.add("collision")
        for m in ms:
            walk(m)
    walk(cond)
    return out


def unpack_sites(e):
    """does the expression as written contain X(single compound argument Y) where the unpacking of Y's members into X
    changes how they are aggregated (X uses all, Y any, or conversely; Y has != 1 members)?"""
    found = [False]

    def build(e):
        # ('p',) or (kind, n_members) of the constructed object, mirroring __new__
        if e[0] == "p":
            return ("p",)
        args = [build(e[1])] if e[0] == "when" else [build(x) for x in e[1]]
        if len(args) == 1 and args[0][0] != "p":
            inner = args[0]
            if inner[1] != 1 and (e[0] == "or") != (inner[0] == "or"):
                found[0] = True
            return (e[0], inner[1])
        return (e[0], len(args))
    build(e)
    return found[0]


def when_arity(e):
    """does building `e` produce a When holding != 1 members (When(compound) unpacks the compound's members)?"""
    found = [False]

    def build(e):
        if e[0] == "p":
            return None
        args = [build(e[1])] if e[0] == "when" else [build(x) for x in e[1]]
        n = args[0] if (len(args) == 1 and args[0] is not None) else len(args)
        if e[0] == "when" and n != 1:
            found[0] = True
        return n
    build(e)
    return found[0]


def monitor(case):
    """the property on the implementation's own results; returns list of (class_key, what)"""
    from mystic import termination as T
    out = []
    obs = case["impl"]; v = case["view"]; e = case["expr"]
    specs = [tuple(s) for s in case["specs"]]
    order = expr_prims(e)
    hist = case.setdefault("mon_hist", {})
    verdict = {}
    raised = False
    for pos, i in enumerate(order):
        got = obs["prims"][pos]
        if got.startswith("err-"):
            raised = True
            continue
        verdict[i] = (got != "unsat")
    # 1. each primitive against its documented inequality
    for i in sorted(set(order)):
        if i not in verdict:
            continue
        spec = specs[i]
        try:
            want, neg = spec_expected(spec, v)
        except Skip as s:
            hist["mon-skip:" + str(s)] = hist.get("mon-skip:" + str(s), 0) + 1
            continue
        hist["mon-prim:%s:%s" % (spec[0], "sat" if want else "unsat")] = hist.get("mon-prim:%s:%s" % (spec[0], "sat" if want else "unsat"), 0) + 1
        if want != verdict[i]:
            if isinstance(neg, str):
                key = neg
            else:
                key = ("%s/negative-tolerance" % spec[0]) if (neg and verdict[i] and not want) else ("%s/documented-inequality" % spec[0])
            out.append((key, "%r is %s although its documented inequality is %s (history %r)" % (
                spec, "satisfied" if verdict[i] else "not satisfied", "true" if want else "false", v["hist"][-6:])))
    # 1b. a satisfied Collapse* condition reports exactly the collapsed indices / pairs
    for pos, i in enumerate(order):
        if specs[i][0] not in ("cat", "cas") or obs["prims"][pos].startswith("err-"):
            continue
        try:
            want = collapse_expected(specs[i], v)
        except Skip:
            continue
        got = obs["pay"][pos]
        hist["mon-collapse-report:%s:%s" % (specs[i][0], "some" if want else "none")] = \
            hist.get("mon-collapse-report:%s:%s" % (specs[i][0], "some" if want else "none"), 0) + 1
        if (got if got != "n" else []) != want:
            out.append(("%s/reported-collapse" % specs[i][0], "%r reports %r, collapsed over the window are %r" % (specs[i], got, want)))
    # 5. rebuilt from type + state behaves identically (TimeLimits: only when rebuilt at the same clock reading)
    for pos, i in enumerate(order):
        if case["rclock"] is not None and specs[i][0] == "timelimits":
            continue
        if obs["rb"][pos] != obs["prims"][pos] or not obs["rbdoc"][pos]:
            out.append(("rebuild/%s" % specs[i][0], "type(c)(**state(c)[doc]) gives %s, the original %s (%r)" % (obs["rb"][pos], obs["prims"][pos], specs[i])))
        elif obs["rb2"][pos] != obs["prims"][pos] or not obs["rb2doc"][pos]:
            out.append(("rebuild-after-variant/%s" % specs[i][0], "after a caller edited the dict returned by state(c), state(c) reports the edited settings: type(c)(**state(c)[doc]) gives %s (same doc: %s), the original %s (%r)" % (obs["rb2"][pos], obs["rb2doc"][pos], obs["prims"][pos], specs[i])))
    if obs["state_keys_ok"] is not True:
        out.append(("state/keys", "state(condition) does not report exactly the primitives' docs: %r" % (obs["state_keys_ok"],)))
    if raised or isinstance(obs["b"], str):
        return out
    # 2. And = all, Or = any, When = same, on the expression as written
    want = den(e, verdict)
    _NPSET[0] = bool(case.get("npset"))
    with Clock() as clock:
        objs = [build_prim(s, clock) for s in specs]
        cond = expr_build(e, objs)
    mech = mechanisms(cond)
    trb = obs.get("tree_rb")
    if trb is not None and not trb.get("skip") and not raised and not isinstance(obs["b"], str):
        hist["mon-tree-rebuild:%s" % ("raise" if "raise" in trb else "ok")] = hist.get("mon-tree-rebuild:%s" % ("raise" if "raise" in trb else "ok"), 0) + 1
        if "raise" in trb:
            key = "compound/single-compound-argument-unpacked" if (trb["raise"] == "TypeError" and when_arity(e)) \
                else "rebuild-tree/raises"
            out.append((key, "type(c)(*members) of %s raises %s: a When built from a compound argument holds %s members"
                        % (show_expr(e), trb["raise"], "not exactly one")))
        elif trb["b"] != obs["b"] or trb["info"] != obs["info"] or not trb["built"]:
            out.append(("compound/sibling-tuple-key-collision" if "collision" in mech else "rebuild-tree/differs", "%s rebuilt member by member (type + state) gives %r / %r, the original %r / %r"
                        % (show_expr(e), trb["b"], trb["info"], obs["b"], obs["info"])))
    if want != obs["b"]:
        if unpack_sites(e):
            key = "compound/single-compound-argument-unpacked"
        elif "collision" in mech:
            key = "compound/sibling-tuple-key-collision"
        else:
            key = "compound/verdict"
        out.append((key, "%s is %s but its members say %s" % (show_expr(e), obs["b"], want)))
    # 3. info names only satisfied members
    if isinstance(obs["info"], list):
        sat_docs = set()
        for i in set(order):
            if verdict.get(i):
                sat_docs.add("warn" if obs["prims"][order.index(i)] == "warn" else "d%d" % obs["docs"][objs[i].__doc__])
        extra = [a for a in obs["info"] if a not in sat_docs]
        if extra:
            out.append(("info/names-unsatisfied", "info of %s names %r which are not satisfied members" % (show_expr(e), extra)))
        # 4. info is truthy iff the condition is satisfied (same for 'self' on compounds)
        if bool(obs["info"]) != bool(obs["b"]):
            key = "And/empty-members-true-but-info-empty" if "empty-all" in mech else "info/truthiness"
            out.append((key, "%s is %s but its info is %r" % (show_expr(e), obs["b"], obs["info_raw"])))
        if isinstance(cond, tuple) and isinstance(obs["self"], list) and bool(obs["self"]) != bool(obs["b"]):
            key = "And/empty-members-true-but-info-empty" if "empty-all" in mech else "self/truthiness"
            out.append((key, "%s is %s but condition(solver,'self') is %r" % (show_expr(e), obs["b"], obs["self"])))
    return out


def show_expr(e):
    if e[0] == "p":
        return "c%d" % e[1]
    if e[0] == "when":
        return "When(%s)" % show_expr(e[1])
    return "%s(%s)" % (e[0].capitalize(), ", ".join(show_expr(x) for x in e[1]))


SLIM = ("regime", "view", "specs", "expr", "rclock", "auxp", "auxw", "expr2", "npset", "request", "impl", "model", "aux",
        "auxmodel")


# ------------------------------------------------------------------ comparison with the model
def compare(case, rep):
    """list of differences between the implementation's observations and the model's reply"""
    o = case["impl"]
    r = parse_reply(rep)
    if r[0] != "ok":
        return ["model replied %r" % (rep,)], None
    kv = r[1]
    diffs = []
    built = rep.split("built=", 1)[1].strip()
    if built != o["built"]:
        diffs.append("constructed object: model=%s impl=%s" % (built, o["built"]))
    if list(kv["prims"]) != o["prims"]:
        diffs.append("primitive verdicts: model=%s impl=%s" % (list(kv["prims"]), o["prims"]))
    mpay = [x if isinstance(x, str) else [[int(t) for t in e] for e in x] for x in kv.get("pay", [])]
    if mpay != o["pay"]:
        diffs.append("reported collapse (after ' at '): model=%s impl=%s" % (mpay, o["pay"]))
    if isinstance(o.get("skeys"), list) and [int(x) for x in kv.get("skeys", [])] != o["skeys"]:
        diffs.append("keys of state(condition): model=%s impl=%s" % (list(kv.get("skeys", [])), o["skeys"]))
    if list(kv["rb"]) != o["rb"]:
        diffs.append("rebuilt primitive verdicts: model=%s impl=%s" % (list(kv["rb"]), o["rb"]))
    if "raised" in kv:
        want = "err-" + kv["raised"]
        for key in ("b", "info"):
            if o[key] != want:
                diffs.append("%s: model raises %s impl=%r" % (key, kv["raised"], o[key]))
        return diffs, kv
    if o["b"] != (kv["b"] == "true"):
        diffs.append("condition(solver): model=%s impl=%r" % (kv["b"], o["b"]))
    if o["info"] != list(kv["info"]):
        diffs.append("condition(solver, True): model=%s impl=%r" % (list(kv["info"]), o["info"]))
    if o["self"] != [int(x) for x in kv["self"]]:
        diffs.append("condition(solver, 'self'): model=%s impl=%r" % (list(kv["self"]), o["self"]))
    if o["not"] != [int(x) for x in kv["not"]]:
        diffs.append("condition(solver, 'not'): model=%s impl=%r" % (list(kv["not"]), o["not"]))
    return diffs, kv


def classify(case, kv):
    """histogram tags + non-triviality of one case"""
    tags = []
    e = case["expr"]; o = case["impl"]
    specs = case["specs"]
    for pos, i in enumerate(expr_prims(e)):
        tags.append("prim:%s:%s" % (specs[i][0], o["prims"][pos]))
        g = None
        if specs[i][0] in ("cog", "ncog"):
            g = specs[i][2]
        elif specs[i][0] == "nct":
            g = specs[i][3]
        elif specs[i][0] == "vtrcog":
            g = specs[i][3]
        else:
            continue
        lg = len(case["view"]["hist"])
        if g is None:
            tags.append("window:None")
        elif isinstance(g, float):
            tags.append("window:float")
        elif g < 0:
            tags.append("window:negative")
        elif g == 0:
            tags.append("window:0")
        elif g == lg - 1:
            tags.append("window:len-1")
        elif g == lg:
            tags.append("window:len")
        elif g > lg:
            tags.append("window:>len")
        else:
            tags.append("window:inside")

    def depth(e):
        if e[0] == "p":
            return 0
        if e[0] == "when":
            return 1 + depth(e[1])
        return 1 + max([depth(x) for x in e[1]] + [0])
    d = depth(e)
    tags.extend(case.get("toltags", []))
    tags.append("depth:%d" % d)
    tags.append("regime:" + case["regime"])
    tags.append("hist-len:%s" % (len(case["view"]["hist"]) if len(case["view"]["hist"]) < 4 else "4+"))
    if any(not _finite(x) for x in case["view"]["hist"]):
        tags.append("hist:has-inf")
    if isinstance(o["b"], str):
        tags.append("outcome:" + o["b"])
    else:
        tags.append("outcome:%s" % o["b"])
    if kv is not None and "den" in kv and not isinstance(o["b"], str):
        if (kv["den"] == "true") != o["b"]:
            tags.append("compound:differs-from-all/any-reading")
    return tags, d


def drive(lines, tries=40):
    """leandrv.run_driver, waiting while another builder's `lake build` is relinking the shared mvdrv binary"""
    last = None
    for _ in range(tries):
        try:
            return leandrv.run_driver(lines)
        except (FileNotFoundError, PermissionError, OSError, leandrv.DriverError) as exc:
            last = exc
            time.sleep(3.0)
    raise last


def drive_cases(cases):
    """main and auxiliary requests of the cases through the driver: ([main reply], [[aux replies]])"""
    lines = []
    for c in cases:
        lines.append(c["request"])
        lines.extend(req for _s, req in c["aux"])
    allrep = drive(lines)
    replies = []; auxrep = []
    pos = 0
    for c in cases:
        replies.append(allrep[pos]); auxrep.append(allrep[pos + 1: pos + 1 + len(c["aux"])])
        pos += 1 + len(c["aux"])
    return replies, auxrep


def run_shard(pid, seed, shard, ncases, tier, extra):
    import numpy
    common.import_mystic()
    numpy.seterr(all="ignore")
    cases = []
    findings = []
    hist = {}
    for k in range(ncases):
        rng = case_rng(PID, seed, shard, k)
        cases.append(run_case(rng))
    replies, auxrep = drive_cases(cases)
    nontrivial = 0
    samples = []
    per_class = {}
    naux = 0

    def keep(kind, key, what, slim):
        # every finding is counted in the histogram; at most 5 full cases per class and shard are carried back
        per_class[(kind, key)] = per_class.get((kind, key), 0) + 1
        hist["finding:%s:%s" % (kind, key)] = hist.get("finding:%s:%s" % (kind, key), 0) + 1
        if per_class[(kind, key)] <= 5:
            findings.append(Finding(kind, key, what, slim))
    for c, rep, arep in zip(cases, replies, auxrep):
        if rep.strip() == "bad-op" or any(a.strip() == "bad-op" for a in arep):
            raise RuntimeError("driver answered bad-op for " + c["request"] + " / " + repr(c["aux"]))
        diffs, kv = compare(c, rep)
        c["model"] = rep
        c["auxmodel"] = list(arep)
        slim = {k: c.get(k) for k in SLIM}
        if diffs:
            keep("correspondence", "termination/diverges", "; ".join(diffs), slim)
        adiffs, atags = compare_aux(c, arep)
        naux += len(arep)
        for stream, d in adiffs:
            keep("correspondence", "%s/diverges" % stream, d, slim)
        for t in atags:
            hist[t] = hist.get(t, 0) + 1
        for key, what in monitor(c):
            keep("monitor", key, what, slim)
        for t, n in c.get("mon_hist", {}).items():
            hist[t] = hist.get(t, 0) + n
        tags, d = classify(c, kv)
        for t in tags:
            hist[t] = hist.get(t, 0) + 1
        outs = set(p for p in c["impl"]["prims"])
        nt = (d >= 1 and len(outs & {"sat", "warn"}) > 0 and "unsat" in outs) or \
             (d == 0 and len(c["view"]["hist"]) >= 2)
        if nt:
            nontrivial += 1
            if len(samples) < 2 and d >= 2:
                samples.append(slim)
    return {"evaluations": len(cases), "nontrivial": nontrivial, "model_lines": len(cases) + naux, "findings": findings,
            "samples": samples, "hist": hist}


# ------------------------------------------------------------------ fixed cases: the known-finding witnesses + regression corpus
def _view(hist, **kw):
    v = {"hist": hist, "pop": [[1.0, 2.0], [1.0, 2.0]], "pope": [1.0, 1.0], "best": [1.0, 2.0], "trial": [[1.0, 2.0]],
         "trial2d": False, "grad": [0.0, 0.0], "gens": 3, "fcalls": 7, "early": False, "clock": [10.0, 10.0, 10.0], "np": False}
    v.update(kw)
    return v


def fixed_cases():
    a = ("vtr", 0.125, 1.0)      # satisfied on the history below
    b = ("vtr", 0.125, 5.0)      # not satisfied
    h = [5.0, 1.0, 1.0]
    P0, P1 = ("p", 0), ("p", 1)
    out = []
    for e in [("when", ("or", [P0, P1])),                       # D1: evaluates as And(a, b)
              ("and", [("or", [P0, P1])]),
              ("or", [("and", [P0, P1])]),
              ("and", [("and", [P0, P1]), ("or", [P0, P1])]),   # D2: tuple keys collide, the later value wins
              ("and", []),                                      # F12: True, info ""
              ("and", [("and", []), P0]),
              ("or", []),
              ("and", [P0, ("or", [P0, P1])]),
              ("when", ("when", P0))]:
        out.append({"regime": "fixed", "view": _view(h), "specs": [a, b], "expr": e, "rclock": None})
    # negative tolerance + `==` shortcut / abs(tolerance * ...)
    out.append({"regime": "fixed", "view": _view([2.0, 2.0]), "specs": [("cog", -1.0, 1)], "expr": P0, "rclock": None})
    out.append({"regime": "fixed", "view": _view([2.0, 2.0]), "specs": [("ncog", -1.0, 1)], "expr": P0, "rclock": None})
    out.append({"regime": "fixed", "view": _view([2.0, 2.0]), "specs": [("vtrcog", -1.0, -1.0, 1, 0.0)], "expr": P0, "rclock": None})
    out.append({"regime": "fixed", "view": _view([1.0]), "specs": [("nct", 1.0, -1.0, 0)], "expr": P0, "rclock": None})
    out.append({"regime": "fixed", "view": _view([1.0]), "specs": [("popspread", -1.0)], "expr": P0, "rclock": None})
    # GradientNormTolerance: the floating-point fallback to the infinity norm, underflow of the power (known findings),
    # every norm on a supplied gradient and on the approx_fprime fallback (cost 1 + 3 x0 + x1^2 at best [1, 2])
    gv = dict(best=[1.0, 2.0], cost=[1.0, [3.0, 0.0], [0.0, 1.0]], gradattr="absent")
    out.append({"regime": "fixed", "view": _view(h, grad=[-1.0, -1.0], gradnone=False, **gv),
                "specs": [("gradp", 1.2, 1.5)], "expr": P0, "rclock": None, "auxp": 1.5, "auxw": "grad"})
    out.append({"regime": "fixed", "view": _view(h, grad=[1e200, 1e200], gradnone=False, **gv),
                "specs": [("gradp", 1.2e200, 2)], "expr": P0, "rclock": None, "auxp": 2, "auxw": "grad"})
    out.append({"regime": "fixed", "view": _view(h, grad=[2.0 ** -19, 0.0], gradnone=False, **gv),
                "specs": [("gradp", 0.0, 100.0)], "expr": P0, "rclock": None, "auxp": 100.0, "auxw": "grad"})
    for p_ in (0, 1, 2, 3, 0.5, -1.0, INF, -INF, NAN):
        for gn in (False, True):
            out.append({"regime": "fixed", "view": _view(h, grad=[3.0, -4.0], gradnone=gn, **gv),
                        "specs": [("gradp", 5.0, p_), ("gradp", 4.0, p_), ("gradnorm", 4.0)],
                        "expr": ("or", [P0, P1, ("p", 2)]), "rclock": None, "auxp": p_, "auxw": "eff"})
    # windows: 0 reads the first entry; len and len+1 are "not yet"
    for g in (0, 1, 2, 3, 4, None, 2.75):
        out.append({"regime": "fixed", "view": _view(h), "specs": [("cog", 0.0, g), ("ncog", 0.0, g), ("nct", None, 0.0, g)],
                    "expr": ("or", [P0, P1, ("p", 2)]), "rclock": None})
    return out


def state_probes():
    """settings whose repr must survive the doc-string round trip of state() (`eval` in termination.py's namespace:
    inf, nan, -inf, numpy scalars written `np.float64(1.0)`, sets of numpy ints) and settings whose repr does not
    (a timedelta, a numpy array).  Returns (findings, number of probes)."""
    import numpy, datetime
    from mystic import termination as T
    f64, i64 = numpy.float64, numpy.int64
    probes = [
        ("VTR(np.float64(0.125), inf)", lambda: T.VTR(f64(0.125), INF)),
        ("VTR(nan, -inf)", lambda: T.VTR(NAN, -INF)),
        ("VTR(numpy.inf, numpy.nan)", lambda: T.VTR(numpy.inf, numpy.nan)),
        ("ChangeOverGeneration(0.0, np.int64(2))", lambda: T.ChangeOverGeneration(0.0, i64(2))),
        ("NormalizedCostTarget(np.float64(1.0), np.float64(0.5), None)", lambda: T.NormalizedCostTarget(f64(1.0), f64(0.5), None)),
        ("EvaluationLimits(np.int64(3), inf)", lambda: T.EvaluationLimits(i64(3), INF)),
        ("TimeLimits(np.float64(5.0), np.True_)", lambda: T.TimeLimits(f64(5.0), numpy.True_)),
        ("GradientNormTolerance(np.float64(1.0), numpy.inf)", lambda: T.GradientNormTolerance(f64(1.0), numpy.inf)),
        ("GradientNormTolerance(1.0, -inf)", lambda: T.GradientNormTolerance(1.0, -INF)),
        ("CollapseAt(mask={np.int64(0)}, generations=1)", lambda: T.CollapseAt(None, 0.0, 1, {i64(0)})),
        ("CollapseAt(target=(1.0, 1.0, 1.0), generations=1)", lambda: T.CollapseAt((1.0, 1.0, 1.0), 0.0, 1, None)),
        ("CollapseAt(tolerance=[0.0, 8.0], generations=1)", lambda: T.CollapseAt(None, [0.0, 8.0], 1, set())),
        ("CollapseAs(mask={(0, 2)}, generations=1)", lambda: T.CollapseAs(False, 0.0, 1, {(0, 2)})),
        ("TimeLimits(datetime.timedelta(seconds=5))", lambda: T.TimeLimits(datetime.timedelta(seconds=5))),
        ("CollapseAt(target=numpy.array([1.0, 1.0, 1.0]), generations=1)", lambda: T.CollapseAt(numpy.array([1.0, 1.0, 1.0]), 0.0, 1, None)),
        ("CollapseAt(tolerance=numpy.array([0.0]), generations=1)", lambda: T.CollapseAt(None, numpy.array([0.0]), 1, None)),
    ]
    v = _view([5.0, 1.0, 1.0], grad=[3.0, -4.0], steps=[[9.0, 0.0, 1.0], [1.0, 5.0, 1.0], [1.0, 9.0, 1.0]])
    findings = []
    for name, mk in probes:
        case = {"probe": name}
        with Clock() as clock, warnings.catch_warnings():
            warnings.simplefilter("ignore")
            clock.t = [0.0, 0.0, 0.0]
            c = mk()
            try:
                st = T.state(c)
                kw = st[c.__doc__]
                rb = T.type(c)(**kw)
            except NameError as exc:
                findings.append(Finding("monitor", "state/setting-repr-not-evaluable",
                                        "state(%s) raises NameError (%s): the condition cannot report its settings, hence cannot be rebuilt" % (name, exc), case))
                continue
            except Exception as exc:     # noqa
                findings.append(Finding("monitor", "state/raises", "state / rebuild of %s raises %s: %s" % (name, type(exc).__name__, exc), case))
                continue
            clock.t = list(v["clock"])
            solver = make_solver(v)
            a = (pout(call(c, solver)), payload_of(call(c, solver, True), c.__doc__))
            b = (pout(call(rb, solver)), payload_of(call(rb, solver, True), rb.__doc__))
            if a != b:
                findings.append(Finding("monitor", "rebuild/probe", "%s gives %r, rebuilt from type + state %r" % (name, a, b), case))
    return findings, len(probes)


def run_fixed():
    import numpy
    common.import_mystic()
    numpy.seterr(all="ignore")
    cases = [execute(c) for c in fixed_cases()]
    replies, auxrep = drive_cases(cases)
    findings = []
    for c, rep, arep in zip(cases, replies, auxrep):
        diffs, kv = compare(c, rep)
        c["model"] = rep
        c["auxmodel"] = list(arep)
        slim = {k: c.get(k) for k in SLIM}
        if diffs:
            findings.append(Finding("correspondence", "termination/diverges", "; ".join(diffs), slim))
        for stream, d in compare_aux(c, arep)[0]:
            findings.append(Finding("correspondence", "%s/diverges" % stream, d, slim))
        for key, what in monitor(c):
            findings.append(Finding("monitor", key, what, slim))
    pf, npf = state_probes()
    return findings + pf, len(cases) + npf


RULE = ("cases: a synthetic solver view (energy history of length 0-12: monotone / plateau / random / leading or all "
        "infinities / ties; population, popEnergy, best/trial solution (1-D and trial population), gradient, counters, "
        "fake clocks; python and numpy floats; integer, dyadic and general-float regimes) x 1-5 primitive conditions of all "
        "12 factories whose tolerances are aimed at the view (exact tie, one ulp either side, looser, tighter, 0, inf, "
        "negative) and windows in {None, 0, 1, 2, len-2, len-1, len, len+1, len+5, float, negative} x a random "
        "When/And/Or expression to depth 4 with shared primitives, empty and single-argument compounds and sibling "
        "tuple-key collisions.  compared bit-exactly with the Lean model: constructed object structure, each primitive's "
        "verdict / exception, condition(solver), condition(solver, True) as a set of docs, condition(solver,'self'), "
        "condition(solver,'not'), and the verdict of type(c)(**state(c)[doc]) for every primitive.  "
        "deepening: + GradientNormTolerance with norm in {0, 1, 2, 3, 4, 7, 0.5, 1.5, 2.5, -1, -2, 100, 1e-3, inf, -inf, nan} on a "
        "solver-supplied gradient or (gradient absent / [None] / [.., None]) approx_fprime of a recorded raw cost "
        "(bit-exact when every power / sum is exact or correctly rounded, otherwise tolerances kept 2^-16 away: "
        "counted as tol(toleranced-stream)); CollapseAt / CollapseAs on a synthetic step monitor (settled / drifting / "
        "paired columns, ragged, shorter or longer than the energy history; targets None / scalar / vector / wrong length; "
        "masks None / index sets / pair sets / bad elements / non-sets; scalar and list tolerances) incl. the reported "
        "indices after ' at '; ragged populations and best/trial length mismatch; settings as numpy scalars; the keys of "
        "state(condition) in order; auxiliary streams per case: approx_fprime points + gradient (direct and through "
        "the condition), Lnorm value (exact / toleranced 1e-9 counted apart), cond == cond2 / hash / dict-key behaviour "
        "against a re-classed / mutated second tree; 16 fixed state() round-trip probes.  "
        "non-trivial = a compound whose primitives are not all of one verdict, or a single primitive on a history of "
        "length >= 2")


def main(tier, seed):
    t0 = time.time()
    proof = framework.proof_stage(PID, MODULE, THEOREMS, tier)
    nshards, per = (16, 500) if tier == "quick" else (64, 20000)
    run = framework.run_shards("c10", "run_shard", PID, seed, nshards, per, tier)
    fixed, nfixed = run_fixed()
    run["findings"] = fixed + run["findings"]
    run["evaluations"] += nfixed
    run["model_lines"] += nfixed

    def search_more():
        r = framework.run_shards("c10", "run_shard", PID, seed + 7919, 32, 2000, tier)
        return r["findings"]
    tb = ["Lean 4.33 kernel; axioms per theorem listed under coverage.theorems",
          "hand-written model Model/Termination.lean tied to mystic/termination.py by this bit-exact differential run only",
          "int() of a float `generations` setting and repr/eval of the settings inside the doc string are Python's (the "
          "harness passes int(g); rebuilding through state()/type() is compared on verdicts)",
          "CollapseAt / CollapseAs conditions reuse the detectors of Model/Collapse.lean (C11) unchanged; CollapseWeight / "
          "CollapsePosition / CollapseCost (termination.py l.454-502, 557-583) are not modelled here",
          "GradientNormTolerance with a finite norm: numpy's array power takes SIMD / fast paths (square, sqrt, reciprocal, "
          "identity are mirrored; any other exponent is libm pow in the model) - bit-exact comparison only where every "
          "power is exactly representable, elsewhere tolerances are kept away from the norm; the scalar root s**(1./p) is "
          "libm pow on both sides (0 mismatches / 200000 measured); detection of FloatingPointError (over / invalid) is "
          "re-implemented in the driver (Drv/C10.lean raisesF), not proved",
          "the raw cost of the synthetic solver is the harness's own quadratic family evaluated left to right"]
    assumptions = ["IEEE binary64 + - * and comparisons agree between Lean Float and CPython/numpy",
                   "numpy.add.reduce over at most 7 addends is sequential (measured); longer sums only in the exact dyadic regime",
                   "populations are rectangular; the trial population is non-empty",
                   "documented inequality of NormalizedCostTarget without fval read as its prose (no improvement: cost[-g]-cost[-1] <= 0), "
                   "of PopulationSpread / NormalizedCostTarget as normalised by |reference| (prose), equal energies (also equal "
                   "infinities) count as a change of 0"]
    return framework.finish(PID, tier, seed, t0, proof, run, RULE, tb, assumptions, search_more=search_more)


def replay(path):
    import numpy
    common.import_mystic()
    numpy.seterr(all="ignore")
    data = json.load(open(path))
    cs = data.get("case")
    if cs is None and data.get("correspondence_not_checking"):
        cs = data["correspondence_not_checking"][0]["case"]
    if cs is None:
        print("replay: no stored case in %s (proof-stage failure: %r)" % (path, data.get("theorems_not_checking")))
        return 1

    def unj(o):
        if isinstance(o, dict) and set(o.keys()) == {"float"}:
            return float(o["float"])
        if isinstance(o, dict):
            return {k: unj(x) for k, x in o.items()}
        if isinstance(o, list):
            return [unj(x) for x in o]
        return o
    cs = unj(cs)

    def tup(e):
        return ("p", e[1]) if e[0] == "p" else (("when", tup(e[1])) if e[0] == "when" else (e[0], [tup(x) for x in e[1]]))
    case = execute({"regime": cs["regime"], "view": cs["view"], "specs": [tuple(s) for s in cs["specs"]],
                    "expr": tup(cs["expr"]), "rclock": cs["rclock"], "auxp": cs.get("auxp"), "auxw": cs.get("auxw"),
                    "expr2": tup(cs["expr2"]) if cs.get("expr2") is not None else None, "npset": cs.get("npset")})
    reps, areps = drive_cases([case])
    rep = reps[0]
    diffs, kv = compare(case, rep)
    diffs = diffs + ["%s: %s" % sd for sd in compare_aux(case, areps[0])[0]]
    mons = monitor(case)
    known = {e["class_key"] for e in framework.load_known(PID)}
    print("replay %s: expression %s" % (path, show_expr(case["expr"])))
    print(" implementation:", {k: case["impl"][k] for k in ("built", "prims", "b", "info", "self", "not", "rb")})
    print(" model:         ", rep)
    rc = 0
    for d in diffs:
        print("VIOLATION property=%s replay=%s no-failing-input-found   # correspondence: %s" % (PID, path, d)); rc = 1
    for key, what in mons:
        if key in known:
            print("KNOWN-FINDING: property=%s %s [%s]" % (PID, what, key))
        else:
            print("VIOLATION property=%s replay=%s   # %s: %s" % (PID, path, key, what)); rc = 1
    if rc == 0:
        print("replay: property holds on this case (or only listed known findings)")
    return rc
