"""C18, third deepening: the distance metrics and the L-p norm over the whole FLOAT RANGE of coordinate differences.

The earlier streams draw coordinates of ordinary magnitude (plus a few inf / nan / 1e200 cells) and judge the result
with an ABSOLUTE allowance (rel 1e-9 of a fixed scale 20**p).  Everything that depends on the size of |x_i - x'_i|**p
is then out of reach: which floating-point conditions make distance.minkowski (l.184-188) / distance.Lnorm (l.32-36)
give up the p-norm and return the infinity norm instead.  As coded only OVERFLOW / INVALID do (seterr(over='raise',
invalid='raise')); an UNDERFLOWING power (a difference that is non-zero but below ~1e-154 for p=2, ~1e-103 for p=3,
~1e-44 for p=7; denormal results included) contributes (almost) nothing to the sum and the p-norm is still returned.

This family draws every coordinate from magnitude classes (exact 0, denormal, tiny, small, ordinary, large, huge and the
p-dependent under/overflow boundaries (2^-1074)^(1/p), (2^-1022)^(1/p), (2^1024)^(1/p) a little / far either side), column-wise
correlated so that differences of every class occur alone and NEXT TO each other in one point pair, for every metric
(chebyshev, hamming, manhattan, euclidean, minkowski p = 1..7), the matrix (pair=False, axis=0), pairwise (pair=True,
axis=1) and single-pair (1-D, pair=True, axis=None) interfaces, and Lnorm (p = 0..7, inf).

Monitor (scale-free, exact rationals): the textbook value q = sum |a_i - b_i|**p of the addressed pair of points and the
result v satisfy  |v**p - q| <= 1e-9 (v**p + q) + n 2^-1060  (the absolute term is the rounding of gradual underflow:
every power and every partial sum is wrong by at most half a denormal ulp, 2^-1075); max / count metrics exactly.  A
cell whose own q reaches the overflow threshold may carry the documented infinity norm instead (l.187 "use the infinity
norm"); a cell that does NOT overflow but shares the call with one that does gets the infinity norm too (the fall-back
replaces the whole array) - that is the recorded finding F66, inside which the strongest true statement (the value is
the cell's own infinity norm) is still checked.

Correspondence: the same `dista` / `lnormr` driver requests as the shape stream (Model/MeasuresX.lean minkowskiA with the
`overflowed` fall-back, lnormA), compared in the same power-space metric; max / count metrics bit-exactly; calls whose
overflow decision lies within 1e-6 of the threshold are not compared (libm pow vs repeated multiplication)."""
import math
from fractions import Fraction as Fr
import common
from common import fl, f2b, b2f, floats_of

INF = float("inf")
RTOL = Fr(1, 10 ** 9)
MAXF = Fr(2) ** 1024
UFLOW = Fr(1, 2 ** 1060)
MINN = 2.0 ** -1022
DEN = 5e-324


def B():
    import c18
    return c18


def X():
    import c18x
    return c18x


# ------------------------------------------------------------------ magnitudes
CLASSES = ["zero", "denorm", "tiny", "small", "ord", "large", "huge", "uedge", "oedge"]


def sgn(rng):
    return rng.choice([1.0, -1.0])


def mag(rng, cls, p):
    """a float of the magnitude class; `p` places the under/overflow boundaries of the p-th power"""
    pp = max(int(p), 1) if p != "inf" else 2
    if cls == "zero":
        return 0.0
    if cls == "denorm":
        k = rng.random()
        if k < 0.4:
            return sgn(rng) * DEN * rng.choice([1, 1, 2, 3, 7, 1000, 2 ** 30, 2 ** 51])
        return sgn(rng) * 10.0 ** rng.uniform(-323, -308)
    if cls == "tiny":
        return sgn(rng) * 10.0 ** rng.uniform(-300, -100)
    if cls == "small":
        return sgn(rng) * 10.0 ** rng.uniform(-100, -3)
    if cls == "ord":
        return rng.uniform(-10, 10) if rng.random() < 0.7 else float(rng.randint(-4, 4))
    if cls == "large":
        return sgn(rng) * 10.0 ** rng.uniform(3, 100)
    if cls == "huge":
        return sgn(rng) * 10.0 ** rng.uniform(100, 300)
    if cls == "uedge":
        # where the p-th power becomes denormal / vanishes
        base = rng.choice([MINN, MINN, DEN, DEN / 2]) ** (1.0 / pp) if rng.random() < 0.8 else MINN
        f = rng.choice([1.0, 1.0 + 1e-12, 1.0 - 1e-12, 1.001, 0.999, 2.0, 0.5, 10.0, 0.1, 1e3, 1e-3])
        return sgn(rng) * base * f
    if cls == "oedge":
        base = (2.0 ** 1023) ** (1.0 / pp) * 2.0 ** (1.0 / pp)
        f = rng.choice([1.001, 0.999, 1.01, 0.99, 2.0, 0.5, 0.1, 10.0, 1e-3, 1.0 + 1e-12, 1.0 - 1e-12, 0.7, 0.6])
        v = base * f
        return sgn(rng) * (v if v < 1e307 else 1e307)
    raise ValueError(cls)


def column_classes(rng, dim, p):
    """one magnitude class per coordinate: mixtures (a tiny / huge difference NEXT TO ordinary ones) and pure columns"""
    k = rng.random()
    if k < 0.15:
        c = rng.choice(CLASSES)
        return [c] * dim                                     # every difference of one class
    if k < 0.55:
        main = rng.choice(["ord", "ord", "ord", "small", "large", "tiny"])
        odd = rng.choice(["denorm", "tiny", "tiny", "uedge", "uedge", "small", "zero", "huge", "oedge", "large"])
        cols = [main] * dim
        for _ in range(rng.choice([1, 1, 2])):
            cols[rng.randrange(dim)] = odd
        return cols
    return [rng.choice(CLASSES) for _ in range(dim)]


def gen_pts(rng, n, cols, p):
    pts = []
    for _ in range(n):
        row = []
        for c in cols:
            k = rng.random()
            cc = c if k < 0.75 else ("zero" if k < 0.9 else rng.choice(CLASSES))
            row.append(mag(rng, cc, p))
        pts.append(row)
    return pts


# ------------------------------------------------------------------ the clause, scale-free
def pow_close(v, q, p, n):
    """v >= 0 finite and v**p == q up to rel 1e-9 and the absolute rounding of gradual underflow"""
    if not (v == v) or abs(v) == INF or v < 0:
        return False
    vp = Fr(v) ** p
    return abs(vp - q) <= RTOL * (vp + q) + n * UFLOW


def eq_close(v, q):
    if not (v == v) or abs(v) == INF:
        return False
    return abs(Fr(v) - q) <= RTOL * (abs(Fr(v)) + abs(q))


def cell_terms(a, b):
    # |a - b| as the code forms it: ONE rounded float subtraction (exact in the denormal range); the textbook value
    # is taken on the exact difference, the rounding is inside rel 1e-9
    return [abs(Fr(s) - Fr(t)) for s, t in zip(a, b)]


def overflow_state(dq, p):
    """'no' / 'band' / 'yes' for the p-th powers and their sum of one lane against the overflow threshold 2^1024"""
    q = sum(t ** p for t in dq)
    top = max([t ** p for t in dq] + [q])
    if top < MAXF * (1 - Fr(1, 10 ** 6)):
        return "no"
    if top > MAXF * (1 + Fr(1, 10 ** 6)):
        return "yes"
    return "band"


def underflow_kinds(dq, p):
    """which of the non-zero differences have a p-th power below the normal range"""
    out = set()
    for t in dq:
        if t != 0:
            tp = t ** p
            if tp < Fr(DEN) / 2:
                out.add("vanishing")
            elif tp < Fr(MINN):
                out.add("denormal")
    return out


def judge_cells(kind, p, cells, nlane):
    """cells: [(value, a, b)] of one call.  -> (monitor list, tags set)"""
    mon = []; tags = set()
    summing = kind in ("manhattan", "euclidean", "minkowski") and p != "inf"
    info = []
    any_over = False
    for v, a, b in cells:
        dq = cell_terms(a, b)
        st = overflow_state(dq, p) if summing else "no"
        if st != "no":
            any_over = True
        info.append((v, a, b, dq, st))
    for v, a, b, dq, st in info:
        cheb = max(dq) if dq else Fr(0)
        if kind == "chebyshev" or p == "inf":
            good = eq_close(v, cheb)
            if not good:
                mon.append(("%s/definition" % kind, "%s(%r, %r) = %r, textbook max|a_i-b_i| = %r" % (kind, a, b, v, float(cheb))))
                break
            continue
        if kind == "hamming":
            want = sum(1 for t in dq if t != 0)
            if v != want:
                mon.append(("hamming/definition", "hamming(%r, %r) = %r, textbook count %d" % (a, b, v, want)))
                break
            continue
        q = sum(t ** p for t in dq)
        uk = underflow_kinds(dq, p)
        for u in uk:
            tags.add("underflow-" + u)
        if uk and any(t != 0 and t ** p >= Fr(MINN) for t in dq):
            tags.add("underflow-beside-normal")
        if st != "no":
            tags.add("overflow-" + st)
        good = pow_close(v, q, p, nlane)
        if good:
            continue
        label = "%s(%r, %r%s) = %r, textbook (sum |a_i-b_i|^%s)^(1/%s) = %s" % (
            kind, a, b, (", p=%s" % p) if kind == "minkowski" else "", v, p, p, approx_root(q, p))
        if st != "no" and eq_close(v, cheb):
            tags.add("fallback-own-overflow")               # the documented answer for an overflowing power / sum
            continue
        if st == "no" and any_over and eq_close(v, cheb):
            tags.add("fallback-other-cell")
            mon.append(("minkowski/definition/overflow-of-another-cell",
                        label + " - the infinity norm of THIS pair, returned because the power / sum of another pair of the same call overflows"))
            break
        und = "underflowing-power" if uk else "plain"
        mon.append(("%s/definition" % kind, label + (" [%s]" % und)))
        break
    return mon, tags


def approx_root(q, p):
    try:
        if q == 0:
            return "0.0"
        e = (q.numerator.bit_length() - q.denominator.bit_length())
        m = float(q / Fr(2) ** e) if e >= 0 else float(q * Fr(2) ** (-e))
        return repr(m ** (1.0 / p) * 2.0 ** (e / float(p)))
    except Exception:   # noqa
        return "?"


# ------------------------------------------------------------------ families
def fam_distr(rng, exact):
    """exact flag unused: the data are general floats by construction"""
    import numpy as np
    from mystic.math import distance as D
    b = B(); x = X()
    if rng.random() < 0.22:
        return fam_lnormr(rng)
    kind = rng.choice(["chebyshev", "hamming", "manhattan", "euclidean", "euclidean", "minkowski", "minkowski", "minkowski"])
    p = {"manhattan": 1, "euclidean": 2}.get(kind, rng.choice([1, 2, 3, 3, 4, 5, 7, "inf"]))
    if kind in ("chebyshev", "hamming"):
        p = 1
    pc = 2 if kind in ("chebyshev", "hamming") else p        # boundaries drawn for squares in the max / count metrics
    dim = rng.randint(1, 5)
    form = rng.choice(["matrix", "matrix", "pairwise", "pairwise", "single"])
    cols = column_classes(rng, dim, pc)
    if form == "matrix":
        n = rng.randint(1, 3); m = rng.randint(1, 3)
        sx, sy, pair, dmin, axis = [n, dim], [m, dim], False, rng.choice([0, 0, 2]), 0
    elif form == "pairwise":
        n = rng.randint(1, 4); m = n if rng.random() < 0.8 else 1
        sx, sy, pair, dmin, axis = [n, dim], [m, dim], True, rng.choice([0, 0, 2]), rng.choice([1, 1, -1])
    else:
        n = m = 1
        sx, sy, pair, dmin, axis = [dim], [dim], True, rng.choice([0, 0, 1]), None
    PX = gen_pts(rng, n, cols, pc); PY = gen_pts(rng, m, cols, pc)
    for a in PX:                                             # shared coordinates: exact zeros among the differences
        for t in range(dim):
            if rng.random() < 0.15:
                a[t] = PY[rng.randrange(m)][t]
    if rng.random() < 0.25:
        # differences of a class on top of a common base that cannot absorb them: x = y + delta is exact here
        for a, bb in zip(PX, PY):
            for t in range(dim):
                if cols[t] in ("denorm", "tiny", "uedge") and rng.random() < 0.5:
                    bb[t] = mag(rng, cols[t], pc); a[t] = bb[t] + mag(rng, cols[t], pc)
    Xv = PX[0] if form == "single" else PX
    Yv = PY[0] if form == "single" else PY
    xf = [t for r in PX for t in r]; yf = [t for r in PY for t in r]
    typed = lambda v: np.array(v, dtype=float) if rng.random() < 0.5 else v
    ax = typed(Xv); ay = typed(Yv)
    fn = getattr(D, kind)
    kw = {"pair": pair, "dmin": dmin, "axis": axis}
    if kind == "minkowski":
        kw["p"] = np.inf if p == "inf" else p
    st0 = x.np_state()
    obs = b.call(lambda: x.flat_of(fn(ax, ay, **kw)))
    st1 = x.np_state()
    np.seterr(**st0)
    line = "C18 dista (kind %s) (p %s) (xshape %s) (x %s) (yshape %s) (y %s) (pair %s) (dmin %d) (axis %s)" % (
        kind, p, x.nl(sx), fl(xf), x.nl(sy), fl(yf), "true" if pair else "false", dmin, "none" if axis is None else axis)
    summing = kind in ("manhattan", "euclidean", "minkowski") and p != "inf"
    inputs = {"x": Xv, "y": Yv, "kind": kind, "p": p, "pair": pair, "dmin": dmin, "axis": axis, "columns": cols}

    def check(r):
        tag = "distr:%s:p=%s:%s" % (kind, p, form)
        mon = []
        if st1 != st0:
            mon.append(("minkowski/numpy-error-state/%s" % ("exception-exit" if obs[0] == "err" else "normal-return"),
                        "numpy.geterr() was %r before and %r after %s(%r)" % (st0, st1, kind, kw)))
        if obs[0] == "err" or r[0] == "err":
            dd = [] if (obs[0] == r[0] and obs[1] == r[1]) else ["%s: impl=%r model=%r" % (kind, obs, r[:2])]
            if obs[0] == "err":
                mon.append(("%s/raises" % kind, "%s raised %s on finite points %r, %r (%r)" % (kind, obs[1], Xv, Yv, kw)))
            return dd, mon, tag + ":err", False
        ishape, iv = obs[1]
        if form == "matrix":
            want = [n, m]; cells = [(i * m + j, PX[i], PY[j]) for i in range(n) for j in range(m)]
        elif form == "pairwise":
            nn = max(n, m); want = [nn]
            cells = [(i, PX[i if n > 1 else 0], PY[i if m > 1 else 0]) for i in range(nn)]
        else:
            want = []; cells = [(0, PX[0], PY[0])]
        tags = set()
        if ishape != want:
            mon.append(("%s/shape" % kind, "result shape %r, expected %r (x %r, x' %r, %r)" % (ishape, want, sx, sy, kw)))
        else:
            m2, tags = judge_cells(kind, p, [(iv[idx], a_, b_) for idx, a_, b_ in cells], dim)
            mon.extend(m2)
        # correspondence
        mshape = [int(t) for t in r[1]["shape"]]; mv = floats_of(r[1]["d"])
        dd = []
        band = "overflow-band" in tags
        if ishape != mshape:
            dd.append("%s: shape impl=%r model=%r" % (kind, ishape, mshape))
        elif not summing:
            if not b.cmp_vec(True, iv, mv):
                dd.append("%s: impl=%r model=%r (bit-exact)" % (kind, iv, mv))
        elif not band:
            for u, w in zip(iv, mv):
                ok = (u == w) or (u == u and w == w and abs(u) != INF and abs(w) != INF and u >= 0 and w >= 0 and
                                  abs(Fr(u) ** p - Fr(w) ** p) <= RTOL * (Fr(u) ** p + Fr(w) ** p) + dim * UFLOW)
                if not ok:
                    dd.append("%s: impl=%r model=%r (rel 1e-9 in the p-th power, gradual-underflow allowance)" % (kind, iv, mv))
                    break
        for t in sorted(tags):
            tag += ":" + t
        return dd, mon, tag, dim > 1 and bool(tags)
    return dict(op="distr/" + kind, inputs=inputs, line=line, obs=obs, exact=False, check=check)


def fam_lnormr(rng):
    import numpy as np
    from mystic.math import distance as D
    b = B(); x = X()
    p = rng.choice([0, 1, 2, 2, 3, 3, 4, 5, 7, "inf"])
    pc = 2 if p in (0, "inf") else p
    n = rng.randint(1, 6)
    cols = column_classes(rng, n, pc)
    ws = gen_pts(rng, 1, cols, pc)[0]
    st0 = x.np_state()
    obs = b.call(D.Lnorm, np.array(ws) if rng.random() < 0.5 else ws, np.inf if p == "inf" else p)
    st1 = x.np_state()
    np.seterr(**st0)
    line = "C18 lnormr (ws %s) (p %s)" % (fl(ws), p)

    def check(r):
        tag = "lnormr:p=%s" % p
        mon = []; tags = set()
        if st1 != st0:
            mon.append(("Lnorm/numpy-error-state", "numpy.geterr() was %r before and %r after Lnorm(%r, %s)" % (st0, st1, ws, p)))
        if obs[0] == "err" or r[0] == "err":
            dd = [] if (obs[0] == r[0] and obs[1] == r[1]) else ["Lnorm: impl=%r model=%r" % (obs, r[:2])]
            if obs[0] == "err":
                mon.append(("Lnorm/raises", "Lnorm(%r, %s) raised %s" % (ws, p, obs[1])))
            return dd, mon, tag + ":err", False
        v = float(obs[1]); mv = b2f(r[1]["v"])
        dq = [abs(Fr(w)) for w in ws]
        isfin = (v == v) and abs(v) != INF
        if p == 0:
            good = v == sum(1 for t in dq if t != 0); st = "no"
        elif p == "inf":
            good = isfin and Fr(v) == max(dq); st = "no"
        else:
            q = sum(t ** p for t in dq)
            st = overflow_state(dq, p)
            uk = underflow_kinds(dq, p)
            for u in uk:
                tags.add("underflow-" + u)
            if uk and any(t != 0 and t ** p >= Fr(MINN) for t in dq):
                tags.add("underflow-beside-normal")
            if st != "no":
                tags.add("overflow-" + st)
            good = pow_close(v, q, p, n)
            if not good and st != "no" and isfin and Fr(v) == max(dq):
                good = True; tags.add("fallback-own-overflow")
        if not good:
            mon.append(("Lnorm/definition", "Lnorm(%r, %s) = %r%s" % (ws, p, v, "" if p in (0, "inf") else
                                                                        ", textbook %s" % approx_root(sum(t ** p for t in dq), p))))
        dd = []
        if p in (0, "inf"):
            if not b.same_num(v, mv):
                dd.append("Lnorm(p=%s): impl=%r model=%r (bit-exact)" % (p, v, mv))
        elif st != "band":
            ok = (v == mv) or (v == v and mv == mv and abs(v) != INF and abs(mv) != INF and v >= 0 and mv >= 0 and
                               abs(Fr(v) ** p - Fr(mv) ** p) <= RTOL * (Fr(v) ** p + Fr(mv) ** p) + n * UFLOW)
            if not ok:
                dd.append("Lnorm(p=%s): impl=%r model=%r (rel 1e-9 in the p-th power)" % (p, v, mv))
        for t in sorted(tags):
            tag += ":" + t
        return dd, mon, tag, n > 1 and bool(tags)
    return dict(op="Lnormr", inputs={"ws": ws, "p": p, "columns": cols}, line=line, obs=obs, exact=False, check=check)


FAMILIES_R = [("distr", fam_distr, 9)]


def witnesses():
    """F66 re-confirmed on a fixed input -> [(class_key, what, desc)]"""
    import numpy as np
    from mystic.math import distance as D
    out = []
    v = np.asarray(D.euclidean([[0.0, 0.0]], [[3.0, 4.0], [1e200, 0.0]], axis=0), dtype=float).ravel().tolist()
    if v[0] != 5.0:
        out.append(("minkowski/definition/overflow-of-another-cell",
                    "euclidean([[0,0]], [[3,4],[1e200,0]], axis=0) = %r: the distance of (0,0) and (3,4) is returned as %r (textbook 5.0) "
                    "because the square of the OTHER pair overflows and the infinity norm replaces the whole array" % (v, v[0]),
                    {"op": "euclidean", "inputs": {"x": [[0.0, 0.0]], "y": [[3.0, 4.0], [1e200, 0.0]], "axis": 0}, "impl": repr(v)}))
    return out
