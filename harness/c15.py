"""C15 - penalty methods are zero on the feasible set and follow their formulas.
Correspondence: real mystic.penalty stacks (all nine types, nesting 1-4, the adapters with_penalty / as_penalty and
the combinators coupler.and_/or_/not_/additive) driven by random op sequences vs lean Model/Penalty (bit-exact;
`log` of barrier_inequality and inexact python `sum` toleranced and counted separately).
Monitor: the property itself (exact rational arithmetic on the documented formulas) on the implementation's results."""
import sys, time, math, json, warnings, random as _random
from fractions import Fraction
import common
from common import case_rng, fl, f2b, b2f, same_float, same_vec, gfloat, dyadic, parse_reply
import dsl, framework, leandrv
from framework import Finding

PID = "C15"
MODULE = "MysticVerif.Props.C15"
THEOREMS = [
    "MysticVerif.C15.zero_on_feasible",
    "MysticVerif.C15.positive_on_violation",
    "MysticVerif.C15.formula_quadratic_equality",
    "MysticVerif.C15.formula_linear_equality",
    "MysticVerif.C15.formula_uniform_equality",
    "MysticVerif.C15.formula_uniform_inequality",
    "MysticVerif.C15.formula_quadratic_inequality",
    "MysticVerif.C15.formula_linear_inequality",
    "MysticVerif.C15.formula_barrier_inequality",
    "MysticVerif.C15.formula_lagrange_equality",
    "MysticVerif.C15.formula_lagrange_inequality",
    "MysticVerif.C15.lagrange_inequality_multiplier",
    "MysticVerif.C15.error_spec",
    "MysticVerif.C15.error_nested",
    "MysticVerif.C15.error_div_zero",
    "MysticVerif.C15.error_div_zero_nested",
    "MysticVerif.C15.iter_advances",
    "MysticVerif.C15.iter_sets",
    "MysticVerif.C15.clear_resets",
    "MysticVerif.C15.iter_clear_frame",
    "MysticVerif.C15.handle_frame",
    "MysticVerif.C15.iteration_history",
    "MysticVerif.C15.store_spec",
    "MysticVerif.C15.store_frame",
    "MysticVerif.C15.stacked_add",
    "MysticVerif.C15.amount_sign",
    "MysticVerif.C15.stack_zero_on_feasible",
    "MysticVerif.C15.stack_positive_on_violation",
    "MysticVerif.C15.div_zero_top",
    "MysticVerif.C15.div_zero_top_stack",
    "MysticVerif.C15.additive_spec",
    "MysticVerif.C15.rnorm_zero_iff",
    "MysticVerif.C15.combinator_conditions",
    "MysticVerif.C15.barrier_not_zero_on_feasible_witness",
    "MysticVerif.C15.lagrange_inequality_negative_on_feasible_witness",
    "MysticVerif.C15.lagrange_equality_negative_on_violation_witness",
]

TYPES = [("quadratic_equality", "qEq"), ("linear_equality", "lEq"), ("uniform_equality", "uEq"),
         ("uniform_inequality", "uIneq"), ("barrier_inequality", "barrier"), ("quadratic_inequality", "qIneq"),
         ("linear_inequality", "lIneq"), ("lagrange_inequality", "lagIneq"), ("lagrange_equality", "lagEq")]
TOK = dict(TYPES)
EQ = {"qEq", "lEq", "uEq", "lagEq"}
LAG = {"lagIneq", "lagEq"}
CONFORMING = {"qEq", "lEq", "uEq", "uIneq", "qIneq", "lIneq"}
DEFAULT_K = {"qEq": 100, "lEq": 100, "uEq": math.inf, "uIneq": math.inf, "barrier": 100, "qIneq": 100, "lIneq": 100,
             "lagIneq": 20, "lagEq": 20}
INF = math.inf


# ------------------------------------------------------------------ generators
def gen_cond_expr(rng, dim, exact=False):
    """returns (expr, target) ; target = (i, a): the condition is exactly 0 where x[i] == a (or None)"""
    i = rng.randrange(dim)
    a = dyadic(rng, -3, 3, 4)
    k = rng.random()
    if exact:
        k = k * 0.45
    if k < 0.30:
        return ("-", ("x", i), ("c", a)), (i, a)
    if k < 0.45:
        return ("-", ("c", a), ("x", i)), (i, a)
    if k < 0.55:
        j = rng.randrange(dim)
        return ("-", ("+", ("x", i), ("x", j)), ("c", a)), None
    if k < 0.65:
        return ("-", ("sq", ("x", i)), ("c", abs(a))), None
    if k < 0.80:   # divides by zero exactly at x[i] == a
        return ("/", ("c", dyadic(rng, -2, 2, 2)), ("-", ("x", i), ("c", a))), (i, a)
    if k < 0.88:
        return ("*", ("c", dyadic(rng, -2, 2, 2)), ("-", ("x", i), ("c", a))), (i, a)
    return dsl.gen_expr(rng, dim, 2, div=rng.random() < 0.4), None


def gen_kh(rng, t, exact=False):
    """(k, h, mode) ; mode 'int': python ints are passed (exactness regime k*h**n < 2**53), else floats"""
    if exact:
        return float(rng.choice([1, 2, 0.5, 4])), float(rng.choice([1, 2, 5, 0.5])), "float"
    r = rng.random()
    if r < 0.25:
        return rng.choice([1, 2, 20, 100]), rng.choice([1, 2, 3, 5]), "int"
    if r < 0.32:
        return DEFAULT_K[t], 5, ("int" if DEFAULT_K[t] != INF else "float")
    ks = [1.0, 2.0, 100.0, 20.0, 0.5, 1e-3, 0.0, INF, 1.0, 100.0]
    hs = [5.0, 5.0, 1.0, 2.0, 0.5, 1.5, 0.0, INF, 3.7, 5.0]
    k = rng.choice(ks) if rng.random() < 0.8 else rng.uniform(0.01, 50.0)
    h = rng.choice(hs) if rng.random() < 0.8 else rng.uniform(0.2, 6.0)
    return float(k), float(h), "float"


def gen_level(rng, dim, exact=False, types=None):
    name, tok = rng.choice(types or TYPES)
    k, h, mode = gen_kh(rng, tok, exact)
    e, target = gen_cond_expr(rng, dim, exact)
    return {"t": tok, "k": k, "h": h, "mode": mode, "n": 0, "y": [], "cond": ("e", e), "target": target}


def gen_plain_stack(rng, dim, depth, exact=False, types=None, zero_base=False):
    return {"levels": [gen_level(rng, dim, exact, types) for _ in range(depth)],
            "f": ("c", 0.0) if zero_base else (("c", dyadic(rng, -3, 3, 4)) if (exact or rng.random() < 0.3) else dsl.gen_expr(rng, dim, 2))}


def gen_con(rng, dim):
    i = rng.randrange(dim)
    r = rng.random()
    if r < 0.3:
        lo = dyadic(rng, -3, 3, 4)
        return ("clamp", i, lo, lo + abs(dyadic(rng, 0, 3, 4)))
    if r < 0.5:
        return ("pin", i, ("c", dyadic(rng, -3, 3, 2)))
    if r < 0.6:
        return ("rint", i)
    if r < 0.7:
        return ("id",)
    if r < 0.8:
        return ("pin", i, ("/", ("c", 1.0), ("x", rng.randrange(dim))))
    if r < 0.9 and dim > 1:
        j = (i + 1) % dim
        return ("tie", i, j, rng.choice([0.0, 1.0, -0.5]))
    return ("seq", ("clamp", i, -1.0, 1.0), ("rint", rng.randrange(dim)))


NON_BARRIER = [t for t in TYPES if t[1] != "barrier"]


def gen_case(rng):
    """a case = a stack spec (outermost level first; the innermost level possibly built by an adapter) + ops"""
    dim = rng.randint(1, 4)
    kind = rng.choice(["plain"] * 8 + ["with_penalty", "with_penalty", "as_penalty", "as_penalty", "and", "and", "or", "not", "not"])
    exact = (kind == "and" and rng.random() < 0.8)
    depth = rng.choice([1, 1, 2, 2, 3, 4]) if kind == "plain" else rng.choice([1, 1, 2, 3])
    spec = gen_plain_stack(rng, dim, depth, exact)
    spec["kind"] = kind
    spec["dim"] = dim
    spec["exact"] = exact
    inner = spec["levels"][-1]
    if kind != "plain":
        spec["f"] = ("c", 0.0)
    if kind == "as_penalty":
        inner["cond"] = ("rnorm", gen_con(rng, dim)); inner["target"] = None
        if rng.random() < 0.3:
            inner["t"] = "qEq"; inner["default_ptype"] = True
    elif kind in ("and", "or"):
        m = rng.choice([0, 1, 2, 2, 3, 3]) if kind == "and" else rng.choice([1, 2, 2, 3])
        members = []
        for _ in range(m):
            # a barrier member makes the combined condition a numpy scalar (numpy.log); stored in a lagrange_inequality
            # multiplier it turns python's ZeroDivisionError into numpy's silent inf/nan: outside the model
            ms = gen_plain_stack(rng, dim, rng.choice([1, 1, 2]), exact, types=NON_BARRIER if (exact or inner["t"] == "lagIneq") else None,
                                 zero_base=rng.random() < 0.7)
            ms["pre"] = gen_pre_ops(rng, dim, ms)
            members.append(ms)
        inner["cond"] = (kind, members); inner["target"] = None
        r = rng.random()
        if r < 0.35:      # all defaults: linear_equality, k=1, h=5
            inner.update(t="lEq", k=1, h=5, mode="int", defaults=True)
    elif kind == "not":
        e = inner["cond"]
        if rng.random() < 0.5:   # ptype taken from the member penalty, k=1, h = the type's default 5
            inner.update(k=1, h=5, mode="int", defaults=True)
        inner["cond"] = ("not", inner["t"], e)
        inner["member_k"] = rng.choice([1, 100, 2.5])
    spec["ops"] = gen_ops(rng, spec)
    return spec


def targets_of(spec):
    out = []
    for lv in spec["levels"]:
        if lv.get("target"):
            out.append(lv["target"])
        c = lv["cond"]
        if c[0] in ("and", "or"):
            for m in c[1]:
                out += targets_of(m)
    return out


def gen_point(rng, dim, targets, exact=False, special=True):
    r = rng.random()
    if exact or r < 0.35:
        x = [dyadic(rng, -3, 3, 4) for _ in range(dim)]
    elif r < 0.5:
        x = [float(rng.randint(-3, 3)) for _ in range(dim)]
    else:
        x = [gfloat(rng, 6.0) for _ in range(dim)]
    if targets and rng.random() < 0.6:
        for (i, a) in rng.sample(targets, min(len(targets), rng.choice([1, 1, 2]))):
            if i >= dim:
                continue
            w = rng.random()
            if exact:
                x[i] = a + rng.choice([0.0, 0.0, 0.25, -0.25, 1.0, -1.0])
            elif w < 0.4:
                x[i] = a
            elif w < 0.55:
                x[i] = math.nextafter(a, INF)
            elif w < 0.7:
                x[i] = math.nextafter(a, -INF)
            else:
                x[i] = a + rng.choice([0.5, -0.5, 1.0, -1.0, 0.125, -0.125])
    if special and not exact and rng.random() < 0.02:
        x[rng.randrange(dim)] = rng.choice([INF, -INF, math.nan, -0.0, 1e-40, 1e30])
    return x


def gen_pre_ops(rng, dim, ms):
    """state set-up of a member penalty before it is combined: iter(i) and a few store calls"""
    pre = []
    if rng.random() < 0.5:
        pre.append(("iterI", 0, rng.randint(0, 3)))
    if any(l["t"] in LAG for l in ms["levels"]) and rng.random() < 0.7:
        for _ in range(rng.randint(1, 3)):
            pre.append(("storeI", 0, [dyadic(rng, -3, 3, 4) for _ in range(dim)], rng.randint(0, 3)))
    return pre


def gen_ops(rng, spec):
    dim = spec["dim"]; depth = len(spec["levels"]); exact = spec["exact"]
    tg = targets_of(spec)
    ops = []
    nops = rng.randint(4, 12)
    has_lag = any(l["t"] in LAG for l in spec["levels"])
    special = spec["kind"] != "as_penalty"     # round(inf) inside a constraint raises OverflowError: outside the model
    pts = [gen_point(rng, dim, tg, exact, special) for _ in range(3)]
    for _ in range(nops):
        j = 0 if rng.random() < 0.7 else rng.randrange(depth)
        x = rng.choice(pts) if rng.random() < 0.4 else gen_point(rng, dim, tg, exact, special)
        r = rng.random()
        if has_lag and r >= 0.66 and r < 0.85 and rng.random() < 0.6:   # store / stored ops: aim at a Lagrange level
            j = rng.choice([i for i, l in enumerate(spec["levels"]) if l["t"] in LAG])
        if r < 0.34:
            ops.append(("call", j, x))
        elif r < 0.46:
            ops.append(("error", j, x))
        elif r < 0.60:
            ops.append(("iter", j))
        elif r < 0.66:
            ops.append(("iterI", j, rng.choice([0, 1, 2, 3, 5, -1, -2]) if not exact else rng.randint(0, 3)))
        elif r < 0.76:
            if has_lag or rng.random() < 0.3:
                if rng.random() < 0.5:
                    ops.append(("store", j, x))
                else:
                    ops.append(("storeI", j, x, rng.choice([0, 1, 2, 3, 4, 6, -1, -2, -3])))
            else:
                ops.append(("call", j, x))
        elif r < 0.80:
            ops.append(("stored", j))
        elif r < 0.85:
            ops.append(("storedI", j, rng.randint(-4, 7)))
        elif r < 0.90:
            ops.append(("clear", j))
        elif r < 0.94:
            ops.append(("iteration", j))
        else:
            ops.append(("additive", j, x, dsl.gen_expr(rng, dim, 1)))
    ops.append(("call", 0, rng.choice(pts)))
    return ops


# ------------------------------------------------------------------ the real objects
class ZD(Exception):
    pass


def cond_callable(c):
    if c[0] == "e":
        e = c[1]
        return lambda x: dsl.ev(e, x)
    raise AssertionError(c)


def num(v, mode):
    return int(v) if mode == "int" else float(v)


def build_stack(spec, probes=None):
    """returns (handles outermost first, base callable).  `probes`, if given, collects the base-call count."""
    from mystic import penalty as P, coupler, constraints as C
    fe = spec["f"]
    ncalls = [0]

    def base(x):
        ncalls[0] += 1
        return dsl.ev(fe, x)
    g = base
    handles = []
    levels = spec["levels"]
    for idx in range(len(levels) - 1, -1, -1):
        lv = levels[idx]
        name = [n for n, t in TYPES if t == lv["t"]][0]
        ptype = getattr(P, name)
        k = num(lv["k"], lv["mode"]); h = num(lv["h"], lv["mode"])
        c = lv["cond"]
        innermost = (idx == len(levels) - 1)
        kind = spec.get("kind", "plain") if innermost else "plain"
        if kind == "plain":
            g = ptype(cond_callable(c), k=k, h=h)(g)
        elif kind == "with_penalty":
            cf = cond_callable(c)
            g = C.with_penalty(ptype, k=k, h=h)(cf)
            assert g.func is cf and g.ptype == name
        elif kind == "as_penalty":
            con = c[1]
            cf = lambda x, con=con: dsl.con_apply(con, x)
            if lv.get("default_ptype"):
                g = C.as_penalty(cf, k=k, h=h)
            else:
                g = C.as_penalty(cf, ptype, k=k, h=h)
            assert g.ptype == name
        elif kind in ("and", "or"):
            members = []
            for ms in c[1]:
                hs, _ = build_stack(ms)
                run_pre(hs, ms)
                members.append(hs[0])
            comb = coupler.and_ if kind == "and" else coupler.or_
            if lv.get("defaults"):
                g = comb(*members)
            else:
                g = comb(*members, ptype=ptype, k=k, h=h)
        elif kind == "not":
            member = ptype(cond_callable(c[2]), k=lv["member_k"])(lambda x: 0.0)
            if lv.get("defaults"):
                g = coupler.not_(member)
            else:
                g = coupler.not_(member, ptype=ptype, k=k, h=h)
        handles.insert(0, g)
    if probes is not None:
        probes.append(ncalls)
    return handles, base


def run_pre(handles, ms):
    """apply the member's set-up ops and write the resulting state (n, y per level) back into its spec"""
    for op in ms.get("pre", []):
        if op[0] == "iterI":
            handles[op[1]].iter(op[2])
        elif op[0] == "storeI":
            handles[op[1]].store(list(op[2]), op[3])
    for lv, hdl in zip(ms["levels"], handles):
        lv["n"] = hdl.iteration()
        lv["y"] = [float(v) for v in hdl.stored()]


def guarded(fn):
    try:
        return ("v", fn())
    except ZeroDivisionError:
        return ("raise", "zerodiv")
    except IndexError:
        return ("raise", "index")
    except OverflowError:      # python raises where IEEE arithmetic returns inf: outside the model (never a verdict)
        return ("raise", "overflow")
    except Exception as exc:   # anything else is outside the model: reported
        return ("raise", "other:" + type(exc).__name__ + ":" + str(exc)[:80])


def state_of(handles):
    return [(h.iteration(), [float(v) for v in h.stored()]) for h in handles]


def run_impl(spec):
    """run the op list on the real penalty objects; returns (handles, observations)"""
    from mystic import coupler
    handles, base = build_stack(spec)
    obs = []
    for op in spec["ops"]:
        kind, j = op[0], op[1]
        hd = handles[j]
        if kind == "call":
            r = guarded(lambda: float(hd(list(op[2]))))
            deeper = []
            if r[0] == "v":   # the decorated functions' own values (monitor: stacked_add, zero/positive)
                for jj in range(j + 1, len(handles)):
                    deeper.append(guarded(lambda jj=jj: float(handles[jj](list(op[2])))))
                deeper.append(guarded(lambda: float(base(list(op[2])))))
            obs.append({"op": kind, "r": r, "deeper": deeper, "state": state_of(handles)})
        elif kind == "additive":
            g = op[3]
            r = guarded(lambda: float(coupler.additive(hd)(lambda x: dsl.ev(g, x))(list(op[2]))))
            pr = guarded(lambda: float(hd(list(op[2]))))
            obs.append({"op": kind, "r": r, "p": pr, "g": dsl.ev(g, op[2])})
        elif kind == "error":
            obs.append({"op": kind, "r": guarded(lambda: float(hd.error(list(op[2]))))})
        elif kind == "iter":
            before = state_of(handles)
            r = guarded(lambda: hd.iter())
            obs.append({"op": kind, "r": r, "before": before, "state": state_of(handles)})
        elif kind == "iterI":
            before = state_of(handles)
            r = guarded(lambda: hd.iter(op[2]))
            obs.append({"op": kind, "r": r, "before": before, "state": state_of(handles)})
        elif kind == "clear":
            before = state_of(handles)
            r = guarded(lambda: hd.clear())
            obs.append({"op": kind, "r": r, "before": before, "state": state_of(handles)})
        elif kind == "store":
            before = state_of(handles)
            r = guarded(lambda: hd.store(list(op[2])))
            obs.append({"op": kind, "r": r, "before": before, "state": state_of(handles)})
        elif kind == "storeI":
            before = state_of(handles)
            r = guarded(lambda: hd.store(list(op[2]), op[3]))
            obs.append({"op": kind, "r": r, "before": before, "state": state_of(handles)})
        elif kind == "stored":
            obs.append({"op": kind, "r": guarded(lambda: [float(v) for v in hd.stored()])})
        elif kind == "storedI":
            obs.append({"op": kind, "r": guarded(lambda: float(hd.stored(op[2])))})
        elif kind == "iteration":
            obs.append({"op": kind, "r": guarded(lambda: hd.iteration())})
        else:
            raise AssertionError(op)
    return handles, obs


# ------------------------------------------------------------------ protocol
def numtok(v, mode):
    return str(int(v)) if mode == "int" else f2b(v)


def cond_sexp(c):
    if c[0] == "e":
        return "(e %s)" % dsl.expr_sexp(c[1])
    if c[0] == "rnorm":
        return "(rnorm %s)" % dsl.con_sexp(c[1])
    if c[0] in ("and", "or"):
        return "(%s %s)" % (c[0], " ".join(stack_sexp(m) for m in c[1])) if c[1] else "(%s)" % c[0]
    if c[0] == "not":
        return "(not %s %s)" % (c[1], cond_sexp(c[2]))
    raise AssertionError(c)


def level_sexp(lv):
    return "(%s %s %s %d %s %s)" % (lv["t"], numtok(lv["k"], lv["mode"]), numtok(lv["h"], lv["mode"]), lv["n"],
                                    fl(lv["y"]), cond_sexp(lv["cond"]))


def stack_sexp(ms):
    return "(stack (%s) %s)" % (" ".join(level_sexp(l) for l in ms["levels"]), dsl.expr_sexp(ms["f"]))


def op_sexp(op):
    k = op[0]
    if k in ("call", "error", "store"):
        return "(%s %d %s)" % (k, op[1], fl(op[2]))
    if k == "additive":
        return "(additive %d %s %s)" % (op[1], fl(op[2]), dsl.expr_sexp(op[3]))
    if k == "storeI":
        return "(storeI %d %s %d)" % (op[1], fl(op[2]), op[3])
    if k in ("iter", "clear", "stored", "iteration"):
        return "(%s %d)" % (k, op[1])
    if k in ("iterI", "storedI"):
        return "(%s %d %d)" % (k, op[1], op[2])
    raise AssertionError(op)


def request_line(spec):
    return "C15 run (levels (%s)) (f %s) (ops (%s))" % (" ".join(level_sexp(l) for l in spec["levels"]),
                                                       dsl.expr_sexp(spec["f"]), " ".join(op_sexp(o) for o in spec["ops"]))


def split_items(r):
    """model reply items: a mutating op that raised yields two items `(raise e) (st ..)` -> one entry"""
    out = []
    for it in r:
        if it[0] == "st" and out and out[-1][0] == "raise" and len(out[-1]) == 2 and out[-1][1] == "index":
            out[-1] = ["raise", "index", it]
        else:
            out.append(it)
    return out


def model_state(it):
    return [(int(l[0]), [b2f(t) for t in l[1]]) for l in it[1:]]


# ------------------------------------------------------------------ tolerance classes
def involves_log(spec, j):
    def st(levels):
        for lv in levels:
            if lv["t"] == "barrier":
                return True
            c = lv["cond"]
            if c[0] in ("and", "or") and any(st(m["levels"]) for m in c[1]):
                return True
        return False
    return st(spec["levels"][j:])


def members_involve_log(spec, j):
    """error(x) never calls log itself; it depends on it only through and_/or_ member penalties"""
    for lv in spec["levels"][j:]:
        c = lv["cond"]
        if c[0] in ("and", "or") and any(involves_log(m, 0) for m in c[1]):
            return True
    return False


def sum_inexact(spec, j, x):
    """python's builtin `sum` is compensated: exact comparison only when every partial sum of the naive
    left fold is exactly representable (then both summations return the exact sum)"""
    for lv in spec["levels"][j:]:
        c = lv["cond"]
        if c[0] != "and":
            continue
        vals = []
        for ms in c[1]:
            hs, _ = build_stack(ms)
            run_pre(hs, ms)
            r = guarded(lambda: float(hs[0](list(x))))
            if r[0] != "v":
                return False
            vals.append(r[1])
        if any(not math.isfinite(v) for v in vals):
            continue
        acc = Fraction(0)
        for v in vals:
            acc += Fraction(v)
            if Fraction(float(acc)) != acc:
                return True
    return False


def close(a, b, scale):
    if same_float(a, b):
        return True
    if not (math.isfinite(a) and math.isfinite(b)):
        return False
    return abs(a - b) <= 1e-9 * max(abs(a), abs(b), scale) + 1e-300


# ------------------------------------------------------------------ monitor (independent of the model)
def fr(v):
    return Fraction(v)


def hpow(h, n):
    h = fr(h)
    if n >= 0:
        return h ** n
    return Fraction(1) / (h ** (-n))


def doc_amount(t, k, h, n, ys, c):
    """the documented added amount as an exact rational (float for barrier) and the magnitude of the terms it is
    made of (for the rounding tolerance); None = outside the documented domain"""
    if not all(math.isfinite(v) for v in (k, h, c)) or any(not math.isfinite(v) for v in ys):
        return None
    if h == 0 and n < 0:
        return None
    K = fr(k) * hpow(h, n)
    c_ = fr(c)
    if t == "qEq":
        return K * c_ * c_, 0
    if t == "lEq":
        return K * abs(c_), 0
    if t == "uEq":
        return (K if c_ != 0 else Fraction(0)), 0
    if t == "uIneq":
        return (K if c_ > 0 else Fraction(0)), 0
    if t == "qIneq":
        return 2 * K * max(Fraction(0), c_) ** 2, 0
    if t == "lIneq":
        return 2 * K * max(Fraction(0), c_), 0
    if t == "barrier":
        if c_ > 0:
            return INF, 0
        if K == 0:
            return None
        if c_ == 0:
            return (INF if K > 0 else -INF), 0
        return -math.log(-c) / (2.0 * float(K)), 0
    st = lambda i: fr(ys[i]) if i < len(ys) else Fraction(0)
    if t == "lagEq":
        lam = Fraction(0); Ki = fr(k); L = Fraction(0)
        for i in range(max(n, 0)):
            lam += 2 * Ki * st(i); L += abs(2 * Ki * st(i)); Ki *= fr(h)
        return Ki * c_ * c_ + lam * c_, abs(Ki * c_ * c_) + L * abs(c_)
    if t == "lagIneq":
        beta = Fraction(0); Ki = fr(k); B = Fraction(0)
        for i in range(max(n, 0)):
            if Ki == 0:
                return None
            B = max(B, abs(beta), abs(2 * Ki * st(i)))
            beta += 2 * Ki * max(-beta / (2 * Ki), st(i)); Ki *= fr(h)
        if Ki == 0:
            return None
        B = max(B, abs(beta))
        m = max(-beta / (2 * Ki), c_)
        return Ki * m * m + beta * m, abs(Ki * m * m) + B * abs(m) + B * B / abs(Ki) + abs(Ki) * abs(m) * B / abs(Ki)
    raise AssertionError(t)


def member_values(ms_list, x):
    vals = []
    for ms in ms_list:
        hs, _ = build_stack(ms)
        run_pre(hs, ms)
        r = guarded(lambda: float(hs[0](list(x))))
        if r[0] != "v":
            return None
        vals.append(r[1])
    return vals


def cond_values(spec, j, x):
    """per level j.. : float value of the condition at x (recomputed here, not taken from the penalty object),
    'zd' if it raises ZeroDivisionError, None if unknown"""
    out = []
    for lv in spec["levels"][j:]:
        c = lv["cond"]
        try:
            if c[0] == "e":
                out.append(dsl.ev(c[1], x))
            elif c[0] == "rnorm":
                cx = dsl.con_apply(c[1], x)
                out.append(math.sqrt(math.fsum((p - q) ** 2 for p, q in zip(cx, x))))
            elif c[0] == "not":
                v = dsl.ev(c[2][1], x)
                out.append(float(not v) if c[1] in EQ else 0 - v)
            elif c[0] in ("and", "or"):
                vals = member_values(c[1], x)
                if vals is None or any(v != v for v in vals) or (INF in vals and -INF in vals):
                    out.append(None)
                else:
                    out.append(float(math.fsum(vals)) if c[0] == "and" else min(vals))
            else:
                out.append(None)
        except ZeroDivisionError:
            out.append("zd")
    return out


def near(a, b, scale):
    if a == b:
        return True
    if not (math.isfinite(a) and math.isfinite(b)):
        return False
    return abs(a - b) <= 1e-9 * max(abs(a), abs(b), scale) + 1e-290


def monitor_call(spec, op, ob, out, hist):
    """property clauses on one evaluation p_j(x): per level zero-on-feasible / positive-on-violation /
    documented amount / stacked sum / division by zero -> inf"""
    j = op[1]; x = op[2]
    if ob["r"][0] != "v":
        return
    vals = [ob["r"][1]] + [d[1] if d[0] == "v" else None for d in ob["deeper"]]   # p_j, p_{j+1}, ..., f
    cvs = cond_values(spec, j, x)
    state = ob["state"]
    for idx, lv in enumerate(spec["levels"][j:]):
        outer = vals[idx]; inner = vals[idx + 1] if idx + 1 < len(vals) else None
        c = cvs[idx]
        t = lv["t"]; k = float(lv["k"]); h = float(lv["h"])
        n, ys = state[j + idx]
        if outer is None:
            break
        name = [nm for nm, tk in TYPES if tk == t][0]
        if c == "zd":
            hist["mon:zerodiv"] = hist.get("mon:zerodiv", 0) + 1
            if outer != INF:
                out.append(("%s/div-zero-not-inf" % name, "condition raised ZeroDivisionError at x=%r but p(x)=%r (level %d)" % (x, outer, j + idx)))
            break
        if c is None or inner is None or c != c or inner != inner:
            continue
        kfin = math.isfinite(k) and math.isfinite(h) and not (h == 0 and n < 0)
        if not kfin:
            hist["mon:k-or-h-not-finite"] = hist.get("mon:k-or-h-not-finite", 0) + 1
            continue
        sat = (c == 0) if t in EQ else (c <= 0)
        da = doc_amount(t, k, h, n, ys, c)
        amt, mag = da if da is not None else (None, 0)
        stored_fin = all(math.isfinite(v) for v in ys)
        scale = max(abs(inner) if math.isfinite(inner) else 0.0, float(mag),
                    abs(float(amt)) if (amt is not None and math.isfinite(float(amt))) else 0.0)
        hk = "mon:%s:%s" % (t, "sat" if sat else "viol")
        hist[hk] = hist.get(hk, 0) + 1
        # (1) no added penalty where satisfied  (checked for ALL nine types: the non-conforming ones are known findings)
        if sat and math.isfinite(inner) and stored_fin and outer != inner:
            key = "%s/nonzero-on-feasible" % name
            if t == "lagIneq":
                key += "/multipliers-stored" if any(v > 0 for v in ys[:max(n, 0)]) else "/no-multiplier"
            if t == "lagEq":
                key += "/multipliers-stored" if any(v != 0 for v in ys[:max(n, 0)]) else "/no-multiplier"
            out.append((key, "condition value %r is satisfied but p(x)=%r != decorated f(x)=%r (k=%r h=%r n=%d stored=%r, x=%r)" % (c, outer, inner, k, h, n, ys, x)))
        # (2) strictly positive where violated (k, h > 0); strictness only where rounding cannot absorb the amount
        if (not sat) and k > 0 and h > 0 and math.isfinite(inner) and stored_fin:
            if outer < inner:
                key = "%s/not-positive-on-violation" % name
                if t == "lagEq":
                    key += "/multipliers-stored" if any(v != 0 for v in ys[:max(n, 0)]) else "/no-multiplier"
                out.append((key, "condition value %r is violated but p(x)=%r < decorated f(x)=%r (k=%r h=%r n=%d stored=%r, x=%r)" % (c, outer, inner, k, h, n, ys, x)))
            elif outer == inner and amt is not None and t in CONFORMING and float(amt) > 1e-6 * max(1.0, abs(inner)):
                out.append(("%s/no-penalty-on-violation" % name, "condition value %r is violated but nothing was added: p(x)=%r (k=%r h=%r n=%d, x=%r)" % (c, outer, k, h, n, x)))
        # (3) the added amount is the documented expression (and stacked penalties add)
        if amt is not None and math.isfinite(inner):
            a = float(amt)
            if a == INF or a == -INF:
                ok = (outer == a)
            else:
                ok = near(outer, float(Fraction(inner) + Fraction(amt)), scale)
            hist["mon:formula"] = hist.get("mon:formula", 0) + 1
            if not ok:
                out.append(("%s/formula" % name, "p(x)=%r but decorated f(x)=%r + documented amount %r (condition %r, k=%r h=%r n=%d stored=%r, x=%r)" % (outer, inner, a, c, k, h, n, ys, x)))
    # a condition dividing by zero anywhere in the stack yields an infinite penalty (finite levels outside it)
    if "zd" in cvs:
        z = cvs.index("zd")
        fine = True
        for idx in range(z):
            lv = spec["levels"][j + idx]; n, ys = state[j + idx]; c = cvs[idx]
            if c is None or not isinstance(c, float) or not math.isfinite(c):
                fine = False
            elif doc_amount(lv["t"], float(lv["k"]), float(lv["h"]), n, ys, c) is None:
                fine = False
        if fine and vals[0] != INF:
            out.append(("stack/div-zero-not-inf", "the condition of level %d raised ZeroDivisionError at x=%r but p(x)=%r" % (j + z, x, vals[0])))


def monitor_error(spec, op, ob, out, hist):
    j = op[1]; x = op[2]
    if ob["r"][0] != "v":
        out.append(("error/raises", "error(x) raised %r at x=%r" % (ob["r"][1], x)))
        return
    cvs = cond_values(spec, j, x)
    if any(c is None or (c != "zd" and c != c) for c in cvs):
        return
    got = ob["r"][1]
    if "zd" in cvs:
        want = INF
    else:
        acc = Fraction(0)
        for lv, c in zip(spec["levels"][j:], cvs):
            if not math.isfinite(c):
                acc = None; break
            v = Fraction(c) if lv["t"] in EQ else max(Fraction(0), Fraction(c))
            acc += v * v
        if acc is None:
            return
        want = math.sqrt(acc)
    hist["mon:error"] = hist.get("mon:error", 0) + 1
    if not near(got, want, 0.0):
        out.append(("error/magnitude", "error(x)=%r but the violation magnitude is %r (conditions %r, x=%r)" % (got, want, cvs, x)))


def monitor_state(spec, op, ob, out, hist):
    """iter / clear / store : exactly the documented state change at levels >= j, nothing else anywhere"""
    kind = op[0]; j = op[1]
    before, after = ob["before"], ob["state"]
    if ob["r"][0] != "v":
        # `_y[i] = y` with i < -len(_y) (explicit i, or the default i = iteration() after iter(negative)) is an IndexError
        if not (kind in ("store", "storeI") and ob["r"][1] == "index"):
            out.append(("%s/raises" % kind, "%s raised %r" % (kind, ob["r"][1])))
        return
    for idx, ((n0, y0), (n1, y1)) in enumerate(zip(before, after)):
        if idx < j:
            if n0 != n1 or not same_vec(y0, y1):
                out.append(("%s/touches-outer-level" % kind, "%s on handle %d changed level %d: %r -> %r" % (kind, j, idx, (n0, y0), (n1, y1))))
            continue
        t = spec["levels"][idx]["t"]
        if kind == "iter":
            if n1 != n0 + 1 or not same_vec(y0, y1):
                out.append(("iter/not-advanced", "iter() on handle %d: level %d %r -> %r" % (j, idx, (n0, y0), (n1, y1))))
        elif kind == "iterI":
            if n1 != op[2] or not same_vec(y0, y1):
                out.append(("iter/not-set", "iter(%d) on handle %d: level %d %r -> %r" % (op[2], j, idx, (n0, y0), (n1, y1))))
        elif kind == "clear":
            if n1 != 0 or y1 != []:
                out.append(("clear/not-reset", "clear() on handle %d: level %d %r -> %r" % (j, idx, (n0, y0), (n1, y1))))
        elif kind in ("store", "storeI"):
            if n1 != n0:
                out.append(("store/touches-iteration", "store on handle %d changed the iteration of level %d" % (j, idx)))
            if t not in LAG and not same_vec(y0, y1):
                out.append(("store/non-lagrange-stores", "store on handle %d changed stored() of the %s level %d" % (j, t, idx)))
    hist["mon:state"] = hist.get("mon:state", 0) + 1


def monitor_store_value(spec, op, ob, out, hist):
    """store(x[, i]) at a Lagrange level records the condition value at index i (default: its iteration)"""
    if ob["r"][0] != "v":
        return
    j = op[1]; x = op[2]
    cvs = cond_values(spec, j, x)
    i = op[3] if op[0] == "storeI" else None
    for idx, lv in enumerate(spec["levels"][j:]):
        n0, y0 = ob["before"][j + idx]; n1, y1 = ob["state"][j + idx]
        if lv["t"] in LAG:
            if i is None:
                i = n0
            c = cvs[idx]
            if c is None:
                return
            want = INF if c == "zd" else c
            pos = i if i >= 0 else len(y0) + i
            # conditions built by as_penalty / and_ / or_ are recomputed here with fsum / sqrt: equal up to rounding only
            approx = lv["cond"][0] in ("rnorm", "and", "or")
            if pos < 0 or pos >= len(y1) or not (near(y1[pos], want, 0.0) if approx else same_float(y1[pos], want)):
                out.append(("store/value", "store(x, %r) at level %d: stored()=%r, expected %r at index %d" % (i, j + idx, y1, want, pos)))
            hist["mon:store"] = hist.get("mon:store", 0) + 1


def monitor_clear_fresh(spec, k_op, out, hist):
    """`clear()` on the outermost handle resets to the state of a freshly built penalty and touches nothing else:
    every later evaluation agrees with a fresh copy driven by the remaining ops"""
    ops = spec["ops"]
    rest = [o for o in ops[k_op + 1:]]
    if not rest:
        return
    s1 = dict(spec); s1["ops"] = ops[:k_op + 1] + rest
    s2 = dict(spec); s2["ops"] = rest
    _, o1 = run_impl(s1)
    _, o2 = run_impl(s2)
    for a, b, op in zip(o1[k_op + 1:], o2, rest):
        ra, rb = a["r"], b["r"]
        if not same_result(ra, rb):
            out.append(("clear/not-fresh", "after clear() op %r gives %r, on a fresh penalty %r" % (op[:2], ra, rb)))
            break
    hist["mon:clear-fresh"] = hist.get("mon:clear-fresh", 0) + 1


def monitor(spec, obs, hist):
    out = []
    cleared = False
    for k_op, (op, ob) in enumerate(zip(spec["ops"], obs)):
        kind = op[0]
        if ob["r"][0] == "raise" and ob["r"][1] == "overflow":
            continue
        if ob["r"][0] == "raise" and str(ob["r"][1]).startswith("other:"):
            out.append(("%s/unexpected-exception" % kind, "%s raised %s" % (kind, ob["r"][1])))
            continue
        if kind == "call":
            monitor_call(spec, op, ob, out, hist)
        elif kind == "error":
            monitor_error(spec, op, ob, out, hist)
        elif kind in ("iter", "iterI", "clear", "store", "storeI"):
            monitor_state(spec, op, ob, out, hist)
            if kind in ("store", "storeI"):
                monitor_store_value(spec, op, ob, out, hist)
            if kind == "clear" and op[1] == 0 and not cleared and ob["r"][0] == "v":
                cleared = True
                monitor_clear_fresh(spec, k_op, out, hist)
        elif kind == "additive":
            r, p = ob["r"], ob["p"]
            if r[0] == "v" and p[0] == "v" and not same_float(r[1], ob["g"] + p[1]):
                out.append(("coupler/additive", "additive(p)(f)(x)=%r but f(x)+p(x)=%r" % (r[1], ob["g"] + p[1])))
    return out


def run_driver(lines):
    """mvdrv is re-linked in place whenever any builder runs `lake build mvdrv`: retry while it is missing/busy"""
    last = None
    for attempt in range(40):
        try:
            return leandrv.run_driver(lines)
        except (FileNotFoundError, PermissionError, OSError, leandrv.DriverError) as exc:
            last = exc
            time.sleep(1.5)
    raise last


# ------------------------------------------------------------------ one case
def run_case(spec, hist):
    """returns (findings, nontrivial, request line, reply, obs)"""
    findings = []
    with warnings.catch_warnings():
        warnings.simplefilter("ignore")
        import numpy as np
        with np.errstate(all="ignore"):
            handles, obs = run_impl(spec)
            line = request_line(spec)          # after run_impl: member set-up state has been written into the spec
            mon = monitor(spec, obs, hist)
    return line, obs, mon


def same_state(spec, ms, st):
    """(iteration, stored) of every level; stored values of a level whose condition is an and_/or_ combination are
    python sum()/numpy log results (toleranced), all others are bit-exact copies of the condition value"""
    if len(ms) != len(st) or [s[0] for s in ms] != [s[0] for s in st]:
        return False
    for lv, a, b in zip(spec["levels"], ms, st):
        if same_vec(a[1], b[1]):
            continue
        if lv["cond"][0] in ("and", "or") and len(a[1]) == len(b[1]) and all(close(p, q, 0.0) for p, q in zip(a[1], b[1])):
            continue
        return False
    return True


def same_result(ra, rb):
    if ra[0] != rb[0]:
        return False
    a, b = ra[1], rb[1]
    if isinstance(a, float) and isinstance(b, float):
        return same_float(a, b)
    if isinstance(a, list) and isinstance(b, list):
        return same_vec(a, b)
    return a == b


def compare(spec, obs, rep, hist):
    """model reply vs implementation observations; returns list of difference strings"""
    r = parse_reply(rep)
    if r[0] != "ok":
        return ["model replied %r" % (rep,)]
    items = split_items(r[1]["r"])
    if len(items) != len(obs):
        return ["model returned %d results for %d ops" % (len(items), len(obs))]
    diffs = []
    for k_op, (op, ob, it) in enumerate(zip(spec["ops"], obs, items)):
        kind = op[0]
        ir = ob["r"]
        tag = "op %d %s@%d" % (k_op, kind, op[1])
        if ir[0] == "raise" and ir[1] == "overflow":
            hist["skipped:OverflowError"] = hist.get("skipped:OverflowError", 0) + 1
            continue
        if ir[0] == "raise":
            if it[0] != "raise" or it[1] != ir[1]:
                diffs.append("%s: impl raised %s, model %r" % (tag, ir[1], it[:2]))
            elif len(it) > 2 and "state" in ob:
                ms = model_state(it[2])
                if not same_state(spec, ms, ob["state"]):
                    diffs.append("%s: state after IndexError model=%r impl=%r" % (tag, ms, ob["state"]))
            hist["raise:" + str(ir[1]).split(":")[0]] = hist.get("raise:" + str(ir[1]).split(":")[0], 0) + 1
            continue
        if it[0] == "raise":
            diffs.append("%s: model raised %s, impl returned %r" % (tag, it[1], ir[1]))
            continue
        if kind in ("call", "additive", "error", "storedI"):
            mv = b2f(it[1])
            iv = ir[1]
            exact = True
            if kind in ("call", "additive"):
                if involves_log(spec, op[1]):
                    exact = False; hist["tol:log"] = hist.get("tol:log", 0) + 1
                elif spec["kind"] == "and" and sum_inexact(spec, op[1], op[2]):
                    exact = False; hist["tol:sum"] = hist.get("tol:sum", 0) + 1
            elif kind == "error":
                if members_involve_log(spec, op[1]):
                    exact = False; hist["tol:log"] = hist.get("tol:log", 0) + 1
                elif spec["kind"] == "and" and sum_inexact(spec, op[1], op[2]):
                    exact = False; hist["tol:sum"] = hist.get("tol:sum", 0) + 1
            scale = max([abs(d[1]) for d in ob.get("deeper", []) if d[0] == "v" and math.isfinite(d[1])] + [0.0])
            if exact:
                # expected bit-identical (and is, on the pinned tree).  A difference below 1e-9 relative is what a
                # behaviour-preserving rewrite of the arithmetic (x**2 -> x*x, x**0.5 -> sqrt, h**n by repeated
                # multiplication) produces: counted, not reported.  Anything larger is a divergence.
                if same_float(mv, iv):
                    hist["cmp:exact"] = hist.get("cmp:exact", 0) + 1
                elif close(mv, iv, scale):
                    hist["cmp:rounding-only-difference"] = hist.get("cmp:rounding-only-difference", 0) + 1
                else:
                    diffs.append("%s: value model=%r impl=%r (bit-exact stream)" % (tag, mv, iv))
            else:
                if not close(mv, iv, scale):
                    diffs.append("%s: value model=%r impl=%r (toleranced stream)" % (tag, mv, iv))
        elif kind in ("iter", "iterI", "clear", "store", "storeI"):
            ms = model_state(it)
            if not same_state(spec, ms, ob["state"]):
                diffs.append("%s: state model=%r impl=%r" % (tag, ms, ob["state"]))
        elif kind == "stored":
            mys = [b2f(t) for t in it[1]]
            if not (same_vec(mys, ir[1]) or (spec["levels"][op[1]]["cond"][0] in ("and", "or") and len(mys) == len(ir[1])
                                             and all(close(p, q, 0.0) for p, q in zip(mys, ir[1])))):
                diffs.append("%s: stored() model=%r impl=%r" % (tag, [b2f(t) for t in it[1]], ir[1]))
        elif kind == "iteration":
            if int(it[1]) != ir[1]:
                diffs.append("%s: iteration() model=%s impl=%r" % (tag, it[1], ir[1]))
    return diffs


def case_hist(spec, obs, hist):
    def bump(k):
        hist[k] = hist.get(k, 0) + 1
    bump("kind:" + spec["kind"]); bump("depth:%d" % len(spec["levels"]))
    for lv in spec["levels"]:
        bump("type:" + lv["t"]); bump("kh:" + lv["mode"])
    for op, ob in zip(spec["ops"], obs):
        bump("op:" + op[0])
        if op[0] in ("iterI",) and op[2] < 0:
            bump("iter:negative")
        if op[0] == "storeI":
            bump("storeI:" + ("neg" if op[3] < 0 else "nonneg"))
    evals = [(op, ob) for op, ob in zip(spec["ops"], obs) if op[0] == "call" and ob["r"][0] == "v"]
    added = False
    for op, ob in evals:
        d = [v[1] for v in ob["deeper"] if v[0] == "v"]
        if d and not same_float(ob["r"][1], d[0]):
            added = True
    mutated = False; after = False
    for op in spec["ops"]:
        if op[0] in ("iter", "iterI", "store", "storeI", "clear"):
            mutated = True
        elif op[0] in ("call", "error") and mutated:
            after = True
    return added and after


def unjson(o):
    """inverse of common.jsonable for a stored spec (non-finite floats come back as floats)"""
    if isinstance(o, dict):
        if set(o.keys()) == {"float"}:
            return float(o["float"])
        return {k: unjson(v) for k, v in o.items()}
    if isinstance(o, list):
        return [unjson(v) for v in o]
    return o


def jcase(spec, line, obs, rep, ident):
    return {"ident": ident, "kind": spec["kind"], "spec": spec, "request": line, "model": rep,
            "impl": [{"op": list(op[:2]) + [repr(v) for v in op[2:]], "r": ob["r"], "state": ob.get("state")} for op, ob in zip(spec["ops"], obs)]}


def run_shard(pid, seed, shard, ncases, tier, extra):
    common.import_mystic()
    stream = (extra or {}).get("stream", PID)
    only = (extra or {}).get("only")
    cases = []; lines = []; findings = []; hist = {}
    ks = [only] if only is not None else range(ncases)
    for k in ks:
        rng = case_rng(stream, seed, shard, k)
        spec = gen_case(rng)
        ident = {"stream": stream, "seed": seed, "shard": shard, "k": k}
        try:
            line, obs, mon = run_case(spec, hist)
        except Exception as exc:
            import traceback
            findings.append(Finding("correspondence", "harness/build-or-run-raises", "%r" % (exc,), {"ident": ident, "tb": traceback.format_exc()[-1500:]}))
            continue
        cases.append((spec, obs, mon, ident)); lines.append(line)
    replies = run_driver(lines)
    nontrivial = 0; samples = []
    for (spec, obs, mon, ident), line, rep in zip(cases, lines, replies):
        case = jcase(spec, line, obs, rep, ident)
        diffs = compare(spec, obs, rep, hist)
        if diffs:
            findings.append(Finding("correspondence", "penalty/%s/diverges" % spec["kind"], "; ".join(diffs[:3]), case))
        for key, what in mon:
            findings.append(Finding("monitor", key, what, case))
        nt = case_hist(spec, obs, hist)
        if nt:
            nontrivial += 1
            if len(samples) < 2:
                samples.append(case)
    return {"evaluations": len(cases), "nontrivial": nontrivial, "model_lines": sum(len(c[0]["ops"]) for c in cases),
            "findings": findings, "samples": samples, "hist": hist}


# ------------------------------------------------------------------ known-finding witnesses (run first, deterministic)
def witness_specs():
    lin = ("-", ("x", 0), ("c", 0.0))     # condition c(x) = x[0]
    mk = lambda t, k, h, ops: {"levels": [{"t": t, "k": k, "h": h, "mode": "float", "n": 0, "y": [], "cond": ("e", lin), "target": (0, 0.0)}],
                               "f": ("c", 1.0), "kind": "plain", "dim": 1, "exact": False, "ops": ops}
    return [
        # barrier_inequality: c = -0.5 is satisfied, yet -log(0.5)/(2*100) is added; c = 0 gives inf
        mk("barrier", 100.0, 5.0, [("call", 0, [-0.5]), ("call", 0, [0.0])]),
        # lagrange_inequality after store(c=1) and iter(): beta = 40; c = -0.1 is satisfied, a negative amount is added
        mk("lagIneq", 20.0, 5.0, [("store", 0, [1.0]), ("iter", 0), ("call", 0, [-0.125])]),
        # lagrange_equality after store(c=1) and iter(): lam = 40, K = 100; c = -0.125 is violated, 100/64 - 5 < 0 is added
        mk("lagEq", 20.0, 5.0, [("store", 0, [1.0]), ("iter", 0), ("call", 0, [-0.125])]),
    ]


def witnesses():
    common.import_mystic()
    out = []
    specs = witness_specs()
    hist = {}
    res = [run_case(s, hist) for s in specs]
    replies = run_driver([r[0] for r in res])
    for i, (spec, (line, obs, mon), rep) in enumerate(zip(specs, res, replies)):
        case = jcase(spec, line, obs, rep, {"witness": i})
        diffs = compare(spec, obs, rep, hist)
        if diffs:
            out.append(Finding("correspondence", "penalty/witness/diverges", "; ".join(diffs[:3]), case))
        for key, what in mon:
            out.append(Finding("monitor", key, what, case))
    return out


def main(tier, seed):
    t0 = time.time()
    proof = framework.proof_stage(PID, MODULE, THEOREMS, tier)
    nshards, per = (16, 1500) if tier == "quick" else (64, 10000)
    run = framework.run_shards("c15", "run_shard", PID, seed, nshards, per, tier)
    run["findings"] = witnesses() + run["findings"]

    def search_more():
        r = framework.run_shards("c15", "run_shard", PID, seed + 7919, 32, 600, tier)
        return r["findings"]
    rule = ("cases: a penalty stack of depth 1-4 over the nine mystic.penalty types (k, h in {0, 1e-3, .5, 1, 2, 20, 100, inf, random}, python ints "
            "or floats), conditions from the DSL (linear with exact/one-ulp boundary points, products, squares, zero-dividing quotients), the "
            "innermost level optionally built by with_penalty / as_penalty / coupler.and_ / or_ / not_ (members with their own iteration and stored "
            "state), driven by 5-13 operations p(x), error(x), iter(), iter(i) (i<0 too), store(x[,i]) (negative and out-of-range i), stored([i]), "
            "clear(), iteration(), additive on the handle of any level. non-trivial = some evaluation follows a state change (iter/store/clear) "
            "and some evaluation added a non-zero amount. `evaluations` counts cases, `model_lines_compared` operations")
    tb = ["Lean 4.33 kernel; Mathlib ordered-field lemmas; axioms per theorem listed under coverage.theorems",
          "hand-written model Model/Penalty.lean tied to mystic/penalty.py, coupler.py, constraints.with_penalty/as_penalty by this differential run only",
          "theorem hypotheses on the scalar operations (x**2 = x*x, pow(h,n) = h^n, x**0.5 = the non-negative root, abs) are idealisations of the C library calls the driver uses at Float",
          "DSL twins harness/dsl.py and Model/Dsl.lean; condition plumbing (and/or/not/rnorm) in Drv/C15.lean is outside the theorems",
          "barrier_inequality's log and inexact python sum() inside coupler.and_ are compared with relative tolerance 1e-9 (counted in the histogram as tol:log / tol:sum)"]
    assumptions = ["conditions and the decorated function are deterministic and return python floats (a numpy scalar stored as a lagrange_inequality multiplier turns ZeroDivisionError into a silent inf/nan); no NaN in the monitor's clauses",
                   "OverflowError (|c| > 1e154 or h**n overflowing) is outside the model and never generated",
                   "Lean Float.pow and CPython float.__pow__ call the same libm pow (checked on 300000 inputs: 0 differences)",
                   "zero-on-feasible / positivity are monitored for finite k, h only (inf*0 = nan is outside the ordered-field statement)"]
    return framework.finish(PID, tier, seed, t0, proof, run, rule, tb, assumptions, search_more=search_more)


def replay(path):
    """re-execute one stored case (implementation and model) and reprint the verdict for it"""
    data = json.load(open(path))
    case = data.get("case") or {}
    ident = case.get("ident") or {}
    leandrv.ensure_driver()
    if "spec" in case:           # exact replay of the stored case, independent of the generators
        common.import_mystic()
        spec = unjson(case["spec"])
        hist = {}
        line, obs, mon = run_case(spec, hist)
        rep = run_driver([line])[0]
        jc = jcase(spec, line, obs, rep, ident)
        fs = [Finding("correspondence", "penalty/%s/diverges" % spec["kind"], "; ".join(d[:3]), jc) for d in [compare(spec, obs, rep, hist)] if d]
        fs += [Finding("monitor", key, what, jc) for key, what in mon]
    elif "witness" in ident:
        fs = witnesses()
    elif "k" in ident:
        r = run_shard(PID, ident["seed"], ident["shard"], 0, "quick", {"stream": ident["stream"], "only": ident["k"]})
        fs = r["findings"]
    else:
        print("replay: no case identity in %s" % path)
        return 2
    known = {e["class_key"] for e in framework.load_known(PID)}
    bad = [f for f in fs if f["kind"] == "correspondence" or f["class_key"] not in known]
    for f in fs:
        print("%s [%s] %s" % (f["kind"], f["class_key"], f["what"]))
    if bad:
        print("VIOLATION property=%s replay=%s" % (PID, path))
        return 1
    print("replay: property held on the stored case")
    return 0
