"""C15 - penalty methods are zero on the feasible set and follow their formulas.
Correspondence: real mystic.penalty object TREES (all nine types, chains of 1-4 levels, the adapters with_penalty /
as_penalty and the combinators coupler.and_/or_/not_/additive nested to depth 3 with LIVE member penalties) driven by
random op sequences on any object of the tree vs lean Model/Penalty + Model/PenaltyTree (bit-exact; `log` of
barrier_inequality and inexact python `sum` toleranced and counted separately).
Monitor: the property itself (exact rational arithmetic on the documented formulas) on the implementation's results.
Sessions include the caller's side (lean `Sess`): lists obtained from stored() are kept, edited in place and read back
across store / iter / clear; the penalty must depend on the calls made on it only, and touch nothing the caller holds."""
import sys, time, math, json, warnings, random as _random
from fractions import Fraction
import common
from common import case_rng, fl, f2b, b2f, same_float, same_vec, gfloat, dyadic, parse_reply
import dsl, framework, leandrv
from framework import Finding

PID = "C15"
MODULE = "MysticVerif.Props.C15"
THEOREMS = [
    "MysticVerif.C15.zero_on_feasible",
    "MysticVerif.C15.positive_on_violation",
    "MysticVerif.C15.formula_quadratic_equality",
    "MysticVerif.C15.formula_linear_equality",
    "MysticVerif.C15.formula_uniform_equality",
    "MysticVerif.C15.formula_uniform_inequality",
    "MysticVerif.C15.formula_quadratic_inequality",
    "MysticVerif.C15.formula_linear_inequality",
    "MysticVerif.C15.formula_barrier_inequality",
    "MysticVerif.C15.formula_lagrange_equality",
    "MysticVerif.C15.formula_lagrange_inequality",
    "MysticVerif.C15.lagrange_inequality_multiplier",
    "MysticVerif.C15.error_spec",
    "MysticVerif.C15.error_nested",
    "MysticVerif.C15.error_div_zero",
    "MysticVerif.C15.error_div_zero_nested",
    "MysticVerif.C15.iter_advances",
    "MysticVerif.C15.iter_sets",
    "MysticVerif.C15.clear_resets",
    "MysticVerif.C15.iter_clear_frame",
    "MysticVerif.C15.handle_frame",
    "MysticVerif.C15.iteration_history",
    "MysticVerif.C15.store_spec",
    "MysticVerif.C15.store_frame",
    "MysticVerif.C15.stacked_add",
    "MysticVerif.C15.amount_sign",
    "MysticVerif.C15.stack_zero_on_feasible",
    "MysticVerif.C15.stack_positive_on_violation",
    "MysticVerif.C15.div_zero_top",
    "MysticVerif.C15.div_zero_top_stack",
    "MysticVerif.C15.additive_spec",
    "MysticVerif.C15.rnorm_zero_iff",
    "MysticVerif.C15.combinator_conditions",
    "MysticVerif.C15.barrier_not_zero_on_feasible_witness",
    "MysticVerif.C15.lagrange_inequality_negative_on_feasible_witness",
    "MysticVerif.C15.lagrange_equality_negative_on_violation_witness",
    # penalty objects as trees (coupler.and_/or_/not_, live members), the operation state machine
    "MysticVerif.C15.tree_eval",
    "MysticVerif.C15.tree_error",
    "MysticVerif.C15.tree_stacked_add",
    "MysticVerif.C15.tree_iter_clear",
    "MysticVerif.C15.tree_store",
    "MysticVerif.C15.tree_op_reaches_object",
    "MysticVerif.C15.tree_ops_touch_only_iteration_state",
    "MysticVerif.C15.tree_iteration_history",
    "MysticVerif.C15.iteration_history_handles",
    "MysticVerif.C15.and_penalty",
    "MysticVerif.C15.or_penalty",
    "MysticVerif.C15.not_penalty",
    "MysticVerif.C15.member_sign",
    "MysticVerif.C15.valsL_spec",
    "MysticVerif.C15.and_zero_iff",
    "MysticVerif.C15.or_zero_iff",
    # the multiplier state machine of the Lagrange types, the barrier's vanishing multiplier
    "MysticVerif.C15.store_iter_cycle",
    "MysticVerif.C15.lagrange_cycles",
    "MysticVerif.C15.lagrange_equality_after_cycles",
    "MysticVerif.C15.lagrange_equality_multiplier_update",
    "MysticVerif.C15.lagrange_inequality_multiplier_update",
    "MysticVerif.C15.barrier_zero_multiplier_raises",
    # k = inf over the IEEE-shaped extended rationals
    "MysticVerif.C15.infinite_k_uniform",
    "MysticVerif.C15.infinite_k_quadratic_linear",
    "MysticVerif.C15.infinite_k_nan_on_feasible_witness",
    # the lists handed out by stored(): the penalty and its caller share nothing
    "MysticVerif.C15.reading_edits_never_reach_penalty",
    "MysticVerif.C15.reading_edit_frame",
    "MysticVerif.C15.reading_is_copy",
    "MysticVerif.C15.tree_ops_leave_readings",
    "MysticVerif.C15.non_lagrange_never_has_history",
]

TYPES = [("quadratic_equality", "qEq"), ("linear_equality", "lEq"), ("uniform_equality", "uEq"),
         ("uniform_inequality", "uIneq"), ("barrier_inequality", "barrier"), ("quadratic_inequality", "qIneq"),
         ("linear_inequality", "lIneq"), ("lagrange_inequality", "lagIneq"), ("lagrange_equality", "lagEq")]
TOK = dict(TYPES)
EQ = {"qEq", "lEq", "uEq", "lagEq"}
LAG = {"lagIneq", "lagEq"}
CONFORMING = {"qEq", "lEq", "uEq", "uIneq", "qIneq", "lIneq"}
DEFAULT_K = {"qEq": 100, "lEq": 100, "uEq": math.inf, "uIneq": math.inf, "barrier": 100, "qIneq": 100, "lIneq": 100,
             "lagIneq": 20, "lagEq": 20}
INF = math.inf


# ------------------------------------------------------------------ specs
# A case is a penalty TREE (lean: Model/PenaltyTree.PT):
#   node  = {"levels": [level, ...] (outermost first), "base": j}          j indexes ctx["fns"] (decorated function)
#   level = {"t","k","h","mode","n","y","how","cond"}                       how: plain|with_penalty|as_penalty|and|or|not
#   cond  = ("leaf", i) | ("and", [node..]) | ("or", [node..]) | ("not", t, member_node)   i indexes ctx["leaves"]
#   leaf  = ("e", expr, target) | ("rnorm", con)
# A path addresses an object of the tree: "d" = the decorated object, ("m", k) = member k of this level's condition.
def gen_cond_expr(rng, dim, exact=False):
    """returns (expr, target) ; target = (i, a): the condition is exactly 0 where x[i] == a (or None)"""
    i = rng.randrange(dim)
    a = dyadic(rng, -3, 3, 4)
    k = rng.random()
    if exact:
        k = k * 0.45
    if k < 0.30:
        return ("-", ("x", i), ("c", a)), (i, a)
    if k < 0.45:
        return ("-", ("c", a), ("x", i)), (i, a)
    if k < 0.55:
        j = rng.randrange(dim)
        return ("-", ("+", ("x", i), ("x", j)), ("c", a)), None
    if k < 0.65:
        return ("-", ("sq", ("x", i)), ("c", abs(a))), None
    if k < 0.80:   # divides by zero exactly at x[i] == a
        return ("/", ("c", dyadic(rng, -2, 2, 2)), ("-", ("x", i), ("c", a))), (i, a)
    if k < 0.88:
        return ("*", ("c", dyadic(rng, -2, 2, 2)), ("-", ("x", i), ("c", a))), (i, a)
    return dsl.gen_expr(rng, dim, 2, div=rng.random() < 0.4), None


def gen_kh(rng, t, exact=False):
    """(k, h, mode) ; mode 'int': python ints are passed (exactness regime k*h**n < 2**53), else floats"""
    if exact:
        return float(rng.choice([1, 2, 0.5, 4])), float(rng.choice([1, 2, 5, 0.5])), "float"
    r = rng.random()
    if r < 0.22:
        return rng.choice([1, 2, 20, 100]), rng.choice([1, 2, 3, 5]), "int"
    if r < 0.29:
        return DEFAULT_K[t], 5, ("int" if DEFAULT_K[t] != INF else "float")
    ks = [1.0, 2.0, 100.0, 20.0, 0.5, 1e-3, 0.0, INF, 1.0, 100.0, -1.0, -100.0, INF]
    hs = [5.0, 5.0, 1.0, 2.0, 0.5, 1.5, 0.0, INF, 3.7, 5.0, 1.0, 0.25, -2.0]
    k = rng.choice(ks) if rng.random() < 0.8 else rng.uniform(0.01, 50.0)
    h = rng.choice(hs) if rng.random() < 0.8 else rng.uniform(0.2, 6.0)
    return float(k), float(h), "float"


def gen_con(rng, dim):
    i = rng.randrange(dim)
    r = rng.random()
    if r < 0.3:
        lo = dyadic(rng, -3, 3, 4)
        return ("clamp", i, lo, lo + abs(dyadic(rng, 0, 3, 4)))
    if r < 0.5:
        return ("pin", i, ("c", dyadic(rng, -3, 3, 2)))
    if r < 0.6:
        return ("rint", i)
    if r < 0.7:
        return ("id",)
    if r < 0.8:
        return ("pin", i, ("/", ("c", 1.0), ("x", rng.randrange(dim))))
    if r < 0.9 and dim > 1:
        j = (i + 1) % dim
        return ("tie", i, j, rng.choice([0.0, 1.0, -0.5]))
    return ("seq", ("clamp", i, -1.0, 1.0), ("rint", rng.randrange(dim)))


NON_BARRIER = [t for t in TYPES if t[1] != "barrier"]
ZERO_FN = ("c", 0.0)


def add_leaf(ctx, leaf):
    ctx["leaves"].append(leaf)
    return len(ctx["leaves"]) - 1


def add_fn(ctx, e):
    ctx["fns"].append(e)
    return len(ctx["fns"]) - 1


def gen_plain_level(rng, ctx, types=None, lagbias=False):
    dim = ctx["dim"]; exact = ctx["exact"]
    pool = types or TYPES
    if lagbias:
        pool = [t for t in pool if t[1] in LAG] or pool
    name, tok = rng.choice(pool)
    k, h, mode = gen_kh(rng, tok, exact)
    e, target = gen_cond_expr(rng, dim, exact)
    return {"t": tok, "k": k, "h": h, "mode": mode, "n": 0, "y": [], "how": "plain",
            "cond": ("leaf", add_leaf(ctx, ("e", e, target)))}


def gen_node(rng, ctx, kind, budget, no_barrier=False):
    """one object: a chain of 1-4 levels; `kind` says how the innermost level is built"""
    dim = ctx["dim"]; exact = ctx["exact"]
    types = NON_BARRIER if (no_barrier or exact) else None
    if kind == "plain":
        depth = rng.choice([1, 1, 2, 2, 3, 4]) if budget >= 2 else rng.choice([1, 1, 2])
    elif kind == "lagcycle":
        depth = rng.choice([1, 1, 2])
    else:
        depth = rng.choice([1, 1, 2, 3]) if budget >= 2 else rng.choice([1, 1, 2])
    levels = [gen_plain_level(rng, ctx, types, lagbias=(kind == "lagcycle" and (d == 0 or rng.random() < 0.5))) for d in range(depth)]
    inner = levels[-1]
    if kind in ("plain", "lagcycle"):
        fe = ("c", dyadic(rng, -3, 3, 4)) if (exact or rng.random() < 0.3) else dsl.gen_expr(rng, dim, 2)
        return {"levels": levels, "base": add_fn(ctx, fe)}
    node = {"levels": levels, "base": add_fn(ctx, ZERO_FN)}
    inner["how"] = kind
    if kind == "with_penalty":
        pass
    elif kind == "as_penalty":
        inner["cond"] = ("leaf", add_leaf(ctx, ("rnorm", gen_con(rng, dim))))
        if rng.random() < 0.3:
            inner["t"] = "qEq"; inner["default_ptype"] = True
    elif kind in ("and", "or"):
        if types is not None and inner["t"] == "barrier":
            inner["t"] = "lEq"
        m = rng.choice([0, 1, 2, 2, 3, 3]) if kind == "and" else rng.choice([1, 2, 2, 3])
        # a barrier member makes the combined condition a numpy scalar (numpy.log); stored in a lagrange_inequality
        # multiplier it turns python's ZeroDivisionError into numpy's silent inf/nan: outside the model
        nb = no_barrier or inner["t"] == "lagIneq"
        inner["cond"] = (kind, [gen_member(rng, ctx, budget - 1, nb) for _ in range(m)])
        if rng.random() < 0.35:      # all defaults: linear_equality, k=1, h=5
            inner.update(t="lEq", k=1, h=5, mode="int", defaults=True)
    elif kind == "not":
        nb = no_barrier or inner["t"] == "lagIneq"
        if budget >= 2 and rng.random() < 0.35:
            member = gen_node(rng, ctx, rng.choice(["and", "or", "not", "and"]), budget - 1, nb)
            member["levels"] = member["levels"][-1:]       # not_ only reads the .func of the object it is given
        else:
            mlv = gen_plain_level(rng, ctx, NON_BARRIER if nb else None)
            mlv["k"] = rng.choice([1, 100, 2.5]); mlv["mode"] = "float"; mlv["h"] = 5.0
            member = {"levels": [mlv], "base": add_fn(ctx, ZERO_FN)}
        if rng.random() < 0.5:   # ptype taken from the member penalty's .ptype, k=1, h = the type's default 5
            inner.update(t=member["levels"][0]["t"], k=1, h=5, mode="int", defaults=True)
        if nb and inner["t"] == "barrier":
            inner["t"] = "lIneq"; inner.pop("defaults", None)
            inner.update(k=float(inner["k"]), h=float(inner["h"]), mode="float")
        inner["cond"] = ("not", inner["t"], member)
    return node


def gen_member(rng, ctx, budget, no_barrier):
    r = rng.random()
    if budget >= 1 and r < 0.30:
        kind = rng.choice(["and", "or", "not", "with_penalty", "as_penalty"])
    else:
        kind = "plain"
    if kind == "as_penalty" and ctx["exact"]:
        kind = "with_penalty"
    node = gen_node(rng, ctx, kind, budget, no_barrier)
    if kind == "plain" and rng.random() < 0.7:
        ctx["fns"][node["base"]] = ZERO_FN
    return node


def gen_case(rng):
    dim = rng.randint(1, 4)
    kind = rng.choice(["plain"] * 7 + ["lagcycle", "lagcycle", "with_penalty", "with_penalty", "as_penalty", "as_penalty",
                                       "and", "and", "and", "or", "or", "not", "not"])
    exact = (kind in ("and", "or", "not") and rng.random() < 0.7) or (kind == "lagcycle" and rng.random() < 0.6)
    ctx = {"dim": dim, "exact": exact, "leaves": [], "fns": []}
    tree = gen_node(rng, ctx, kind, 2)
    spec = {"kind": kind, "dim": dim, "exact": exact, "leaves": ctx["leaves"], "fns": ctx["fns"], "tree": tree}
    spec["ops"] = gen_cycle_ops(rng, spec) if kind == "lagcycle" else gen_ops(rng, spec)
    return spec


def is_m(step):
    return not isinstance(step, str)


def cond_members(node, d):
    """member objects of the condition of level d (through not_: the members of the member's own condition)"""
    c = node["levels"][d]["cond"]
    if c[0] in ("and", "or"):
        return c[1]
    if c[0] == "not":
        return cond_members(c[2], 0)
    return []


def all_paths(node):
    """every addressable object: [(path, node, depth)]"""
    out = []
    for d in range(len(node["levels"])):
        pd = ["d"] * d
        out.append((pd, node, d))
        for k, m in enumerate(cond_members(node, d)):
            for (p, n2, d2) in all_paths(m):
                out.append((pd + [("m", k)] + p, n2, d2))
    return out


def all_levels(node):
    """lean `allLevels`: own level, the members of its condition, then the decorated object"""
    out = []
    for d, lv in enumerate(node["levels"]):
        out.append(lv)
        for m in cond_members(node, d):
            out += all_levels(m)
    return out


def leaf_targets(spec):
    return [l[2] for l in spec["leaves"] if l[0] == "e" and l[2]]


def gen_point(rng, dim, targets, exact=False, special=True):
    r = rng.random()
    if exact or r < 0.35:
        x = [dyadic(rng, -3, 3, 4) for _ in range(dim)]
    elif r < 0.5:
        x = [float(rng.randint(-3, 3)) for _ in range(dim)]
    else:
        x = [gfloat(rng, 6.0) for _ in range(dim)]
    if targets and rng.random() < 0.6:
        for (i, a) in rng.sample(targets, min(len(targets), rng.choice([1, 1, 2]))):
            if i >= dim:
                continue
            w = rng.random()
            if exact:
                x[i] = a + rng.choice([0.0, 0.0, 0.25, -0.25, 1.0, -1.0])
            elif w < 0.4:
                x[i] = a
            elif w < 0.55:
                x[i] = math.nextafter(a, INF)
            elif w < 0.7:
                x[i] = math.nextafter(a, -INF)
            else:
                x[i] = a + rng.choice([0.5, -0.5, 1.0, -1.0, 0.125, -0.125])
    if special and not exact and rng.random() < 0.02:
        x[rng.randrange(dim)] = rng.choice([INF, -INF, math.nan, -0.0, 1e-40, 1e30])
    return x


def int_mode_below(node, d):
    return any(lv["mode"] == "int" for lv in node["levels"][d:])


def gen_iter_index(rng, exact, intmode):
    """iteration counts for iter(i): arbitrary python ints (in int mode k*h**i must stay below 2**53)"""
    if exact:
        return rng.randint(0, 3)
    if intmode:
        return rng.choice([0, 1, 2, 3, 5, 6, -1, -2])
    r = rng.random()
    if r < 0.7:
        return rng.choice([0, 1, 2, 3, 5, -1, -2])
    if r < 0.97:
        return rng.choice([7, 10, 20, 50, -5, -20, 4, 8])
    return rng.choice([400, -400, 1100])     # pow overflows (OverflowError: skipped) / underflows to 0


READER_OPS = ("hold", "hmut", "held")


def gen_hmut(rng, exact):
    """an in-place edit the caller makes to a list IT holds (obtained from stored())"""
    val = lambda: dyadic(rng, -3, 3, 4) if (exact or rng.random() < 0.6) else gfloat(rng, 50.0)
    r = rng.choice(["sort", "reverse", "scale", "append", "append", "pop", "set", "set", "clear", "extend", "insert", "del0", "negate"])
    if r == "scale":
        return ("scale", rng.choice([2.0, -1.0, 0.5, 1000.0, 0.0]))
    if r == "append":
        return ("append", val())
    if r == "set":
        return ("set", rng.choice([0, 0, 1, 2, -1, -2]), val())
    if r == "extend":
        return ("extend", [val() for _ in range(rng.randint(1, 3))])
    if r == "insert":
        return ("insert", rng.choice([0, 1, -1]), val())
    return (r,)


def apply_mut(lst, mut):
    """the caller's edit, in place (a total function: an edit that does not apply to this list is a no-op)"""
    k = mut[0]
    if k == "sort":
        lst.sort()
    elif k == "reverse":
        lst.reverse()
    elif k == "scale":
        for i in range(len(lst)):
            lst[i] = lst[i] * mut[1]
    elif k == "negate":
        lst[:] = [-v for v in lst]
    elif k == "append":
        lst.append(mut[1])
    elif k == "extend":
        lst.extend(list(mut[1]))
    elif k == "insert":
        lst.insert(mut[1], mut[2])
    elif k == "pop":
        if lst:
            lst.pop()
    elif k == "del0":
        if lst:
            del lst[0]
    elif k == "clear":
        del lst[:]
    elif k == "set":
        if -len(lst) <= mut[1] < len(lst):
            lst[mut[1]] = mut[2]
    else:
        raise AssertionError(mut)


def gen_reader_ops(rng, spec, paths, lagpaths, nheld, pts, density=1.0):
    """what a caller does with stored(): keep the list (hold), edit it in place (hmut, with a probe evaluation before
    and after), look at it again later (held).  returns (ops, nheld)"""
    out = []
    if rng.random() < 0.30 * density:
        sel = rng.choice(lagpaths) if (lagpaths and rng.random() < 0.65) else rng.choice(paths)
        out.append(("hold", list(sel[0]), rng.choice(["all", "all", "slice"])))
        nheld += 1
    if nheld and rng.random() < 0.40 * density:
        out.append(("hmut", [], rng.randrange(nheld), gen_hmut(rng, spec["exact"]), rng.choice(pts)))
    if nheld and rng.random() < 0.15 * density:
        out.append(("held", [], rng.randrange(nheld)))
    return out, nheld


def gen_ops(rng, spec):
    dim = spec["dim"]; exact = spec["exact"]
    tg = leaf_targets(spec)
    paths = all_paths(spec["tree"])
    rootd = len(spec["tree"]["levels"])
    rootpaths = [p for p in paths if not any(is_m(st) for st in p[0])]
    lagpaths = [p for p in paths if p[1]["levels"][p[2]]["t"] in LAG]
    ops = []
    nops = rng.randint(4, 12) + (3 if len(paths) > rootd else 0)
    has_lag = bool(lagpaths)
    special = not any(l[0] == "rnorm" for l in spec["leaves"])   # round(inf) inside a constraint raises OverflowError: outside the model
    pts = [gen_point(rng, dim, tg, exact, special) for _ in range(3)]
    reader = rng.random() < 0.45       # the caller keeps / edits what stored() returned
    nheld = 0
    for _ in range(nops):
        if reader:
            more, nheld = gen_reader_ops(rng, spec, paths, lagpaths, nheld, pts)
            ops += more
        r0 = rng.random()
        if r0 < 0.55:
            sel = paths[0]
        elif r0 < 0.70:
            sel = rng.choice(rootpaths)
        else:
            sel = rng.choice(paths)
        x = rng.choice(pts) if rng.random() < 0.4 else gen_point(rng, dim, tg, exact, special)
        r = rng.random()
        if has_lag and r >= 0.66 and r < 0.85 and rng.random() < 0.6:   # store / stored ops: aim at a Lagrange level
            sel = rng.choice(lagpaths)
        p = list(sel[0])
        if r < 0.34:
            ops.append(("call", p, x))
        elif r < 0.46:
            ops.append(("error", p, x))
        elif r < 0.60:
            ops.append(("iter", p))
        elif r < 0.66:
            ops.append(("iterI", p, gen_iter_index(rng, exact, int_mode_below(sel[1], sel[2]))))
        elif r < 0.76:
            if has_lag or rng.random() < 0.3:
                if rng.random() < 0.5:
                    ops.append(("store", p, x))
                else:
                    ops.append(("storeI", p, x, rng.choice([0, 1, 2, 3, 4, 6, -1, -2, -3])))
            else:
                ops.append(("call", p, x))
        elif r < 0.80:
            ops.append(("stored", p))
        elif r < 0.85:
            ops.append(("storedI", p, rng.randint(-4, 7)))
        elif r < 0.90:
            ops.append(("clear", p))
        elif r < 0.94:
            ops.append(("iteration", p))
        else:
            ops.append(("additive", p, x, dsl.gen_expr(rng, dim, 1)))
    if reader and nheld:
        if rng.random() < 0.5:
            ops.append(("clear", list(rng.choice(paths)[0])))
        for q in range(nheld):
            if rng.random() < 0.6:
                ops.append(("held", [], q))
    ops.append(("call", [], rng.choice(pts)))
    return ops


def gen_cycle_ops(rng, spec):
    """the augmented-Lagrangian outer loop as mystic runs it: evaluate, store(x_i), iter(), ... for several cycles,
    with an occasional overwrite store(x, i), a stored(i) read and a final clear()"""
    dim = spec["dim"]; exact = spec["exact"]
    tg = leaf_targets(spec)
    ops = []
    ncyc = rng.randint(2, 7)
    probe = gen_point(rng, dim, tg, exact, False)
    reader = rng.random() < 0.5        # the outer loop logs the multiplier history / post-processes the list it read
    nheld = 0
    paths = all_paths(spec["tree"])
    rootpaths = [p for p in paths if not any(is_m(st) for st in p[0])]
    lagpaths = [p for p in rootpaths if p[1]["levels"][p[2]]["t"] in LAG]
    for c in range(ncyc):
        x = gen_point(rng, dim, tg, exact, False)
        ops.append(("call", [], x))
        ops.append(("store", [], x))
        if rng.random() < 0.25:
            ops.append(("storeI", [], gen_point(rng, dim, tg, exact, False), rng.randint(0, c)))
        ops.append(("iter", []))
        if reader:
            more, nheld = gen_reader_ops(rng, spec, rootpaths, lagpaths, nheld, [probe, x], density=1.3)
            ops += more
        ops.append(("call", [], probe))
        if rng.random() < 0.3:
            ops.append(("storedI", [], rng.randint(-2, c + 2)))
        if rng.random() < 0.2:
            ops.append(("stored", []))
    ops.append(("error", [], probe))
    if rng.random() < 0.5:
        ops.append(("clear", []))
        for q in range(nheld):
            ops.append(("held", [], q))
        ops.append(("call", [], probe))
    return ops


# ------------------------------------------------------------------ the real objects
def num(v, mode):
    return int(v) if mode == "int" else float(v)


class Built(object):
    """the real objects of one node: handles[d] = the penalty object of level d (outermost first)"""
    def __init__(self, node):
        self.node = node
        self.handles = []
        self.members = []      # per level: [Built] of its condition's members (as cond_members)
        self.base = None


def leaf_callable(leaf):
    if leaf[0] == "e":
        e = leaf[1]
        return lambda x: dsl.ev(e, x)
    con = leaf[1]
    return lambda x: dsl.con_apply(con, x)


def built_members(b, d):
    return b.members[d]


def build_node(spec, node):
    from mystic import penalty as P, coupler, constraints as C
    b = Built(node)
    fe = spec["fns"][node["base"]]
    base = lambda x: dsl.ev(fe, x)
    b.base = base
    g = base
    levels = node["levels"]
    b.members = [[] for _ in levels]
    for idx in range(len(levels) - 1, -1, -1):
        lv = levels[idx]
        name = [n for n, t in TYPES if t == lv["t"]][0]
        ptype = getattr(P, name)
        k = num(lv["k"], lv["mode"]); h = num(lv["h"], lv["mode"])
        c = lv["cond"]
        how = lv["how"]
        if how != "plain":
            assert idx == len(levels) - 1 and list(fe) == ["c", 0.0]
        if how == "plain":
            g = ptype(leaf_callable(spec["leaves"][c[1]]), k=k, h=h)(g)
        elif how == "with_penalty":
            cf = leaf_callable(spec["leaves"][c[1]])
            g = C.with_penalty(ptype, k=k, h=h)(cf)
            assert g.func is cf and g.ptype == name
        elif how == "as_penalty":
            cf = leaf_callable(spec["leaves"][c[1]])
            if lv.get("default_ptype"):
                g = C.as_penalty(cf, k=k, h=h)
            else:
                g = C.as_penalty(cf, ptype, k=k, h=h)
            assert g.ptype == name
        elif how in ("and", "or"):
            mbs = [build_node(spec, m) for m in c[1]]
            comb = coupler.and_ if how == "and" else coupler.or_
            if lv.get("defaults"):
                g = comb(*[mb.handles[0] for mb in mbs])
            else:
                g = comb(*[mb.handles[0] for mb in mbs], ptype=ptype, k=k, h=h)
            b.members[idx] = mbs
        elif how == "not":
            mb = build_node(spec, c[2])
            if lv.get("defaults"):
                g = coupler.not_(mb.handles[0])
            else:
                g = coupler.not_(mb.handles[0], ptype=ptype, k=k, h=h)
            assert g.ptype == name, (g.ptype, name)
            b.members[idx] = mb.members[0]
        else:
            raise AssertionError(how)
        b.handles.insert(0, g)
    return b


def resolve(b, path):
    d = 0
    for st in path:
        if is_m(st):
            b = b.members[d][st[1]]; d = 0
        else:
            d += 1
    return b, d


def all_built(b):
    """[(Built, depth)] in the order of lean `allLevels`"""
    out = []
    for d in range(len(b.handles)):
        out.append((b, d))
        for m in b.members[d]:
            out += all_built(m)
    return out


def guarded(fn):
    try:
        return ("v", fn())
    except ZeroDivisionError:
        return ("raise", "zerodiv")
    except IndexError:
        return ("raise", "index")
    except OverflowError:      # python raises where IEEE arithmetic returns inf: outside the model (never a verdict)
        return ("raise", "overflow")
    except Exception as exc:   # anything else is outside the model: reported
        return ("raise", "other:" + type(exc).__name__ + ":" + str(exc)[:80])


def state_of(root):
    return [(bb.handles[d].iteration(), [float(v) for v in bb.handles[d].stored()]) for bb, d in all_built(root)]


def chain_state(b, d):
    return [(h.iteration(), [float(v) for v in h.stored()]) for h in b.handles[d:]]


def leaf_value(spec, i, x):
    """the user's condition number i at x, recomputed here: float | 'zd' """
    leaf = spec["leaves"][i]
    try:
        if leaf[0] == "e":
            return dsl.ev(leaf[1], x)
        cx = dsl.con_apply(leaf[1], x)
        return math.sqrt(math.fsum((p - q) ** 2 for p, q in zip(cx, x)))
    except ZeroDivisionError:
        return "zd"


def live_values(mbs, x):
    """values of live member objects at x (evaluation has no side effects); None if one raises / is nan"""
    vals = []
    for mb in mbs:
        r = guarded(lambda: float(mb.handles[0](list(x))))
        if r[0] != "v":
            return None
        vals.append(r[1])
    return vals


def cond_value(spec, b, d, x, c=None, mbs=None):
    """value of the condition of level d of b at x, from the DOCUMENTED meaning of the combinators (and_ = sum of
    the member penalties, or_ = their minimum, not_ = negation / logical not of the member's condition) applied to
    the live members' values: float | 'zd' | None (unknown)"""
    lv = b.node["levels"][d]
    if c is None:
        c = lv["cond"]; mbs = b.members[d]
    if c[0] == "leaf":
        return leaf_value(spec, c[1], x)
    if c[0] in ("and", "or"):
        vals = live_values(mbs, x)
        if vals is None:
            return "zd" if any(guarded(lambda mb=mb: float(mb.handles[0](list(x))))[1] == "zerodiv" for mb in mbs) else None
        if any(v != v for v in vals) or (INF in vals and -INF in vals):
            return None
        return float(math.fsum(vals)) if c[0] == "and" else min(vals)
    if c[0] == "not":
        inner_lv = c[2]["levels"][0]
        v = cond_value(spec, b, d, x, inner_lv["cond"], mbs)
        if v is None or v == "zd":
            return v
        return float(not v) if c[1] in EQ else 0 - v
    return None


def walk_conds(b, d0=0):
    """every (cond, member Builts) reachable below level d0 of b, nested members included"""
    for d in range(d0, len(b.handles)):
        c = b.node["levels"][d]["cond"]
        yield b.node["levels"][d], c, b.members[d]
        while c[0] == "not":
            c = c[2]["levels"][0]["cond"]
            yield None, c, b.members[d]
        for m in b.members[d]:
            for it in walk_conds(m, 0):
                yield it


def cond_tol(spec, c, mbs, x):
    """(log, sum, hazard) of one condition value"""
    if c[0] == "leaf":
        return False, False, False
    if c[0] == "not":
        lg, sm, hz = cond_tol(spec, c[2]["levels"][0]["cond"], mbs, x)
        return lg, sm, hz or ((lg or sm) and c[1] in EQ)
    lg = sm = hz = False
    for mb in mbs:
        l2, s2, h2 = tol_class(spec, mb, 0, x)
        lg = lg or l2; sm = sm or s2; hz = hz or h2
    if c[0] == "and":
        vals = live_values(mbs, x)
        if vals is not None and all(math.isfinite(v) for v in vals):
            acc = Fraction(0)
            for v in vals:
                acc += Fraction(v)
                if Fraction(float(acc)) != acc:
                    sm = True
                    break
    return lg, sm, hz


def tol_class(spec, b, d, x):
    """(log, sum, hazard) of the value of the object b from level d on: numpy.log is involved; a python sum() whose
    naive left fold is inexact is involved (python's builtin sum is compensated: exact comparison only when every
    partial sum of the fold is representable); such a rounded value reaches a discontinuous consumer (the condition of
    a uniform / barrier level, a logical not), where a last-bit difference could select the other branch"""
    lg = sm = hz = False
    for dd in range(d, len(b.handles)):
        lv = b.node["levels"][dd]
        l2, s2, h2 = cond_tol(spec, lv["cond"], b.members[dd], x)
        hz = hz or h2 or ((l2 or s2) and lv["t"] in ("uEq", "uIneq", "barrier"))
        lg = lg or l2 or lv["t"] == "barrier"; sm = sm or s2
    return lg, sm, hz


def sum_scale(spec, b, d, x):
    """magnitude of the terms python's sum() adds up inside the and_ conditions below level d of b: an inexact sum is
    compared with a tolerance relative to its TERMS (members of opposite sign - a negative k - cancel: the compensated
    builtin sum and the naive fold then differ by ~1e-16 of the terms, which is everything that is left of the result)"""
    m = 0.0
    for lv, c, mbs in walk_conds(b, d):
        if c[0] == "and":
            vals = live_values(mbs, x)
            for v in (vals or []):
                if math.isfinite(v):
                    m = max(m, abs(v))
    return m


def members_log(b, d):
    """error(x) never calls log itself; it depends on it only through and_/or_ member penalties"""
    for lv, c, mbs in walk_conds(b, d):
        for m in mbs:
            if any(l["t"] == "barrier" for l in all_levels(m.node)):
                return True
    return False


def run_impl(spec):
    """run the op list on the real penalty objects; returns (root Built, observations)"""
    from mystic import coupler
    root = build_node(spec, spec["tree"])
    obs = []
    held = []      # the very objects stored() returned (the caller's lists)
    exp = []       # this harness's own copies of them, edited in step with the caller: what the caller must see
    src = []       # per list: (approx, type token) of the level it was read from
    ab0 = all_built(root)
    tree_types = [bb.node["levels"][dd]["t"] for bb, dd in ab0]
    tree_approx = [bb.node["levels"][dd]["cond"][0] != "leaf" or spec["leaves"][bb.node["levels"][dd]["cond"][1]][0] == "rnorm" for bb, dd in ab0]
    for op in spec["ops"]:
        kind, path = op[0], op[1]
        b, d = resolve(root, path)
        hd = b.handles[d]
        if kind in ("call", "error", "store", "storeI", "additive"):
            xarg = list(op[2])     # the argument object of the main call: must come back as it went in
        if kind == "call":
            x = list(op[2])
            r = guarded(lambda: float(hd(xarg)))
            deeper = []
            if r[0] == "v":   # the decorated functions' own values (monitor: stacked_add, zero/positive)
                for dd in range(d + 1, len(b.handles)):
                    deeper.append(guarded(lambda dd=dd: float(b.handles[dd](list(x)))))
                deeper.append(guarded(lambda: float(b.base(list(x)))))
            obs.append({"op": kind, "r": r, "deeper": deeper, "chain": chain_state(b, d),
                        "cvs": [cond_value(spec, b, dd, x) for dd in range(d, len(b.handles))],
                        "tol": tol_class(spec, b, d, x)})
        elif kind == "additive":
            g = op[3]
            r = guarded(lambda: float(coupler.additive(hd)(lambda x: dsl.ev(g, x))(xarg)))
            pr = guarded(lambda: float(hd(list(op[2]))))
            obs.append({"op": kind, "r": r, "p": pr, "g": dsl.ev(g, op[2]), "tol": tol_class(spec, b, d, list(op[2])), "deeper": []})
        elif kind == "error":
            x = list(op[2])
            lg, sm, jump = tol_class(spec, b, d, x)
            obs.append({"op": kind, "r": guarded(lambda: float(hd.error(xarg))),
                        "cvs": [cond_value(spec, b, dd, x) for dd in range(d, len(b.handles))],
                        "tol": (members_log(b, d), sm, jump)})
        elif kind in ("iter", "iterI", "clear", "store", "storeI"):
            before = state_of(root)
            cvs = [cond_value(spec, b, dd, list(op[2])) for dd in range(d, len(b.handles))] if kind in ("store", "storeI") else None
            if kind == "iter":
                r = guarded(lambda: hd.iter())
            elif kind == "iterI":
                r = guarded(lambda: hd.iter(op[2]))
            elif kind == "clear":
                r = guarded(lambda: hd.clear())
            elif kind == "store":
                r = guarded(lambda: hd.store(xarg))
            else:
                r = guarded(lambda: hd.store(xarg, op[3]))
            ab = all_built(root)
            affected = [i for i, (bb, dd) in enumerate(ab) if bb is b and dd >= d]
            obs.append({"op": kind, "r": r, "before": before, "state": state_of(root), "affected": affected, "cvs": cvs,
                        "types": [bb.node["levels"][dd]["t"] for bb, dd in ab],
                        "approx": [bb.node["levels"][dd]["cond"][0] != "leaf" or spec["leaves"][bb.node["levels"][dd]["cond"][1]][0] == "rnorm" for bb, dd in ab]})
        elif kind == "stored":
            obs.append({"op": kind, "r": guarded(lambda: [float(v) for v in hd.stored()]), "approx": b.node["levels"][d]["cond"][0] != "leaf"})
        elif kind == "storedI":
            obs.append({"op": kind, "r": guarded(lambda: float(hd.stored(op[2]))), "approx": b.node["levels"][d]["cond"][0] != "leaf"})
        elif kind == "iteration":
            obs.append({"op": kind, "r": guarded(lambda: hd.iteration())})
        elif kind == "hold":
            got = guarded(lambda: hd.stored() if op[2] == "all" else hd.stored(slice(None)))
            ok_list = got[0] == "v" and isinstance(got[1], list)
            lst = got[1] if ok_list else []
            held.append(lst); exp.append(list(lst))     # the same (immutable) numbers in a list of the harness's own
            lv = b.node["levels"][d]
            src.append((lv["cond"][0] != "leaf" or spec["leaves"][lv["cond"][1]][0] == "rnorm", lv["t"]))
            obs.append({"op": kind, "r": ("v", [float(v) for v in lst]) if ok_list else (got if got[0] == "raise" else ("raise", "other:stored() returned a %s" % type(got[1]).__name__)),
                        "approx": src[-1][0], "aliased": any(lst is h for h in held[:-1])})
        elif kind == "hmut":
            slot, mut, x = op[2], op[3], list(op[4])
            if slot >= len(held):       # (only in a truncated op list) nothing to edit
                obs.append({"op": kind, "r": ("v", None), "skip": True, "state": state_of(root), "approx": tree_approx, "types": tree_types})
            else:
                before = state_of(root)
                pv0 = guarded(lambda: float(root.handles[0](list(x))))
                apply_mut(exp[slot], mut)       # the harness's copy
                apply_mut(held[slot], mut)      # the caller's list
                pv1 = guarded(lambda: float(root.handles[0](list(x))))
                obs.append({"op": kind, "r": ("v", None), "before": before, "state": state_of(root), "pv": (pv0, pv1), "new": [float(v) for v in exp[slot]],
                            "approx": tree_approx, "types": tree_types, "src": src[slot]})
        elif kind == "held":
            slot = op[2]
            obs.append({"op": kind, "r": ("v", [float(v) for v in held[slot]] if slot < len(held) else []),
                        "approx": src[slot][0] if slot < len(src) else False})
        else:
            raise AssertionError(op)
        ob = obs[-1]
        if kind in ("call", "error", "additive") and ob["tol"][1]:
            ob["sumscale"] = sum_scale(spec, b, d, list(op[2]))
        if kind in ("call", "error", "store", "storeI", "additive") and not same_vec([float(v) for v in xarg], [float(v) for v in op[2]]):
            ob["xmut"] = [float(v) for v in xarg]
        if held:
            ob["held"] = [[float(v) for v in h] for h in held]
            ob["exp"] = [[float(v) for v in e] for e in exp]
    return root, obs


# ------------------------------------------------------------------ protocol
def numtok(v, mode):
    return str(int(v)) if mode == "int" else f2b(v)


def pc_sexp(c):
    if c[0] == "leaf":
        return "(leaf %d)" % c[1]
    if c[0] == "not":
        return "(not %s %s)" % (c[1], pc_sexp(c[2]["levels"][0]["cond"]))
    if c[0] in ("and", "or"):
        return "(%s%s)" % (c[0], "".join(" " + pt_sexp(m) for m in c[1]))
    raise AssertionError(c)


def pt_sexp(node, d=0):
    if d == len(node["levels"]):
        return "(base %d)" % node["base"]
    lv = node["levels"][d]
    return "(pen (%s %s %s %d %s) %s %s)" % (lv["t"], numtok(lv["k"], lv["mode"]), numtok(lv["h"], lv["mode"]), lv["n"], fl(lv["y"]),
                                           pc_sexp(lv["cond"]), pt_sexp(node, d + 1))


def leaf_sexp(leaf):
    if leaf[0] == "e":
        return "(e %s)" % dsl.expr_sexp(leaf[1])
    return "(rnorm %s)" % dsl.con_sexp(leaf[1])


def path_sexp(p):
    return "(" + " ".join("d" if not is_m(s) else "(m %d)" % s[1] for s in p) + ")"


def op_sexp(op, ob=None):
    k = op[0]; p = path_sexp(op[1])
    if k in ("call", "error", "store"):
        return "(%s %s %s)" % (k, p, fl(op[2]))
    if k == "additive":
        return "(additive %s %s %s)" % (p, fl(op[2]), dsl.expr_sexp(op[3]))
    if k == "storeI":
        return "(storeI %s %s %d)" % (p, fl(op[2]), op[3])
    if k in ("iter", "clear", "stored", "iteration"):
        return "(%s %s)" % (k, p)
    if k in ("iterI", "storedI"):
        return "(%s %s %d)" % (k, p, op[2])
    if k == "hold":
        return "(hold %s)" % p
    if k == "held":
        return "(held %d)" % op[2]
    if k == "hmut":      # the model is told the contents of the caller's list after the edit (from the harness's own copy)
        if ob.get("skip"):
            return "(hmut %d ())" % op[2]
        return "(hmut %d %s)" % (op[2], fl(ob["new"]))
    raise AssertionError(op)


def request_line(spec, obs):
    return "C15 tree (leaves (%s)) (fns (%s)) (t %s) (ops (%s))" % (
        " ".join(leaf_sexp(l) for l in spec["leaves"]), " ".join(dsl.expr_sexp(tuple(e)) for e in spec["fns"]),
        pt_sexp(spec["tree"]), " ".join(op_sexp(o, ob) for o, ob in zip(spec["ops"], obs)))


def split_items(r):
    """model reply items: a mutating op that raised yields two items `(raise e) (st ..)` -> one entry"""
    out = []
    for it in r:
        if it[0] == "st" and out and out[-1][0] == "raise" and len(out[-1]) == 2 and out[-1][1] == "index":
            out[-1] = ["raise", "index", it]
        else:
            out.append(it)
    return out


def model_state(it):
    return [(int(l[0]), [b2f(t) for t in l[1]]) for l in it[1:]]


def close(a, b, scale):
    if same_float(a, b):
        return True
    if not (math.isfinite(a) and math.isfinite(b)):
        return False
    return abs(a - b) <= 1e-9 * max(abs(a), abs(b), scale) + 1e-300


# ------------------------------------------------------------------ monitor (independent of the model)
def fr(v):
    return Fraction(v)


def hpow(h, n):
    h = fr(h)
    if n >= 0:
        return h ** n
    return Fraction(1) / (h ** (-n))


def doc_amount(t, k, h, n, ys, c):
    """the documented added amount as an exact rational (float for barrier) and the magnitude of the terms it is
    made of (for the rounding tolerance); None = outside the documented domain"""
    if not all(math.isfinite(v) for v in (k, h, c)) or any(not math.isfinite(v) for v in ys):
        return None
    if h == 0 and n < 0:
        return None
    if abs(n) > 64:
        return None
    K = fr(k) * hpow(h, n)
    c_ = fr(c)
    if t == "qEq":
        return K * c_ * c_, 0
    if t == "lEq":
        return K * abs(c_), 0
    if t == "uEq":
        return (K if c_ != 0 else Fraction(0)), 0
    if t == "uIneq":
        return (K if c_ > 0 else Fraction(0)), 0
    if t == "qIneq":
        return 2 * K * max(Fraction(0), c_) ** 2, 0
    if t == "lIneq":
        return 2 * K * max(Fraction(0), c_), 0
    if t == "barrier":
        if c_ > 0:
            return INF, 0
        if K == 0:
            return None
        if c_ == 0:
            return (INF if K > 0 else -INF), 0
        return -math.log(-c) / (2.0 * float(K)), 0
    st = lambda i: fr(ys[i]) if i < len(ys) else Fraction(0)
    if t == "lagEq":
        lam = Fraction(0); Ki = fr(k); L = Fraction(0)
        for i in range(max(n, 0)):
            lam += 2 * Ki * st(i); L += abs(2 * Ki * st(i)); Ki *= fr(h)
        return Ki * c_ * c_ + lam * c_, abs(Ki * c_ * c_) + L * abs(c_)
    if t == "lagIneq":
        beta = Fraction(0); Ki = fr(k); B = Fraction(0)
        for i in range(max(n, 0)):
            if Ki == 0:
                return None
            B = max(B, abs(beta), abs(2 * Ki * st(i)))
            beta += 2 * Ki * max(-beta / (2 * Ki), st(i)); Ki *= fr(h)
        if Ki == 0:
            return None
        B = max(B, abs(beta))
        m = max(-beta / (2 * Ki), c_)
        return Ki * m * m + beta * m, abs(Ki * m * m) + B * abs(m) + B * B / abs(Ki) + abs(Ki) * abs(m) * B / abs(Ki)
    raise AssertionError(t)


def near(a, b, scale):
    if a == b:
        return True
    if not (math.isfinite(a) and math.isfinite(b)):
        return False
    return abs(a - b) <= 1e-9 * max(abs(a), abs(b), scale) + 1e-290


def view(spec, op):
    """the levels of the object an op addresses (its own level first)"""
    node = spec["tree"]; d = 0
    for st in op[1]:
        if is_m(st):
            node = cond_members(node, d)[st[1]]; d = 0
        else:
            d += 1
    return node["levels"][d:]


def monitor_call(spec, op, ob, out, hist):
    """property clauses on one evaluation p(x) of the addressed object: per level zero-on-feasible /
    positive-on-violation / documented amount / stacked sum / division by zero -> inf"""
    x = op[2]
    if ob["r"][0] != "v":
        return
    levels = view(spec, op)
    vals = [ob["r"][1]] + [d[1] if d[0] == "v" else None for d in ob["deeper"]]   # p_j, p_{j+1}, ..., f
    cvs = ob["cvs"]
    state = ob["chain"]
    for idx, lv in enumerate(levels):
        outer = vals[idx]; inner = vals[idx + 1] if idx + 1 < len(vals) else None
        c = cvs[idx]
        t = lv["t"]; k = float(lv["k"]); h = float(lv["h"])
        n, ys = state[idx]
        if outer is None:
            break
        name = [nm for nm, tk in TYPES if tk == t][0]
        how = lv["how"] if lv["how"] in ("and", "or", "not") else "plain"
        if c == "zd":
            hist["mon:zerodiv"] = hist.get("mon:zerodiv", 0) + 1
            if how != "plain":
                hist["mon:zerodiv:" + how] = hist.get("mon:zerodiv:" + how, 0) + 1
            if outer != INF:
                out.append(("%s/div-zero-not-inf" % name, "condition raised ZeroDivisionError at x=%r but p(x)=%r (level %d of %r)" % (x, outer, idx, op[1])))
            break
        if c is None or inner is None or c != c or inner != inner:
            continue
        hfin = math.isfinite(h) and not (h == 0 and n < 0)
        sat = (c == 0) if t in EQ else (c <= 0)
        if k == INF and hfin and h > 0 and abs(n) <= 64 and math.isfinite(c) and math.isfinite(inner):
            # an infinite multiplier (the DEFAULT of the two uniform types): the uniform types add nothing where
            # satisfied and +inf where violated; the quadratic / linear types add +inf where violated
            hk = "mon:k-inf:%s:%s" % (t, "sat" if sat else "viol")
            hist[hk] = hist.get(hk, 0) + 1
            if t in CONFORMING and not sat and abs(c) > 1e-100 and outer != INF:
                out.append(("%s/k-infinite/not-inf-on-violation" % name, "k=inf, condition value %r is violated but p(x)=%r (h=%r n=%d, x=%r)" % (c, outer, h, n, x)))
            if t in ("uEq", "uIneq") and sat and outer != inner:
                out.append(("%s/nonzero-on-feasible" % name, "k=inf, condition value %r is satisfied but p(x)=%r != decorated f(x)=%r (h=%r n=%d, x=%r)" % (c, outer, inner, h, n, x)))
            if t in ("qEq", "lEq", "qIneq", "lIneq") and sat and not same_float(outer, inner):
                out.append(("%s/nonzero-on-feasible/k-infinite" % name, "k=inf, condition value %r is satisfied but p(x)=%r != decorated f(x)=%r (h=%r n=%d, x=%r)" % (c, outer, inner, h, n, x)))
            continue
        kfin = math.isfinite(k) and hfin and abs(n) <= 64     # k*h**n over/underflows for huge |n|: as k = inf / 0
        if not kfin:
            hist["mon:k-or-h-not-finite"] = hist.get("mon:k-or-h-not-finite", 0) + 1
            continue
        if c == INF and t in ("qEq", "lEq", "qIneq", "lIneq") and k > 0 and h > 0 and abs(n) <= 64 and (math.isfinite(inner) or inner == INF):
            # an infinite condition value (a member penalty whose condition divided by zero) -> infinite penalty
            hist["mon:inf-condition"] = hist.get("mon:inf-condition", 0) + 1
            if outer != INF:
                out.append(("%s/infinite-condition-not-inf" % name, "condition value is inf (a member divided by zero) but p(x)=%r (k=%r h=%r n=%d, x=%r)" % (outer, k, h, n, x)))
            continue
        da = doc_amount(t, k, h, n, ys, c)
        amt, mag = da if da is not None else (None, 0)
        stored_fin = all(math.isfinite(v) for v in ys)
        scale = max(abs(inner) if math.isfinite(inner) else 0.0, float(mag),
                    abs(float(amt)) if (amt is not None and math.isfinite(float(amt))) else 0.0)
        hk = "mon:%s:%s" % (t, "sat" if sat else "viol")
        hist[hk] = hist.get(hk, 0) + 1
        if how != "plain":
            hist["mon:" + how] = hist.get("mon:" + how, 0) + 1
        if k < 0 or (0 < h < 1) or h == 1 or n < 0 or n > 5:
            hkk = "mon:regime:" + ("k<0" if k < 0 else "h<1" if 0 < h < 1 else "h=1" if h == 1 else "n<0" if n < 0 else "n>5")
            hist[hkk] = hist.get(hkk, 0) + 1
        # (1) no added penalty where satisfied  (checked for ALL nine types: the non-conforming ones are known findings)
        if sat and math.isfinite(inner) and stored_fin and outer != inner:
            key = "%s/nonzero-on-feasible" % name
            if t == "lagIneq":
                key += "/multipliers-stored" if any(v > 0 for v in ys[:max(n, 0)]) else "/no-multiplier"
            if t == "lagEq":
                key += "/multipliers-stored" if any(v != 0 for v in ys[:max(n, 0)]) else "/no-multiplier"
            out.append((key, "condition value %r is satisfied but p(x)=%r != decorated f(x)=%r (k=%r h=%r n=%d stored=%r, x=%r)" % (c, outer, inner, k, h, n, ys, x)))
        # (2) strictly positive where violated (k, h > 0); strictness only where rounding cannot absorb the amount
        if (not sat) and k > 0 and h > 0 and math.isfinite(inner) and stored_fin:
            if outer < inner:
                key = "%s/not-positive-on-violation" % name
                if t == "lagEq":
                    key += "/multipliers-stored" if any(v != 0 for v in ys[:max(n, 0)]) else "/no-multiplier"
                out.append((key, "condition value %r is violated but p(x)=%r < decorated f(x)=%r (k=%r h=%r n=%d stored=%r, x=%r)" % (c, outer, inner, k, h, n, ys, x)))
            elif outer == inner and amt is not None and t in CONFORMING and float(amt) > 1e-6 * max(1.0, abs(inner)):
                out.append(("%s/no-penalty-on-violation" % name, "condition value %r is violated but nothing was added: p(x)=%r (k=%r h=%r n=%d, x=%r)" % (c, outer, k, h, n, x)))
        # (3) the added amount is the documented expression (and stacked penalties add)
        if amt is not None and math.isfinite(inner):
            a = float(amt)
            if a == INF or a == -INF:
                ok = (outer == a)
            else:
                ok = near(outer, float(Fraction(inner) + Fraction(amt)), scale)
            hist["mon:formula"] = hist.get("mon:formula", 0) + 1
            if not ok:
                key = "%s/formula" % name
                if how != "plain":
                    key = "coupler.%s_/%s" % (how, key)
                out.append((key, "p(x)=%r but decorated f(x)=%r + documented amount %r (condition %r, k=%r h=%r n=%d stored=%r, x=%r)" % (outer, inner, a, c, k, h, n, ys, x)))
    # a condition dividing by zero anywhere in the stack yields an infinite penalty (finite levels outside it)
    if "zd" in cvs:
        z = cvs.index("zd")
        fine = True
        for idx in range(z):
            lv = levels[idx]; n, ys = state[idx]; c = cvs[idx]
            if c is None or not isinstance(c, float) or not math.isfinite(c):
                fine = False
            else:
                da = doc_amount(lv["t"], float(lv["k"]), float(lv["h"]), n, ys, c)
                if da is None or float(da[0]) == -INF:     # -inf + inf = nan: the levels outside must add a finite amount or +inf
                    fine = False
        if fine and vals[0] != INF:
            out.append(("stack/div-zero-not-inf", "the condition of level %d raised ZeroDivisionError at x=%r but p(x)=%r" % (z, x, vals[0])))


def monitor_error(spec, op, ob, out, hist):
    x = op[2]
    if ob["r"][0] != "v":
        out.append(("error/raises", "error(x) raised %r at x=%r" % (ob["r"][1], x)))
        return
    levels = view(spec, op)
    cvs = ob["cvs"]
    if any(c is None or (c != "zd" and c != c) for c in cvs):
        return
    got = ob["r"][1]
    zd = [i for i, c in enumerate(cvs) if c == "zd"]
    if zd:
        # the outermost raising level returns inf; levels outside it add their squares to it
        if any(not math.isfinite(c) for c in cvs[:zd[0]]):
            return
        want = INF
    else:
        acc = Fraction(0)
        for lv, c in zip(levels, cvs):
            if not math.isfinite(c):
                acc = None; break
            v = Fraction(c) if lv["t"] in EQ else max(Fraction(0), Fraction(c))
            acc += v * v
        if acc is None:
            return
        if acc > Fraction(10) ** 300:
            return
        want = math.sqrt(acc)
    hist["mon:error"] = hist.get("mon:error", 0) + 1
    if not near(got, want, 0.0):
        out.append(("error/magnitude", "error(x)=%r but the violation magnitude is %r (conditions %r, x=%r)" % (got, want, cvs, x)))


def monitor_state(spec, op, ob, out, hist):
    """iter / clear / store : exactly the documented state change at the addressed object and the objects it
    decorates; NOTHING else anywhere in the tree (outer levels, member penalties of any condition, the objects a
    member penalty is combined into)"""
    kind = op[0]
    before, after = ob["before"], ob["state"]
    if ob["r"][0] != "v":
        # `_y[i] = y` with i < -len(_y) (explicit i, or the default i = iteration() after iter(negative)) is an IndexError
        if not (kind in ("store", "storeI") and ob["r"][1] == "index"):
            out.append(("%s/raises" % kind, "%s raised %r" % (kind, ob["r"][1])))
        return
    aff = set(ob["affected"])
    for idx, ((n0, y0), (n1, y1)) in enumerate(zip(before, after)):
        if idx not in aff:
            if n0 != n1 or not same_vec(y0, y1):
                out.append(("%s/touches-other-object" % kind, "%s on %r changed level #%d of the tree, which it does not decorate: %r -> %r" % (kind, op[1], idx, (n0, y0), (n1, y1))))
            continue
        t = ob["types"][idx]
        if kind == "iter":
            if n1 != n0 + 1 or not same_vec(y0, y1):
                out.append(("iter/not-advanced", "iter() on %r: level #%d %r -> %r" % (op[1], idx, (n0, y0), (n1, y1))))
        elif kind == "iterI":
            if n1 != op[2] or not same_vec(y0, y1):
                out.append(("iter/not-set", "iter(%d) on %r: level #%d %r -> %r" % (op[2], op[1], idx, (n0, y0), (n1, y1))))
        elif kind == "clear":
            if n1 != 0 or y1 != []:
                out.append(("clear/not-reset", "clear() on %r: level #%d %r -> %r" % (op[1], idx, (n0, y0), (n1, y1))))
        elif kind in ("store", "storeI"):
            if n1 != n0:
                out.append(("store/touches-iteration", "store on %r changed the iteration of level #%d" % (op[1], idx)))
            if t not in LAG and not same_vec(y0, y1):
                out.append(("store/non-lagrange-stores", "store on %r changed stored() of the %s level #%d" % (op[1], t, idx)))
    hist["mon:state"] = hist.get("mon:state", 0) + 1
    if len(before) > len(aff):
        hist["mon:state:frame-levels"] = hist.get("mon:state:frame-levels", 0) + len(before) - len(aff)


def monitor_store_value(spec, op, ob, out, hist):
    """store(x[, i]) at a Lagrange level records the condition value at index i (default: its iteration) and leaves
    every other stored value alone (a gap is filled with zeros)"""
    if ob["r"][0] != "v":
        return
    x = op[2]
    cvs = ob["cvs"]
    i = op[3] if op[0] == "storeI" else None
    for idx, gi in enumerate(sorted(ob["affected"])):
        n0, y0 = ob["before"][gi]; n1, y1 = ob["state"][gi]
        if ob["types"][gi] in LAG:
            if i is None:
                i = n0
            c = cvs[idx]
            if c is None:
                return
            want = INF if c == "zd" else c
            pos = i if i >= 0 else len(y0) + i
            # conditions built by as_penalty / and_ / or_ are recomputed here with fsum / sqrt: equal up to rounding only
            approx = ob["approx"][gi]
            # (a nan condition value - x itself holds a nan - is recorded as nan: near() knows no nan, same_float does)
            if pos < 0 or pos >= len(y1) or not ((near(y1[pos], want, 0.0) or same_float(y1[pos], want)) if approx else same_float(y1[pos], want)):
                out.append(("store/value", "store(x, %r) at level #%d: stored()=%r, expected %r at index %d" % (i, gi, y1, want, pos)))
            else:
                rest_ok = len(y1) == max(len(y0), pos + 1) and all(
                    same_float(y1[q], y0[q] if q < len(y0) else 0.0) for q in range(len(y1)) if q != pos)
                if not rest_ok:
                    out.append(("store/other-entries", "store(x, %r) at level #%d: stored() %r -> %r" % (i, gi, y0, y1)))
            hist["mon:store"] = hist.get("mon:store", 0) + 1


def monitor_clear_fresh(spec, k_op, out, hist):
    """`clear()` on the outermost handle resets to the state of a freshly built penalty and touches nothing else:
    every later evaluation agrees with a fresh copy driven by the remaining ops"""
    ops = spec["ops"]
    rest = [o for o in ops[k_op + 1:] if o[0] not in READER_OPS]     # the caller's lists are not part of the penalty
    if not rest:
        return
    s1 = dict(spec); s1["ops"] = ops[:k_op + 1] + rest
    s2 = dict(spec); s2["ops"] = rest
    _, o1 = run_impl(s1)
    _, o2 = run_impl(s2)
    for a, b, op in zip(o1[k_op + 1:], o2, rest):
        ra, rb = a["r"], b["r"]
        if not same_result(ra, rb):
            out.append(("clear/not-fresh", "after clear() op %r gives %r, on a fresh penalty %r" % (op[:2], ra, rb)))
            break
    hist["mon:clear-fresh"] = hist.get("mon:clear-fresh", 0) + 1


def monitor_cycles(spec, obs, out, hist):
    """the multiplier state machine: after the cycles `store(x_0); iter(); ...; store(x_{m-1}); iter()` on a fresh
    Lagrange penalty the iteration is m and stored() is exactly [c(x_0), ..., c(x_{m-1})] (overwrites by store(x, i)
    replace entry i), and the accumulated multiplier follows lam_{i+1} = lam_i + 2*k*h^i*c_i  (equality) /
    beta_{i+1} = max(0, beta_i + 2*k*h^i*c_i) (inequality, k, h > 0): checked through the evaluations by `formula`"""
    lv0 = spec["tree"]["levels"][0]
    if lv0["t"] not in LAG:
        return
    want = []; n = 0
    for op, ob in zip(spec["ops"], obs):
        if ob["r"][0] != "v":
            return
        if op[0] == "clear":
            want = []; n = 0
        elif op[0] in ("store", "storeI"):
            c = ob["cvs"][0]
            if c is None:
                return
            c = INF if c == "zd" else c
            i = n if op[0] == "store" else op[3]
            if i >= len(want):
                want = want + [0.0] * (i - len(want)) + [c]
            else:
                want[i] = c
        elif op[0] == "iter":
            n += 1
        if "state" in ob:
            n1, y1 = ob["state"][0]
            hist["mon:cycle"] = hist.get("mon:cycle", 0) + 1
            if n1 != n or not same_vec(y1, want):
                out.append(("lagrange/cycle-state", "after %d ops of the store/iter cycle: iteration()=%r stored()=%r, expected %r %r" % (len(want), n1, y1, n, want)))
                return
        if op[0] == "call" and n > 0 and ob["r"][0] == "v" and lv0["k"] > 0 and lv0["h"] > 0 and math.isfinite(lv0["k"]) and math.isfinite(lv0["h"]):
            # independent recurrence for the multiplier, compared through p(x) = K*m^2 + mult*m + f(x)
            c = ob["cvs"][0]; inner = ob["deeper"][0]
            if c in (None, "zd") or inner[0] != "v" or not math.isfinite(c) or not math.isfinite(inner[1]) or any(not math.isfinite(v) for v in want):
                continue
            k = Fraction(lv0["k"]); h = Fraction(lv0["h"]); mult = Fraction(0); B = Fraction(0)
            for i in range(n):
                ci = Fraction(want[i]) if i < len(want) else Fraction(0)
                step = 2 * k * h ** i * ci
                mult = mult + step if lv0["t"] == "lagEq" else max(Fraction(0), mult + step)
                B = max(B, abs(mult), abs(step))
            K = k * h ** n
            m = Fraction(c) if lv0["t"] == "lagEq" else max(-mult / (2 * K), Fraction(c))
            amt = K * m * m + mult * m
            scale = float(abs(K * m * m) + B * abs(m) + B * B / K + B * abs(m)) + abs(inner[1])
            hist["mon:cycle-multiplier"] = hist.get("mon:cycle-multiplier", 0) + 1
            if not near(ob["r"][1], float(Fraction(inner[1]) + amt), scale):
                out.append(("lagrange/multiplier-recurrence", "cycle %d: p(x)=%r, expected f(x) + K*m^2 + mult*m = %r (mult=%r, K=%r, c=%r)" % (n, ob["r"][1], float(Fraction(inner[1]) + amt), float(mult), float(K), c)))
                return


def type_name(tok):
    return [nm for nm, tk in TYPES if tk == tok][0]


def monitor_reader(spec, op, ob, out, hist):
    """the caller edited a list it got from stored(): the penalty - the (iteration, history) of EVERY level of the tree
    and the value at a probe point - is exactly what it was before the edit"""
    if ob.get("skip"):
        return
    hist["mon:reader-edit"] = hist.get("mon:reader-edit", 0) + 1
    hist["mon:reader-edit:" + op[3][0]] = hist.get("mon:reader-edit:" + op[3][0], 0) + 1
    stok = ob["src"][1]
    hist["mon:reader-edit:src-" + ("lagrange" if stok in LAG else "other")] = hist.get("mon:reader-edit:src-" + ("lagrange" if stok in LAG else "other"), 0) + 1
    for idx, ((n0, y0), (n1, y1)) in enumerate(zip(ob["before"], ob["state"])):
        if n0 != n1 or not same_vec(y0, y1):
            out.append(("%s/stored/callers-edit-changes-history" % type_name(ob["types"][idx]),
                        "the caller did %r to the list it had received from stored() of a %s level (its list number %d): level #%d of the tree went %r -> %r"
                        % (tuple(op[3]), type_name(stok), op[2], idx, (n0, y0), (n1, y1))))
            break
    pv0, pv1 = ob["pv"]
    if not (pv0[0] == "raise" and pv0[1] == "overflow") and not same_result(pv0, pv1):
        out.append(("%s/stored/value-depends-on-callers-list" % type_name(spec["tree"]["levels"][0]["t"]),
                    "p(x) at x=%r was %r; after the caller did %r to the list it had received from stored() of a %s level it is %r"
                    % (list(op[4]), pv0, tuple(op[3]), type_name(stok), pv1)))


def monitor(spec, obs, hist):
    out = []
    cleared = False
    member_mut = False
    held_bad = False
    prev_exp = []
    for k_op, (op, ob) in enumerate(zip(spec["ops"], obs)):
        kind = op[0]
        # (a) what the caller holds changes only by the caller's own hand: no call on the penalty (clear, store, iter,
        #     an evaluation) and no edit of ANOTHER list may change a list obtained from stored()
        if "held" in ob and not held_bad:
            hist["mon:held-lists-checked"] = hist.get("mon:held-lists-checked", 0) + len(ob["held"])
            if kind in ("clear", "store", "storeI", "iter", "iterI"):
                hist["mon:held-across:" + kind] = hist.get("mon:held-across:" + kind, 0) + 1
            for q, (hv, ev) in enumerate(zip(ob["held"], ob["exp"])):
                if not same_vec(hv, ev):
                    held_bad = True
                    what = "%s()" % kind if kind not in READER_OPS else {"hold": "a second stored()", "hmut": "an edit of list number %d" % op[2], "held": "nothing"}[kind]
                    key = ("%s/touches-callers-list" % kind) if kind not in READER_OPS else "stored/readings-share-one-list"
                    out.append((key, "list number %d, obtained from stored() and left by the caller as %r, reads %r after %s on %r"
                                % (q, ev, hv, what, op[1])))
                    break
        if ob.get("aliased"):
            out.append(("stored/readings-share-one-list", "stored() returned the very list object of an earlier reading"))
        if "xmut" in ob:
            out.append(("%s/mutates-argument" % kind, "%s(x) changed the caller's x from %r to %r" % (kind, list(op[2]), ob["xmut"])))
        # (b) a type without multipliers never has a history
        if "state" in ob and "types" in ob and not (ob["r"][0] == "raise"):
            for idx, (n1, y1) in enumerate(ob["state"]):
                if ob["types"][idx] not in LAG and y1:
                    out.append(("%s/has-history" % type_name(ob["types"][idx]), "after %s level #%d of type %s has stored()=%r (only the Lagrange types keep multipliers)"
                                % (kind, idx, type_name(ob["types"][idx]), y1)))
                    break
        if ob["r"][0] == "raise" and ob["r"][1] == "overflow":
            continue
        if ob["r"][0] == "raise" and str(ob["r"][1]).startswith("other:"):
            out.append(("%s/unexpected-exception" % kind, "%s raised %s" % (kind, ob["r"][1])))
            continue
        if kind == "call":
            monitor_call(spec, op, ob, out, hist)
        elif kind == "error":
            monitor_error(spec, op, ob, out, hist)
        elif kind in ("iter", "iterI", "clear", "store", "storeI"):
            monitor_state(spec, op, ob, out, hist)
            if kind in ("store", "storeI"):
                monitor_store_value(spec, op, ob, out, hist)
            if any(is_m(st) for st in op[1]):
                member_mut = True      # a member penalty now differs from a freshly built one
            if kind == "clear" and op[1] == [] and not cleared and not member_mut and ob["r"][0] == "v":
                cleared = True
                monitor_clear_fresh(spec, k_op, out, hist)
        elif kind == "additive":
            r, p = ob["r"], ob["p"]
            if r[0] == "v" and p[0] == "v" and not same_float(r[1], ob["g"] + p[1]):
                out.append(("coupler/additive", "additive(p)(f)(x)=%r but f(x)+p(x)=%r" % (r[1], ob["g"] + p[1])))
        elif kind == "hmut":
            monitor_reader(spec, op, ob, out, hist)
    if spec["kind"] == "lagcycle":
        monitor_cycles(spec, obs, out, hist)
    return out


def run_driver(lines):
    """mvdrv is re-linked in place whenever any builder runs `lake build mvdrv`: retry while it is missing/busy"""
    last = None
    for attempt in range(40):
        try:
            return leandrv.run_driver(lines)
        except (FileNotFoundError, PermissionError, OSError, leandrv.DriverError) as exc:
            last = exc
            time.sleep(1.5)
    raise last


# ------------------------------------------------------------------ one case
def run_case(spec, hist):
    """returns (request line, observations, monitor findings)"""
    with warnings.catch_warnings():
        warnings.simplefilter("ignore")
        import numpy as np
        with np.errstate(all="ignore"):
            root, obs = run_impl(spec)
            line = request_line(spec, obs)
            mon = monitor(spec, obs, hist)
    return line, obs, mon


def same_state(ob, ms, st):
    """(iteration, stored) of every level of the tree; stored values of a level whose condition is an and_/or_/not_
    combination are python sum()/numpy log results (toleranced), all others are bit-exact copies of the condition value"""
    if len(ms) != len(st) or [s[0] for s in ms] != [s[0] for s in st]:
        return False
    for approx, a, b in zip(ob["approx"], ms, st):
        if same_vec(a[1], b[1]):
            continue
        if approx and len(a[1]) == len(b[1]) and all(close(p, q, 0.0) for p, q in zip(a[1], b[1])):
            continue
        return False
    return True


def same_result(ra, rb):
    if ra[0] != rb[0]:
        return False
    a, b = ra[1], rb[1]
    if isinstance(a, float) and isinstance(b, float):
        return same_float(a, b)
    if isinstance(a, list) and isinstance(b, list):
        return same_vec(a, b)
    return a == b


def compare(spec, obs, rep, hist):
    """model reply vs implementation observations; returns list of difference strings"""
    r = parse_reply(rep)
    if r[0] != "ok":
        return ["model replied %r" % (rep,)]
    items = split_items(r[1]["r"])
    if len(items) != len(obs):
        return ["model returned %d results for %d ops" % (len(items), len(obs))]
    diffs = []
    for k_op, (op, ob, it) in enumerate(zip(spec["ops"], obs, items)):
        kind = op[0]
        ir = ob["r"]
        tag = "op %d %s@%r" % (k_op, kind, op[1])
        if any(is_m(st) for st in op[1]):
            hist["cmp:member-object"] = hist.get("cmp:member-object", 0) + 1
        if ir[0] == "raise" and ir[1] == "overflow":
            hist["skipped:OverflowError"] = hist.get("skipped:OverflowError", 0) + 1
            continue
        if ir[0] == "raise":
            if it[0] != "raise" or it[1] != ir[1]:
                diffs.append("%s: impl raised %s, model %r" % (tag, ir[1], it[:2]))
            elif len(it) > 2 and "state" in ob:
                ms = model_state(it[2])
                if not same_state(ob, ms, ob["state"]):
                    diffs.append("%s: state after IndexError model=%r impl=%r" % (tag, ms, ob["state"]))
            hist["raise:" + str(ir[1]).split(":")[0]] = hist.get("raise:" + str(ir[1]).split(":")[0], 0) + 1
            continue
        if it[0] == "raise":
            diffs.append("%s: model raised %s, impl returned %r" % (tag, it[1], ir[1]))
            continue
        if kind in ("call", "additive", "error"):
            mv = b2f(it[1])
            iv = ir[1]
            lg, sm, jump = ob["tol"]
            exact = True
            if lg:
                exact = False; hist["tol:log"] = hist.get("tol:log", 0) + 1
            elif sm:
                exact = False; hist["tol:sum"] = hist.get("tol:sum", 0) + 1
            if not exact and jump:
                # a last-bit difference in a sum / log may select the other branch of a uniform type / logical not
                hist["skipped:rounding-before-branch"] = hist.get("skipped:rounding-before-branch", 0) + 1
                continue
            scale = max([abs(d[1]) for d in ob.get("deeper", []) if d[0] == "v" and math.isfinite(d[1])] + [0.0, ob.get("sumscale", 0.0)])
            if exact:
                # expected bit-identical (and is, on the pinned tree).  A difference below 1e-9 relative is what a
                # behaviour-preserving rewrite of the arithmetic (x**2 -> x*x, x**0.5 -> sqrt, h**n by repeated
                # multiplication) produces: counted, not reported.  Anything larger is a divergence.
                if same_float(mv, iv):
                    hist["cmp:exact"] = hist.get("cmp:exact", 0) + 1
                elif close(mv, iv, scale):
                    hist["cmp:rounding-only-difference"] = hist.get("cmp:rounding-only-difference", 0) + 1
                else:
                    diffs.append("%s: value model=%r impl=%r (bit-exact stream)" % (tag, mv, iv))
            else:
                if not close(mv, iv, scale):
                    diffs.append("%s: value model=%r impl=%r (toleranced stream)" % (tag, mv, iv))
        elif kind == "storedI":
            mv = b2f(it[1])
            if not (same_float(mv, ir[1]) or (ob["approx"] and close(mv, ir[1], 0.0))):
                diffs.append("%s: stored(i) model=%r impl=%r" % (tag, mv, ir[1]))
        elif kind in ("iter", "iterI", "clear", "store", "storeI"):
            ms = model_state(it)
            if not same_state(ob, ms, ob["state"]):
                diffs.append("%s: state model=%r impl=%r" % (tag, ms, ob["state"]))
        elif kind == "hmut":
            ms = model_state(it)
            if not same_state(ob, ms, ob["state"]):
                diffs.append("%s: state after the caller's edit model=%r impl=%r" % (tag, ms, ob["state"]))
        elif kind in ("stored", "hold", "held"):
            mys = [b2f(t) for t in it[1]]
            if not (same_vec(mys, ir[1]) or (ob["approx"] and len(mys) == len(ir[1])
                                             and all(close(p, q, 0.0) for p, q in zip(mys, ir[1])))):
                diffs.append("%s: %s model=%r impl=%r" % (tag, {"stored": "stored()", "hold": "stored() kept", "held": "the caller's list"}[kind], [b2f(t) for t in it[1]], ir[1]))
        elif kind == "iteration":
            if int(it[1]) != ir[1]:
                diffs.append("%s: iteration() model=%s impl=%r" % (tag, it[1], ir[1]))
    return diffs


def tree_depth(node):
    return 1 + max([0] + [tree_depth(m) for d in range(len(node["levels"])) for m in cond_members(node, d)])


def case_hist(spec, obs, hist):
    def bump(k):
        hist[k] = hist.get(k, 0) + 1
    bump("kind:" + spec["kind"]); bump("depth:%d" % len(spec["tree"]["levels"])); bump("nesting:%d" % tree_depth(spec["tree"]))
    for lv in all_levels(spec["tree"]):
        bump("type:" + lv["t"]); bump("kh:" + lv["mode"])
        if lv["how"] != "plain":
            bump("how:" + lv["how"])
        if lv["cond"][0] == "not" and lv["cond"][2]["levels"][0]["cond"][0] != "leaf":
            bump("not-of-combination")
    for op, ob in zip(spec["ops"], obs):
        bump("op:" + op[0])
        if any(is_m(st) for st in op[1]):
            bump("op-on-member:" + op[0])
        if op[0] in ("iterI",) and op[2] < 0:
            bump("iter:negative")
        if op[0] in ("iterI",) and op[2] > 5:
            bump("iter:large")
        if op[0] == "storeI":
            bump("storeI:" + ("neg" if op[3] < 0 else "nonneg"))
    evals = [(op, ob) for op, ob in zip(spec["ops"], obs) if op[0] == "call" and ob["r"][0] == "v"]
    added = False
    for op, ob in evals:
        d = [v[1] for v in ob["deeper"] if v[0] == "v"]
        if d and not same_float(ob["r"][1], d[0]):
            added = True
    mutated = False; after = False
    for op in spec["ops"]:
        if op[0] in ("iter", "iterI", "store", "storeI", "clear"):
            mutated = True
        elif op[0] in ("call", "error") and mutated:
            after = True
    return added and after


def unjson(o):
    """inverse of common.jsonable for a stored spec (non-finite floats come back as floats)"""
    if isinstance(o, dict):
        if set(o.keys()) == {"float"}:
            return float(o["float"])
        return {k: unjson(v) for k, v in o.items()}
    if isinstance(o, list):
        return [unjson(v) for v in o]
    return o


def jcase(spec, line, obs, rep, ident):
    return {"ident": ident, "kind": spec["kind"], "spec": spec, "request": line, "model": rep,
            "impl": [{"op": [op[0], repr(op[1])] + [repr(v) for v in op[2:]], "r": ob["r"], "state": ob.get("state")} for op, ob in zip(spec["ops"], obs)]}


def run_shard(pid, seed, shard, ncases, tier, extra):
    common.import_mystic()
    stream = (extra or {}).get("stream", PID)
    only = (extra or {}).get("only")
    cases = []; lines = []; findings = []; hist = {}
    ks = [only] if only is not None else range(ncases)
    for k in ks:
        rng = case_rng(stream, seed, shard, k)
        spec = gen_case(rng)
        ident = {"stream": stream, "seed": seed, "shard": shard, "k": k}
        try:
            line, obs, mon = run_case(spec, hist)
        except Exception as exc:
            import traceback
            findings.append(Finding("correspondence", "harness/build-or-run-raises", "%r" % (exc,), {"ident": ident, "tb": traceback.format_exc()[-1500:]}))
            continue
        cases.append((spec, obs, mon, ident)); lines.append(line)
    replies = run_driver(lines)
    nontrivial = 0; samples = []
    per_class = {}

    def found(kind, key, what, case, ident):
        """the full case travels with the first findings of a class only (the parent process keeps every finding of
        every shard in memory: ~40% of the cases hit a known-finding class); later ones carry their identity, from
        which `replay` regenerates them"""
        c = per_class.get((kind, key), 0); per_class[(kind, key)] = c + 1
        findings.append(Finding(kind, key, what, case if c < 3 else {"ident": ident}))
    for (spec, obs, mon, ident), line, rep in zip(cases, lines, replies):
        case = jcase(spec, line, obs, rep, ident)
        diffs = compare(spec, obs, rep, hist)
        if diffs:
            found("correspondence", "penalty/%s/diverges" % spec["kind"], "; ".join(diffs[:3]), case, ident)
        for key, what in mon:
            found("monitor", key, what, case, ident)
        nt = case_hist(spec, obs, hist)
        if nt:
            nontrivial += 1
            if len(samples) < 2:
                samples.append(case)
    return {"evaluations": len(cases), "nontrivial": nontrivial, "model_lines": sum(len(c[0]["ops"]) for c in cases),
            "findings": findings, "samples": samples, "hist": hist}


# ------------------------------------------------------------------ known-finding witnesses (run first, deterministic)
def witness_specs():
    lin = ("-", ("x", 0), ("c", 0.0))     # condition c(x) = x[0]

    def mk(t, k, h, ops):
        return {"kind": "plain", "dim": 1, "exact": False, "leaves": [("e", lin, (0, 0.0))], "fns": [("c", 1.0)],
                "tree": {"levels": [{"t": t, "k": k, "h": h, "mode": "float", "n": 0, "y": [], "how": "plain", "cond": ("leaf", 0)}], "base": 0},
                "ops": ops}
    return [
        # barrier_inequality: c = -0.5 is satisfied, yet -log(0.5)/(2*100) is added; c = 0 gives inf
        mk("barrier", 100.0, 5.0, [("call", [], [-0.5]), ("call", [], [0.0])]),
        # lagrange_inequality after store(c=1) and iter(): beta = 40; c = -0.1 is satisfied, a negative amount is added
        mk("lagIneq", 20.0, 5.0, [("store", [], [1.0]), ("iter", []), ("call", [], [-0.125])]),
        # lagrange_equality after store(c=1) and iter(): lam = 40, K = 100; c = -0.125 is violated, 100/64 - 5 < 0 is added
        mk("lagEq", 20.0, 5.0, [("store", [], [1.0]), ("iter", []), ("call", [], [-0.125])]),
        # an infinite multiplier with a quadratic / linear type: inf * 0 = nan on the feasible set
        mk("qEq", INF, 5.0, [("call", [], [0.0]), ("call", [], [0.5])]),
        mk("lEq", INF, 5.0, [("call", [], [0.0])]),
        mk("qIneq", INF, 5.0, [("call", [], [-1.0])]),
        mk("lIneq", INF, 5.0, [("call", [], [-1.0])]),
    ]


def witnesses():
    common.import_mystic()
    out = []
    specs = witness_specs()
    hist = {}
    res = [run_case(s, hist) for s in specs]
    replies = run_driver([r[0] for r in res])
    for i, (spec, (line, obs, mon), rep) in enumerate(zip(specs, res, replies)):
        case = jcase(spec, line, obs, rep, {"witness": i})
        diffs = compare(spec, obs, rep, hist)
        if diffs:
            out.append(Finding("correspondence", "penalty/witness/diverges", "; ".join(diffs[:3]), case))
        for key, what in mon:
            out.append(Finding("monitor", key, what, case))
    return out


def main(tier, seed):
    t0 = time.time()
    proof = framework.proof_stage(PID, MODULE, THEOREMS, tier)
    nshards, per = (16, 1500) if tier == "quick" else (64, 8000)
    run = framework.run_shards("c15", "run_shard", PID, seed, nshards, per, tier)
    run["findings"] = witnesses() + run["findings"]

    def search_more():
        r = framework.run_shards("c15", "run_shard", PID, seed + 7919, 32, 600, tier)
        return r["findings"]
    rule = ("cases: a penalty TREE: a chain of 1-4 levels over the nine mystic.penalty types (k, h in {-100, -1, 0, 1e-3, .25, .5, 1, 2, 20, 100, inf, "
            "random}, python ints or floats), conditions from the DSL (linear with exact/one-ulp boundary points, products, squares, "
            "zero-dividing quotients), the innermost level optionally built by with_penalty / as_penalty / coupler.and_ / or_ / not_ whose members "
            "are again such objects (nesting to depth 3, not_ of and_/or_/not_), driven by 5-16 operations p(x), error(x), iter(), iter(i) "
            "(i<0, i up to 1100), store(x[,i]) (negative and out-of-range i), stored([i]), clear(), iteration(), additive on ANY object of the "
            "tree (outer level, decorated level, live member penalty of a combination); kind lagcycle = the store/iter outer loop of the "
            "augmented Lagrangian for 2-7 cycles; in ~45% of the cases the CALLER keeps what stored() / stored(slice) of any object returned "
            "(hold), edits those lists in place (hmut: sort, reverse, scale, negate, append, extend, insert, pop, del, set, clear; the whole "
            "tree state and a probe evaluation are taken before and after) and reads them back later, across store / iter / clear (held); "
            "the argument list of every p(x) / error(x) / store(x) is checked to come back unchanged. non-trivial = some evaluation follows a state change (iter/store/clear) and some evaluation "
            "added a non-zero amount. `evaluations` counts cases, `model_lines_compared` operations")
    tb = ["Lean 4.33 kernel; Mathlib ordered-field lemmas; axioms per theorem listed under coverage.theorems",
          "hand-written models Model/Penalty.lean + Model/PenaltyTree.lean tied to mystic/penalty.py, coupler.py, constraints.with_penalty/as_penalty by this differential run only",
          "theorem hypotheses on the scalar operations (x**2 = x*x, pow(h,n) = h^n, x**0.5 = the non-negative root, abs) are idealisations of the C library calls the driver uses at Float",
          "DSL twins harness/dsl.py and Model/Dsl.lean evaluate the user's callables (leaves); everything between them and p(x) is model code under theorems",
          "barrier_inequality's log and inexact python sum() inside coupler.and_ are compared with relative tolerance 1e-9 (counted in the histogram as tol:log / tol:sum); where such a value feeds a discontinuous type / logical not the comparison is skipped (skipped:rounding-before-branch)"]
    assumptions = ["conditions and the decorated function are deterministic and return python floats (a numpy scalar stored as a lagrange_inequality multiplier turns ZeroDivisionError into a silent inf/nan); no NaN in the monitor's clauses",
                   "OverflowError (|c| > 1e154 or h**n overflowing) is outside the model: such operations are skipped and counted",
                   "Lean Float.pow and CPython float.__pow__ call the same libm pow (checked on 300000 inputs: 0 differences)",
                   "coupler.or_ of no penalties (python ValueError at evaluation) is not represented"]
    return framework.finish(PID, tier, seed, t0, proof, run, rule, tb, assumptions, search_more=search_more)


def replay(path):
    """re-execute one stored case (implementation and model) and reprint the verdict for it"""
    data = json.load(open(path))
    case = data.get("case") or {}
    ident = case.get("ident") or {}
    leandrv.ensure_driver()
    if "spec" in case:           # exact replay of the stored case, independent of the generators
        common.import_mystic()
        spec = unjson(case["spec"])
        hist = {}
        line, obs, mon = run_case(spec, hist)
        rep = run_driver([line])[0]
        jc = jcase(spec, line, obs, rep, ident)
        fs = [Finding("correspondence", "penalty/%s/diverges" % spec["kind"], "; ".join(d[:3]), jc) for d in [compare(spec, obs, rep, hist)] if d]
        fs += [Finding("monitor", key, what, jc) for key, what in mon]
    elif "witness" in ident:
        fs = witnesses()
    elif "k" in ident:
        r = run_shard(PID, ident["seed"], ident["shard"], 0, "quick", {"stream": ident["stream"], "only": ident["k"]})
        fs = r["findings"]
    else:
        print("replay: no case identity in %s" % path)
        return 2
    known = {e["class_key"] for e in framework.load_known(PID)}
    bad = [f for f in fs if f["kind"] == "correspondence" or f["class_key"] not in known]
    for f in fs:
        print("%s [%s] %s" % (f["kind"], f["class_key"], f["what"]))
    if bad:
        print("VIOLATION property=%s replay=%s" % (PID, path))
        return 1
    print("replay: property held on the stored case")
    return 0
