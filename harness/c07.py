"""C07 - results depend only on configuration and seed, not on call order or schedule.

Five streams, all on the REAL solvers imported from /repo:
 cfg   correspondence of Model/Config.lean (one function per Set*, footprint table) with abstract_solver.py:
       random sequences of Set* calls (dependent ones, repeated ones, raising ones included) on fresh and on
       already-run solvers of every kind; the observed configuration, the population, the position in the random
       stream and the raised flags are compared with the model; and the MONITOR: every adjacent pair the table
       declares independent is swapped on the real solver (same configuration must result), and sequences the
       table declares pairwise independent are permuted.
 perm  monitor: all / sampled permutations of the configuration calls (initial points included) of complete
       solver specs (harness/trace.py, spec['config_order']) on DE, DE2, Nelder-Mead, Powell -> bit-identical
       traces; permuted re-configuration in the middle of a run.
 live  monitor: a LIVE solver (driven by Step, never terminated) re-configured between two Steps by permuted Set* calls
       (strict ranges switched on / changed / off among them) -> bit-identical continued traces.
 map   monitor + correspondence: DifferentialEvolutionSolver2 under maps that evaluate in a different order /
       parallelism and return results in input order (serial, reversed, shuffled, thread pool, deep-copying, forked
       processes), with costs / penalties that modify their argument in place -> identical trajectories;
       Model/Schedule.lean `step2Proc` replayed with the evaluation order and sharing discipline the map really
       used -> identical states and evaluation log, entry by entry.
 ens   monitor + correspondence: Lattice / Buckshot / Mixed (thorough: Sparsity) ensembles with Nelder-Mead / Powell members
       (nested solver given as a class or as a configured instance), with and without strict ranges, with terminations
       that read the energy history, the population (CandidateRelativeTolerance) or both, members that stop at different
       iterations: run to completion versus Solve(step=True) versus Step loops versus Steps followed by a Solve (step-wise
       or run-to-completion), under the same maps -> identical results AND identical complete member states; the
       control-logic model of the mapped member calls (Model/Schedule.lean `ensMemberStep` / `ensMemberSolve`: `_live`
       flag, deferred decoration, stop test) predicts per ensemble call and member the decorations, iterations and flag.
"""
import sys, os, time, math, json, struct, itertools, pickle, random as _random
import numpy as np
import common, dsl, framework, leandrv, trace, solvergen, solvermodel
from common import case_rng, f2b, fl, fll, jsonable
from framework import Finding

PID = "C07"
MODULE = "MysticVerif.Props.C07"
THEOREMS = [
    "MysticVerif.C07.setters_commute",
    "MysticVerif.C07.config_perm",
    "MysticVerif.C07.config_raises",
    "MysticVerif.C07.config_no_rng",
    "MysticVerif.C07.rng_consumer_amount",
    "MysticVerif.C07.setter_defers_decoration",
    "MysticVerif.C07.live_reconfig_decorates_once",
    "MysticVerif.C07.live_reconfig_perm",
    "MysticVerif.C07.eager_decoration_witness",
    "MysticVerif.C07.limits_new_vs_monitor_witness",
    "MysticVerif.C07.powell_finalize_witness",
    "MysticVerif.C07.two_rng_consumers_witness",
    "MysticVerif.C07.de2_map_independent",
    "MysticVerif.C07.de2_inorder_is_step2",
    "MysticVerif.C07.de2_any_order_eq_de1",
    "MysticVerif.C07.de2_run_map_independent",
    "MysticVerif.C07.de2_counter_agrees",
    "MysticVerif.C07.de2_evaluator_effect_free",
    "MysticVerif.C07.de2_run_effect_free",
    "MysticVerif.C07.de2_uncopied_witness",
    "MysticVerif.C07.trajectory_of_cfg",
    "MysticVerif.C07.trajectory_config_perm",
    "MysticVerif.C07.ensemble_any_schedule",
    "MysticVerif.C07.ensemble_step_eq_solve",
    "MysticVerif.C07.ens_finished_member_untouched",
    "MysticVerif.C07.ens_live_step_eq_solve",
    "MysticVerif.C07.ens_steps_then_solve",
    "MysticVerif.C07.ens_decorates_once",
    "MysticVerif.C07.ens_settled_not_redecorated",
    "MysticVerif.C07.ens_untoggled_witness",
    "MysticVerif.C07.ens_generation0_member_iterated_once",
    "MysticVerif.C07.ens_generations_guard_witness",
]


def bits(x):
    return struct.unpack("<Q", struct.pack("<d", float(x)))[0]


def vec(x):
    return [float(v) for v in np.asarray(x, dtype=float).ravel()]


# =====================================================================================================
# maps: every one returns its results in input order; they differ in evaluation order / parallelism
# =====================================================================================================
class OrderLog:
    """remembers, per map call, the order in which the items were evaluated"""

    def __init__(self):
        self.calls = []


def serial_map(log=None):
    def serial(f, *seqs, **kw):
        items = list(zip(*seqs))
        if log is not None:
            log.calls.append(list(range(len(items))))
        return [f(*a) for a in items]
    return serial


def reversed_map(log=None):
    def rev(f, *seqs, **kw):
        items = list(zip(*seqs)); n = len(items)
        if log is not None:
            log.calls.append(list(reversed(range(n))))
        out = [None] * n
        for i in reversed(range(n)):
            out[i] = f(*items[i])
        return out
    return rev


def shuffled_map(seed, log=None):
    r = _random.Random(seed)     # private generator: the map must not touch the global random source

    def shuf(f, *seqs, **kw):
        items = list(zip(*seqs)); n = len(items)
        order = list(range(n)); r.shuffle(order)
        if log is not None:
            log.calls.append(list(order))
        out = [None] * n
        for i in order:
            out[i] = f(*items[i])
        return out
    return shuf


def deepcopy_map(log=None):
    """the semantics of every process-based / distributed map, in-process: the workers see COPIES of the items"""
    import copy

    def dcp(f, *seqs, **kw):
        items = list(zip(*seqs))
        if log is not None:
            log.calls.append(list(range(len(items))))
        return [f(*copy.deepcopy(a)) for a in items]
    return dcp


def dillcopy_map(log=None):
    """the semantics of a process-based map without the processes: every item AND every result travels through
    dill (what a worker receives / sends back is a reconstruction, closures included), evaluated last to first"""
    import dill

    def dcp(f, *seqs, **kw):
        items = list(zip(*seqs)); n = len(items)
        out = [None] * n
        for i in reversed(range(n)):
            out[i] = dill.loads(dill.dumps(f(*dill.loads(dill.dumps(items[i])))))
        return out
    return dcp


def thread_map(nthreads=3, keep=False):
    """keep=True: one pool for all calls of this map (step-wise ensembles call the map once per Step); `thr.close()`"""
    from multiprocessing.pool import ThreadPool
    pool = []

    def thr(f, *seqs, **kw):
        items = list(zip(*seqs))
        if keep:
            if not pool:
                pool.append(ThreadPool(nthreads))
            return pool[0].map(lambda a: f(*a), items, chunksize=1)
        with ThreadPool(nthreads) as p:
            return p.map(lambda a: f(*a), items, chunksize=1)

    def close():
        while pool:
            pool.pop().terminate()
    thr.close = close
    return thr


def fork_map(nproc=3, use_dill=False):
    """process-based map available offline: fork one child per stripe of the items (round robin), each child
    evaluates its items last-to-first and sends (index, result) pairs back through a pipe"""
    if use_dill:
        import dill
        dumps, loads = dill.dumps, dill.loads
    else:
        dumps, loads = pickle.dumps, pickle.loads

    def frk(f, *seqs, **kw):
        items = list(zip(*seqs)); n = len(items)
        out = [None] * n
        kids = []
        for w in range(min(nproc, n)):
            idx = list(range(w, n, nproc))
            r, wfd = os.pipe()
            pid = os.fork()
            if pid == 0:
                code = 0
                try:
                    os.close(r)
                    try:
                        res = [(i, f(*items[i])) for i in reversed(idx)]
                    except Exception as exc:            # what the worker raised travels back as text
                        res = [("__raised__", "%s: %s" % (type(exc).__name__, exc))]
                        code = 3
                    data = dumps(res)
                    with os.fdopen(wfd, "wb") as fh:
                        fh.write(data)
                except BaseException:
                    code = 3
                finally:
                    os._exit(code)
            os.close(wfd)
            kids.append((pid, r))
        for pid, r in kids:
            with os.fdopen(r, "rb") as fh:
                data = fh.read()
            _, st = os.waitpid(pid, 0)
            if st != 0 or not data:
                why = ""
                try:
                    why = ": %s" % (loads(data)[0][1],) if data else ""
                except Exception:
                    pass
                raise RuntimeError("forked map worker failed (status %r)%s" % (st, why))
            for i, v in loads(data):
                out[i] = v
        return out
    return frk


# =====================================================================================================
# stream `cfg`: Model/Config.lean against the Set* methods
# =====================================================================================================
SOLVER_KIND = {"DE": "de", "DE2": "de", "NM": "abstract", "Powell": "powell", "Lattice": "ensemble", "Buckshot": "ensemble"}


def quad1(x):
    """the cost of the pre-run: hard enough that no solver converges (and Finalizes) within the first three steps,
    so that already-run solvers are live (and Powell carries its energy-history override)"""
    x = [float(v) for v in x]
    if len(x) == 1:
        return (x[0] - 0.3) ** 4 + abs(x[0])
    return float(sum(100.0 * (x[i + 1] - x[i] * x[i]) ** 2 + (1 - x[i]) ** 2 for i in range(len(x) - 1)))


def quad2(x):
    return float(sum((float(v) - 1.0) * (float(v) - 1.0) for v in x))


class Registry:
    """identities of the user objects handed to the solver"""

    def __init__(self):
        self.ids = {}
        self.keep = []

    def add(self, obj, n):
        self.ids[id(obj)] = n
        self.keep.append(obj)
        return obj

    def get(self, obj):
        return self.ids.get(id(obj))


def build_cfg_solver(desc, reg):
    """desc: dict(solver, dim, npop, pre_steps, seed0).  Returns the solver, possibly already run for a few steps."""
    from mystic.solvers import (DifferentialEvolutionSolver, DifferentialEvolutionSolver2, NelderMeadSimplexSolver,
                                PowellDirectionalSolver, LatticeSolver, BuckshotSolver)
    k = desc["solver"]; dim = desc["dim"]
    if k == "DE":
        s = DifferentialEvolutionSolver(dim, desc["npop"])
    elif k == "DE2":
        s = DifferentialEvolutionSolver2(dim, desc["npop"])
    elif k == "NM":
        s = NelderMeadSimplexSolver(dim)
    elif k == "Powell":
        s = PowellDirectionalSolver(dim)
    elif k == "Lattice":
        s = LatticeSolver(dim, nbins=desc["npop"])
    else:
        s = BuckshotSolver(dim, npts=desc["npop"])
    reg.add(s._termination, 90)
    reg.add(quad1, 1); reg.add(quad2, 2)
    if desc["pre_steps"] and SOLVER_KIND[k] != "ensemble":
        _random.seed(desc["seed0"]); np.random.seed(desc["seed0"] % (2 ** 31))
        if k in ("DE", "DE2"):
            s.SetRandomInitialPoints([-2.0] * dim, [3.0] * dim)
        else:
            s.SetInitialPoints([1.5 + 0.25 * i for i in range(dim)])
        for _ in range(desc["pre_steps"]):
            s.Step(quad1)
    return s


def bnd_probe(s):
    """observable class of `_strictbounds`: identity / clips at the bounds / maps inside at random"""
    if not s._useStrictRange:
        # the model claims identity; check on an arbitrary point
        x = [1e6 + i for i in range(s.nDim)]
    else:
        x = [(float(h) + 1.0 + i) if math.isfinite(float(h)) else 1e6 for i, h in enumerate(s._strictMax)]
    st = _random.getstate(); nst = np.random.get_state()
    try:
        y = vec(s._strictbounds(list(x)))
    finally:
        _random.setstate(st); np.random.set_state(nst)
    if y == x:
        return "ident"
    lo = vec(s._strictMin); hi = vec(s._strictMax)
    if len(lo) == len(x) and y == [min(max(a, l), h) for a, l, h in zip(x, lo, hi)]:
        return "clip"
    return "rand"


class DecCounter:
    """how often `_decorate_objective` has run: every decoration stores a NEW wrapped objective in `_cost[0]`
    (SetObjective stores None).  Nothing in /repo is instrumented; the previous objects are kept alive so that
    identities cannot be recycled."""

    def __init__(self, s):
        self.keep = [s._cost[0]]
        self.n = 1 if s._cost[0] is not None else 0

    def update(self, s):
        c = s._cost[0]
        if c is not None and c is not self.keep[-1]:
            self.n += 1
        if c is not self.keep[-1]:
            self.keep.append(c)
        return self.n


def observe(s, reg, rng_states, strings, ndec=0):
    """the configuration of a real solver, printed exactly like Drv/C07.lean `showCfg`"""
    from mystic.monitors import Null
    from mystic.python_map import python_map
    kind = SOLVER_KIND[s.__class__.__name__.replace("DifferentialEvolutionSolver2", "DE2").replace("DifferentialEvolutionSolver", "DE")
                       .replace("NelderMeadSimplexSolver", "NM").replace("PowellDirectionalSolver", "Powell")
                       .replace("LatticeSolver", "Lattice").replace("BuckshotSolver", "Buckshot")]

    def on(v):
        return "none" if v is None else str(int(v))

    def ob(v):
        return "none" if v is None else ("true" if v else "false")

    def bl(v):
        return "true" if v else "false"
    r = s._reducer
    if r is None:
        red = "none"
    elif reg.get(r) is not None:
        red = "(%d true)" % reg.get(r)
    else:
        inner = None
        for c in (getattr(r, "__closure__", None) or ()):
            if reg.get(c.cell_contents) is not None:
                inner = reg.get(c.cell_contents)
        red = "(%d false)" % inner if inner is not None else "(0 false)"

    def mon(m):
        if isinstance(m, Null):
            return "(0 true ())"
        return "(%d false (%s))" % (reg.get(m) or 0, " ".join(str(bits(np.ravel(y)[0])) for y in m._y))

    def lim(v):
        return "none" if v is None else ("star" if isinstance(v, str) else str(int(v)))
    st = s._state
    if st is not None and os.path.basename(st) not in ("a.pkl", "b.pkl"):
        sti = 499      # a restart file SaveSolver() created on its own (tempfile.mkstemp, inside the private work directory)
    else:
        sti = None if st is None else strings.setdefault(os.path.basename(st), 500 + len(strings))
    mp = getattr(s, "_map", python_map)
    mid = 0 if mp is python_map else (reg.get(mp) or 999)
    mcfg = getattr(s, "_mapconfig", {}) or {}
    try:
        pos = rng_states.index(_random.getstate())
    except ValueError:
        pos = 99999          # the global random source is in a state no sequence of uniform() draws leads to
    out = ("(kind %s) (red %s) (pen %s) (con %s) (term %s) (col %s) (smon %s) (emon %s) (eh %s) (sh %s) (us %s) (tight %s) "
           "(clip %s) (smin %s) (smax %s) (bnd %s) (mi %s) (mf %s) (cost %s) (dec %s) (live %s) (si %s) (st %s) (map %d) "
           "(mcfg %d) (sig %s) (pop %s) (rng %d) (ndec %d)") % (
        kind, red, on(reg.get(s._penalty)), on(reg.get(s._constraints)), on(reg.get(s._termination)), bl(s._collapse),
        mon(s._stepmon), mon(s._evalmon), on(None if s._energy_history is None else len(s._energy_history)),
        on(None if s._solution_history is None else len(s._solution_history)), bl(s._useStrictRange),
        ob(s._useTightRange), ob(s._useClipRange), fl(vec(s._strictMin)), fl(vec(s._strictMax)), bnd_probe(s),
        lim(s._maxiter), lim(s._maxfun), on(reg.get(s._cost[1]) if s._cost[1] is not None else None),
        bl(s._cost[0] is not None), bl(s._live), on(s._saveiter), on(sti), mid, int(mcfg.get("tag", 0)),
        bl(s._handle_sigint), fll([vec(p) for p in s.population]), pos, ndec)
    return out


def static_sexp(s):
    be = s.bestEnergy
    try:
        bidx = list(s.popEnergy).index(s.bestEnergy)     # what `_decorate_objective` computes under strict ranges
    except Exception:
        bidx = 0
    return "(ndim %d) (dmin %s) (dmax %s) (best %d) (fcalls %d) (bidx %d)" % (
        s.nDim, fl(vec(s._defaultMin)), fl(vec(s._defaultMax)), bits(np.ravel(be)[0] if be is not None else float("inf")), int(s._fcalls[0]), bidx)


BOOTABLE = ("DE", "DE2", "Powell")      # NelderMead rebuilds its simplex when it decorates; ensembles never decorate

OPKINDS = ["red", "pen", "con", "smon", "emon", "ranges", "limits", "term", "obj", "save", "map", "sig", "init", "rand"]


def gen_cfg_op(rng, desc, j):
    """one Set* call descriptor (JSON-able).  Object identities are derived from the position `j` in the list."""
    dim = desc["dim"]
    kinds = list(OPKINDS)
    if desc["solver"] not in ("DE2", "Lattice", "Buckshot"):
        kinds.remove("map")
    k = rng.choice(kinds + ["ranges", "limits", "smon", "init", "pen", "con"])   # the interesting ones more often
    if desc["solver"] in BOOTABLE and rng.random() < (0.22 if desc["pre_steps"] else 0.08):
        # the prelude of `Step(cost)`: the deferred decoration (mostly with the stored cost: the solver stays "the same run")
        return ["boot", 1 if rng.random() < 0.8 else 2]
    if k == "red":
        return ["red", None if rng.random() < 0.2 else 100 + j, rng.random() < 0.4]
    if k in ("pen", "con"):
        return [k, None if rng.random() < 0.2 else 100 + j]
    if k in ("smon", "emon"):
        c = rng.random()
        if c < 0.1:
            m = None
        elif c < 0.2:
            m = "null"
        elif c < 0.35 and j > 0:
            m = ["reuse", rng.randrange(j)]
        else:
            m = ["new", rng.choice([0, 0, 1, 2, 3])]
        return [k, m, rng.random() < 0.35]
    if k == "ranges":
        c = rng.random()
        if c < 0.1:
            return ["ranges", True, None, None, rng.choice([None, True]), None]
        lo = [common.dyadic(rng, -4, 2, 4) for _ in range(dim)]
        hi = [a + abs(common.dyadic(rng, 0, 4, 4)) + 0.25 for a in lo]
        if c < 0.2 and dim >= 1:
            i = rng.randrange(dim); lo[i], hi[i] = hi[i] + 1.0, lo[i]          # min > max
        elif c < 0.27:
            lo = lo + [0.0]; hi = hi + [1.0]                                    # wrong length
        elif c < 0.33:
            lo = None if rng.random() < 0.5 else lo; hi = None                 # defaults
        tight, clip = rng.choice([(None, None), (None, None), (True, None), (False, None), (True, True), (None, True),
                                  (None, False), (True, False), (False, True), (False, False)])
        return ["ranges", False, lo, hi, tight, clip]
    if k == "limits":
        return ["limits", rng.choice([None, 0, 1, 5, 40]), rng.choice([None, 0, 7, 300]), rng.random() < 0.5]
    if k == "term":
        c = rng.random()
        return ["term", None, False] if c < 0.15 else ["term", 100 + j, c > 0.75]
    if k == "obj":
        return ["obj", rng.choice([1, 1, 2])]
    if k == "save":
        return ["save", rng.choice([None, 1, 5]), rng.choice([None, "a.pkl", "b.pkl"])]
    if k == "map":
        return ["map", 100 + j, rng.choice([0, 0, 3])]
    if k == "sig":
        return ["sig", rng.random() < 0.5]
    if k == "init":
        x0 = [rng.choice([0.0, -0.0, 1.0]) if rng.random() < 0.25 else common.gfloat(rng, 4.0) for _ in range(dim)]
        if rng.random() < 0.1:
            x0 = x0 + [1.0]
        return ["init", x0, rng.choice([0.05, 0.05, 0.5, 1.0, 0.0])]
    lo = [common.gfloat(rng, 4.0) for _ in range(dim)]
    hi = [a + abs(common.gfloat(rng, 3.0)) for a in lo]
    c = rng.random()
    if c < 0.1:
        lo = lo[:-1]
    elif c < 0.2:
        lo, hi = None, None
    return ["rand", lo, hi]


def run_cfg_ops(desc, ops, seed, ids=None):
    """apply the calls to a freshly built real solver. Returns (init_line, op_sexps, final_obs, raised, u).
    ids[pos]: identity index of the objects created by call number pos (default: pos)"""
    from mystic.monitors import Monitor, Null
    import mystic.termination as T
    reg = Registry(); strings = {}
    s = build_cfg_solver(desc, reg)
    _random.seed(seed); np.random.seed(seed % (2 ** 31))
    ref = _random.Random(seed)
    rng_states = []; u = []
    for _ in range(260):
        rng_states.append(ref.getstate()); u.append(ref.random())
    dc = DecCounter(s)
    init = static_sexp(s) + " " + observe(s, reg, rng_states, strings, dc.n)
    objs = {}
    sexps = []; raised = []

    def osx(v):
        return "none" if v is None else str(v)

    def bsx(v):
        return "none" if v is None else ("true" if v else "false")

    def vsx(v):
        return "none" if v is None else fl(v)
    for pos, op in enumerate(ops):
        j = ids[pos] if ids is not None else pos
        k = op[0]
        call = None
        if k == "red":
            f = None if op[1] is None else reg.add((lambda a, b: a + b) if not op[2] else (lambda a: float(np.sum(a))), op[1])
            call = lambda: s.SetReducer(f, arraylike=op[2])
            sx = "(red %s %s)" % (osx(op[1]), bsx(op[2]))
        elif k == "pen":
            f = None if op[1] is None else reg.add(lambda x: 0.0, op[1])
            call = lambda: s.SetPenalty(f)
            sx = "(pen %s)" % osx(op[1])
        elif k == "con":
            f = None if op[1] is None else reg.add(lambda x: x, op[1])
            call = lambda: s.SetConstraints(f)
            sx = "(con %s)" % osx(op[1])
        elif k in ("smon", "emon"):
            m = op[1]
            if m is None:
                mo = None; msx = "none"
            elif m == "null":
                mo = Null(); msx = "(0 true ())"
            elif m[0] == "new":
                mo = Monitor()
                for t in range(m[1]):
                    mo([float(t)], float(1000 * (j + 1) + t))
                reg.add(mo, 100 + j)
                objs[(k, j)] = mo
                msx = "(%d false (%s))" % (100 + j, " ".join(str(bits(y)) for y in mo._y))
            else:
                # the same object again (`current is monitor`); never shared between the two monitor roles
                mo = objs.get((k, m[1]))
                if mo is None:      # the referenced call passed no tracked monitor of this role: a fresh empty one
                    mo = Monitor(); reg.add(mo, 100 + j); objs[(k, j)] = mo
                else:
                    objs[(k, j)] = mo
                msx = "(%d false (%s))" % (reg.get(mo), " ".join(str(bits(np.ravel(y)[0])) for y in mo._y))
            if k == "smon":
                call = lambda: s.SetGenerationMonitor(mo, new=op[2])
            else:
                call = lambda: s.SetEvaluationMonitor(mo, new=op[2])
            sx = "(%s %s %s)" % (k, msx, bsx(op[2]))
        elif k == "ranges":
            _, off, lo, hi, tight, clip = op
            kw = {}
            if tight is not None:
                kw["tight"] = tight
            if clip is not None:
                kw["clip"] = clip
            if off:
                call = lambda: s.SetStrictRanges(False, False, **kw)
            else:
                call = lambda: s.SetStrictRanges(None if lo is None else list(lo), None if hi is None else list(hi), **kw)
            sx = "(ranges %s %s %s %s %s)" % (bsx(off), vsx(lo), vsx(hi), bsx(tight), bsx(clip))
        elif k == "limits":
            call = lambda: s.SetEvaluationLimits(op[1], op[2], new=op[3])
            sx = "(limits %s %s %s)" % (osx(op[1]), osx(op[2]), bsx(op[3]))
        elif k == "term":
            if op[1] is None:
                t = None
            elif op[2]:
                t = reg.add(T.Or(T.VTR(1e-9, -5.0), T.CollapseAt(0.0)), op[1])
            else:
                t = reg.add(T.VTR(1e-9, -5.0), op[1])
            call = lambda: s.SetTermination(t)
            sx = "(term %s %s)" % (osx(op[1]), bsx(op[2]))
        elif k == "obj":
            c = quad1 if op[1] == 1 else quad2
            call = lambda: s.SetObjective(c)
            sx = "(obj %d)" % op[1]
        elif k == "save":
            import tempfile
            fname = None if op[2] is None else os.path.join(tempfile.gettempdir(), op[2])   # cfg_stream points this at a private directory
            call = lambda: s.SetSaveFrequency(op[1], fname)
            sx = "(save %s %s)" % (osx(op[1]), osx(None if op[2] is None else strings.setdefault(op[2], 500 + len(strings))))
        elif k == "map":
            mp = reg.add(serial_map(), op[1])
            kw = {"tag": op[2]} if op[2] else {}
            call = lambda: s.SetMapper(mp, **kw)
            sx = "(map %d %d)" % (op[1], op[2])
        elif k == "sig":
            call = (lambda: s.enable_signal_handler()) if op[1] else (lambda: s.disable_signal_handler())
            sx = "(sig %s)" % bsx(op[1])
        elif k == "init":
            call = lambda: s.SetInitialPoints(list(op[1]), radius=op[2])
            sx = "(init %s %s)" % (fl(op[1]), f2b(op[2]))
        elif k == "rand":
            call = lambda: s.SetRandomInitialPoints(None if op[1] is None else list(op[1]), None if op[2] is None else list(op[2]))
            sx = "(rand %s %s)" % (vsx(op[1]), vsx(op[2]))
        elif k == "boot":
            c = quad1 if op[1] == 1 else quad2
            call = lambda: s._bootstrap_objective(c)        # exactly what Step(cost) does first
            sx = "(boot %d)" % op[1]
        else:
            raise ValueError(op)
        try:
            call()
            raised.append(False)
        except (ValueError, TypeError, NotImplementedError):
            raised.append(True)
        dc.update(s)
        sexps.append(sx)
    final = observe(s, reg, rng_states, strings, dc.n)
    return init, sexps, final, raised, u


def no_ghost(obs):
    """the observed configuration without the decoration counter: the monitors compare what the property talks about
    (configuration, population, random source); HOW OFTEN the objective was wrapped is the model's business"""
    return obs[:obs.rindex(" (ndec ")] if " (ndec " in obs else obs


def first_diff(a, b):
    """name of the first attribute in which two printed configurations differ"""
    pa = common.parse_sexp(a); pb = common.parse_sexp(b)
    for x, y in zip(pa, pb):
        if x != y:
            return x[0] if isinstance(x, list) and x else "?"
    return "length"


def cfg_case(rng, tier):
    solver = rng.choice(["DE", "DE2", "NM", "Powell", "Powell", "Lattice", "Buckshot"])
    desc = {"solver": solver, "dim": rng.randint(1, 3), "npop": rng.randint(4, 6) if solver in ("DE", "DE2") else rng.randint(1, 3),
            "pre_steps": rng.choice([0, 0, 1, 2, 3]), "seed0": rng.randrange(2 ** 31)}
    n = rng.randint(2, 7)
    ops = [gen_cfg_op(rng, desc, j) for j in range(n)]
    if solver in ("DE", "DE2") and desc["pre_steps"] >= 2 and rng.random() < 0.5:
        # a live stochastic solver re-configured between two iterations: valid strict ranges somewhere, the deferred
        # decoration (which now draws random numbers) somewhere after them
        dim = desc["dim"]
        lo = [common.dyadic(rng, -2, 1, 4) for _ in range(dim)]
        hi = [a + abs(common.dyadic(rng, 0, 3, 4)) + 0.25 for a in lo]
        i = rng.randint(0, len(ops) - 1)
        ops[i] = ["ranges", False, lo, hi, rng.choice([None, True]), rng.choice([None, None, True])]
        ops.insert(rng.randint(i + 1, len(ops)), ["boot", 1])
    seed = rng.randrange(2 ** 31)
    return desc, ops, seed


def cfg_stream(seed, shard, ncases, tier, hist, findings, samples, ks=None):
    """a live Powell solver may dump itself from inside a finalising Set* (SaveSolver): all restart files of this
    stream go to a private directory that is removed afterwards"""
    import tempfile, shutil
    work = tempfile.mkdtemp(prefix="c07_")
    old = tempfile.tempdir
    tempfile.tempdir = work
    try:
        return _cfg_stream(seed, shard, ncases, tier, hist, findings, samples, ks)
    finally:
        tempfile.tempdir = old
        shutil.rmtree(work, ignore_errors=True)


def _cfg_stream(seed, shard, ncases, tier, hist, findings, samples, ks=None):
    cases = []; lines = []
    for k in (range(ncases) if ks is None else ks):
        rng = case_rng(PID + "/cfg", seed, shard, k)
        desc, ops, sd = cfg_case(rng, tier)
        meta = {"stream": "cfg", "seed": seed, "shard": shard, "k": k, "tier": tier, "solver": desc, "ops": ops, "rng_seed": sd}
        try:
            init, sexps, final, raised, u = run_cfg_ops(desc, ops, sd)
        except Exception as exc:
            findings.append(Finding("monitor", "cfg/%s/unexpected-exception/%s" % (desc["solver"], type(exc).__name__),
                                    "a Set* call raised %r" % (exc,), meta))
            continue
        line = "C07 cfg %s (ops (%s)) (u %s)" % (init, " ".join(sexps), fl(u))
        cases.append((meta, desc, ops, sd, final, raised, sexps, rng))
        lines.append(line)
    replies = leandrv.run_driver(lines) if lines else []
    nontrivial = 0
    for (meta, desc, ops, sd, final, raised, sexps, rng), line, rep in zip(cases, lines, replies):
        r = common.parse_reply(rep)
        case = dict(meta); case["request"] = line[:6000]; case["model"] = rep[:3000]; case["impl"] = final
        if r[0] != "ok":
            findings.append(Finding("correspondence", "cfg/model-%s" % r[0], "model replied %r" % (rep[:200],), case)); continue
        mcfg = rep[rep.index("cfg=(") + 5: rep.index(") raised=")]
        kind = SOLVER_KIND[desc["solver"]]
        hist["cfg:%s:%s" % (desc["solver"], "run" if desc["pre_steps"] and kind != "ensemble" else "fresh")] = \
            hist.get("cfg:%s:%s" % (desc["solver"], "run" if desc["pre_steps"] and kind != "ensemble" else "fresh"), 0) + 1
        for op, rz in zip(ops, raised):
            hist["cfg-op:%s%s" % (op[0], ":raised" if rz else "")] = hist.get("cfg-op:%s%s" % (op[0], ":raised" if rz else ""), 0) + 1
        for op in ops:
            if op[0] == "boot":
                hist["cfg-boot:%s:%s" % (desc["solver"], "run" if desc["pre_steps"] else "fresh")] = \
                    hist.get("cfg-boot:%s:%s" % (desc["solver"], "run" if desc["pre_steps"] else "fresh"), 0) + 1
        if int(r[1].get("bootdecs", 0)):
            hist["cfg-boot:decorated"] = hist.get("cfg-boot:decorated", 0) + int(r[1]["bootdecs"])
        if int(r[1].get("bootdraws", 0)):
            hist["cfg-boot:random-draws"] = hist.get("cfg-boot:random-draws", 0) + int(r[1]["bootdraws"])
        mraised = [t == "true" for t in r[1]["raised"]]
        if mcfg != final:
            fld = first_diff(mcfg, final)
            findings.append(Finding("correspondence", "cfg/%s/model-diverges/%s" % (kind, fld),
                                    "after %s: attribute %s differs\n model %s\n impl  %s" % (" ".join(sexps), fld, mcfg[:700], final[:700]), case))
        elif mraised != raised:
            findings.append(Finding("correspondence", "cfg/%s/model-diverges/raised" % kind,
                                    "raised flags model=%r impl=%r for %s" % (mraised, raised, " ".join(sexps)), case))
        # the monitor below runs on the real solver alone: a broken tie to the model must not mask a failing input
        adj = [int(t) for t in r[1]["adj"]]
        pw = (r[1]["pw"] == "true")
        # ---- monitor: swap adjacent calls the table declares independent (in the state they are made in), on the real solver
        swaps = list(adj)
        rng.shuffle(swaps)
        did = False
        for i in swaps[:2]:
            o2 = list(ops); o2[i], o2[i + 1] = o2[i + 1], o2[i]
            # a `reuse` reference must keep pointing at the same call
            if any(op[0] in ("smon", "emon") and isinstance(op[1], list) and op[1][0] == "reuse" for op in ops):
                break
            try:
                _, sx2, final2, raised2, _ = run_cfg_ops_renumbered(desc, ops, [*range(i), i + 1, i, *range(i + 2, len(ops))], sd)
            except Exception as exc:
                findings.append(Finding("monitor", "cfg/%s/swap/unexpected-exception" % kind, "%r" % (exc,), case)); continue
            did = True
            hist["cfg-swap:%s-%s" % tuple(sorted((ops[i][0], ops[i + 1][0])))] = hist.get("cfg-swap:%s-%s" % tuple(sorted((ops[i][0], ops[i + 1][0]))), 0) + 1
            if "(live true)" in line:
                hist["cfg-swap:on-live-solver"] = hist.get("cfg-swap:on-live-solver", 0) + 1
            if no_ghost(final2) != no_ghost(final):
                fld = first_diff(final, final2)
                c2 = dict(case); c2["swapped"] = [i, i + 1]; c2["impl_swapped"] = final2
                findings.append(Finding("monitor", "cfg/%s/swap/%s-%s/%s" % (kind, ops[i][0], ops[i + 1][0], fld),
                                        "calls %s and %s are independent by the footprint table but the real solver's %s depends on their order"
                                        % (sexps[i], sexps[i + 1], fld), c2))
            rz = list(raised); rz[i], rz[i + 1] = rz[i + 1], rz[i]
            if raised2 != rz:
                c2 = dict(case); c2["swapped"] = [i, i + 1]
                findings.append(Finding("monitor", "cfg/%s/swap/%s-%s/raised" % (kind, ops[i][0], ops[i + 1][0]),
                                        "whether %s / %s raise depends on their order" % (sexps[i], sexps[i + 1]), c2))
        if pw and len(ops) >= 3 and not any(op[0] in ("smon", "emon") and isinstance(op[1], list) and op[1][0] == "reuse" for op in ops):
            perm = list(range(len(ops))); rng.shuffle(perm)
            try:
                _, _, final3, raised3, _ = run_cfg_ops_renumbered(desc, ops, perm, sd)
                hist["cfg-perm:pairwise-independent"] = hist.get("cfg-perm:pairwise-independent", 0) + 1
                did = True
                if no_ghost(final3) != no_ghost(final):
                    fld = first_diff(final, final3)
                    c2 = dict(case); c2["perm"] = perm; c2["impl_permuted"] = final3
                    findings.append(Finding("monitor", "cfg/%s/perm/%s" % (kind, fld),
                                            "pairwise independent calls %s applied in order %r give a different %s" % (" ".join(sexps), perm, fld), c2))
            except Exception as exc:
                findings.append(Finding("monitor", "cfg/%s/perm/unexpected-exception" % kind, "%r" % (exc,), case))
        if did and any(not z for z in raised):
            nontrivial += 1
        if len(samples) < 1 and did:
            samples.append(case)
    return len(cases), nontrivial, len(lines)


def run_cfg_ops_renumbered(desc, ops, order, seed):
    """apply the calls in the given order; object identities stay attached to the ORIGINAL positions"""
    return run_cfg_ops(desc, [ops[j] for j in order], seed, ids=list(order))


# =====================================================================================================
# stream `perm`: permutations of the configuration calls of complete solver specs -> identical traces
# =====================================================================================================
def canon_trace(rec):
    out = []
    for sn in rec.snaps:
        d = {k: v for k, v in sn.items() if k != "pre"}
        out.append(json.dumps(jsonable(d), sort_keys=True))
    out.append(json.dumps(jsonable({"cost": rec.cost_calls, "trials": rec.trials, "cb": rec.cb_calls, "con": rec.con_calls,
                                    "pen": rec.pen_calls, "ls": rec.linesearch}), sort_keys=True))
    return out


def run_ordered(spec, seed, order, reconf=None, reorder=None):
    """the real solver configured by the calls named in `order` (in that order), then driven through spec['ops'];
    reconf = (k, items): after op number k the calls `items` are made in the order `reorder`"""
    from mystic.monitors import Monitor
    rec = trace.Recorder()
    prob = trace.Problem(spec, rec)
    _random.seed(seed); np.random.seed(seed % (2 ** 31))
    s = trace.build_solver(spec, prob)
    if spec["solver"] in ("DE", "DE2"):
        s.strategy = spec.get("strategy", "Best1Bin")
        s.scale = spec.get("F", 0.8); s.probability = spec.get("CR", 0.9)
    for item in order:
        if item == "init":
            if spec["solver"] in ("DE", "DE2"):
                lo, hi = spec["init_box"]
                s.SetRandomInitialPoints(list(lo), list(hi))
            else:
                s.SetInitialPoints(list(spec["x0"]))
        elif item == "evalmon":
            s.SetEvaluationMonitor(Monitor())
        elif item == "stepmon":
            s.SetGenerationMonitor(Monitor())
        elif item == "mapper":
            s.SetMapper(serial_map())
        else:
            trace.apply_config(s, spec, prob, which=[item])
    rec.init_population = [vec(p) for p in s.population]
    kw = {"callback": prob.callback_fn}
    with trace.patched(rec):
        for n, op in enumerate(spec["ops"]):
            if reconf is not None and n == reconf[0]:
                for item in reorder:
                    val = reconf[1][item]
                    if item == "penalty":
                        s.SetPenalty(prob.penalty_fn(val))
                    elif item == "constraints":
                        s.SetConstraints(prob.constraints_fn(val, prob.inplace))
                    elif item == "limits":
                        s.SetEvaluationLimits(val[0], val[1])
                    elif item == "termination":
                        s.SetTermination(trace.make_termination(val))
            ret = s.Step(prob.cost_fn, **kw) if op[0] == "step" else s.Solve(prob.cost_fn, **kw)
            rec.snaps.append(trace.snapshot(s, rec, op, ret))
    return rec


def perm_spec(rng, tier):
    solver = rng.choice(["DE", "DE2", "NM", "Powell"])
    spec = solvergen.gen_spec(rng, solver=solver, maxdim=3, nsteps=(3, 8 if tier == "quick" else 14), flavour=rng.choice(["steps", "steps", "solve"]))
    if spec["flavour"] == "solve":
        spec["ops"] = [("solve",)]
    dim = spec["dim"]
    center = spec.get("x0") or [0.5 * (a + b) for a, b in zip(*spec["init_box"])]
    # complete the configuration: six calls are always present
    if not spec.get("ranges"):
        lo, hi, bk = solvergen.gen_box(rng, dim, center, rng.choice(["finite", "finite", "onesided", "integer"]))
        tight, clip = rng.choice([(None, None), (None, None), (True, None), (None, True)])
        spec["ranges"] = (lo, hi, tight, clip); spec["box_kind"] = bk
    if spec.get("constraints") is None:
        spec["constraints"] = solvergen.gen_constraints(rng, dim, (spec["ranges"][0], spec["ranges"][1]))
        spec["inplace"] = rng.random() < 0.5
    if spec.get("penalty") is None:
        spec["penalty"] = solvergen.gen_penalty(rng, dim)
    if spec.get("limits") is None:
        spec["limits"] = (rng.choice([None, 3, 5, 8, 20]), rng.choice([None, 20, 50, 200]))
    if spec.get("termination") is None:
        spec["termination"] = ("COG", 1e-6, 3)
    if spec["flavour"] == "solve" and spec["limits"][0] is None:
        spec["limits"] = (rng.choice([5, 8, 12]), spec["limits"][1])
    return spec


BASE_ITEMS = ["ranges", "constraints", "penalty", "limits", "termination", "evalmon"]


def perm_stream(seed, shard, ncases, tier, hist, findings, samples, ks=None):
    evals = 0; nontrivial = 0
    for k in (range(ncases) if ks is None else ks):
        rng = case_rng(PID + "/perm", seed, shard, k)
        spec = perm_spec(rng, tier)
        sd = rng.randrange(2 ** 31)
        items = list(BASE_ITEMS)
        extra = []
        if spec.get("reducer"):
            extra.append("reducer")
        if rng.random() < 0.5:
            extra.append("stepmon")
        if spec["solver"] == "DE2" and rng.random() < 0.4:
            extra.append("mapper")
        exhaustive = (tier == "thorough" and k % 2 == 0)
        if exhaustive:
            # all 720 orders of the six base calls (initial points first, extras last)
            orders = [["init"] + list(p) + extra for p in itertools.permutations(items)]
        else:
            full = items + extra + ["init"]
            orders = []
            for _ in range(24):
                p = list(full); rng.shuffle(p); orders.append(p)
        meta = {"stream": "perm", "seed": seed, "shard": shard, "k": k, "tier": tier, "spec": spec, "rng_seed": sd}
        base_order = ["init"] + items + extra
        try:
            base = canon_trace(run_ordered(spec, sd, base_order))
        except Exception as exc:
            hist["perm:raised:%s" % type(exc).__name__] = hist.get("perm:raised:%s" % type(exc).__name__, 0) + 1
            continue
        evals += 1
        ran = sum(1 for t in base[:-1] if json.loads(t)["n_cb"] > 0)
        tag = "perm:%s:%s%s" % (spec["solver"], "all720" if exhaustive else "sample24", ":" + "+".join(extra) if extra else "")
        hist[tag] = hist.get(tag, 0) + 1
        bad = None
        for o in orders:
            try:
                t = canon_trace(run_ordered(spec, sd, o))
            except Exception as exc:
                bad = (o, "raised %r" % (exc,)); break
            hist["perm-runs"] = hist.get("perm-runs", 0) + 1
            if t != base:
                where = next((i for i, (a, b) in enumerate(zip(base, t)) if a != b), min(len(base), len(t)))
                what = "trace differs at op %d" % where
                if where < len(base) - 1 and where < len(t) - 1:
                    da = json.loads(base[where]); db = json.loads(t[where])
                    what += ": " + ", ".join("%s %r vs %r" % (kk, da[kk], db[kk]) for kk in da if da[kk] != db.get(kk))[:500]
                bad = (o, what); break
        if bad:
            c = dict(meta); c["order"] = bad[0]; c["base_order"] = base_order
            findings.append(Finding("monitor", "perm/%s/config-order" % spec["solver"],
                                    "configuration calls in order %r instead of %r: %s" % (bad[0], base_order, bad[1]), c))
        if json.loads(base[-1])["cost"] and len(base) > 1:
            nontrivial += 1 if len(json.loads(base[-1])["cost"]) >= 3 else 0
        # ---- re-configuration in the middle of a run, all 24 orders of four independent calls
        if spec["flavour"] == "steps" and len(spec["ops"]) >= 4 and k % 2 == 1:
            cut = rng.randint(1, len(spec["ops"]) - 2)
            vals = {"penalty": solvergen.gen_penalty(rng, spec["dim"]),
                    "constraints": solvergen.gen_constraints(rng, spec["dim"], (spec["ranges"][0], spec["ranges"][1])),
                    "limits": (rng.choice([None, 4, 9, 30]), rng.choice([None, 15, 60, 300])),
                    "termination": rng.choice([("VTR", 1e-4, 0.0), ("COG", 1e-8, 2), ("never",)])}
            names = ["penalty", "constraints", "limits", "termination"]
            try:
                b2 = canon_trace(run_ordered(spec, sd, base_order, (cut, vals), names))
            except Exception as exc:
                hist["perm:reconf-raised:%s" % type(exc).__name__] = hist.get("perm:reconf-raised:%s" % type(exc).__name__, 0) + 1
                continue
            hist["perm-reconf:%s" % spec["solver"]] = hist.get("perm-reconf:%s" % spec["solver"], 0) + 1
            for p in itertools.permutations(names):
                try:
                    t = canon_trace(run_ordered(spec, sd, base_order, (cut, vals), list(p)))
                except Exception as exc:
                    t = ["raised %r" % (exc,)]
                hist["perm-runs"] = hist.get("perm-runs", 0) + 1
                if t != b2:
                    where = next((i for i, (a, b) in enumerate(zip(b2, t)) if a != b), min(len(b2), len(t)))
                    c = dict(meta); c["reconf"] = {"after_op": cut, "values": vals, "order": list(p)}
                    findings.append(Finding("monitor", "perm/%s/reconfig-order" % spec["solver"],
                                            "re-configuration after op %d in order %r instead of %r: trace differs at op %d" % (cut, list(p), names, where), c))
                    break
        if len(samples) < 1:
            samples.append({"stream": "perm", "spec": spec, "orders_checked": len(orders), "iterations_ran": ran})
    return evals, nontrivial


# =====================================================================================================
# stream `live`: permuted Set* calls on a LIVE solver (between two Steps, no stop in between) -> identical
# continued trajectories.  What is at stake: `_update_objective` only records + Finalizes, the objective is
# re-decorated ONCE by the next Step; under strict ranges a decoration clips the population and draws random numbers,
# so a Set* that decorated at once would make the trajectory depend on how many / which calls follow SetStrictRanges.
# =====================================================================================================
def apply_live_item(s, prob, item, val):
    from mystic.monitors import Monitor
    if item == "ranges":
        if val is None:
            s.SetStrictRanges(False, False)
        else:
            lo, hi, tight, clip = val
            kw = {}
            if tight is not None:
                kw["tight"] = tight
            if clip is not None:
                kw["clip"] = clip
            s.SetStrictRanges(list(lo), list(hi), **kw)
    elif item == "penalty":
        s.SetPenalty(prob.penalty_fn(val))
    elif item == "constraints":
        s.SetConstraints(prob.constraints_fn(val, prob.inplace))
    elif item == "limits":
        s.SetEvaluationLimits(val[0], val[1])
    elif item == "termination":
        s.SetTermination(trace.make_termination(val))
    elif item == "evalmon":
        s.SetEvaluationMonitor(Monitor())
    elif item == "stepmon":
        s.SetGenerationMonitor(Monitor())
    elif item == "reducer":
        s.SetReducer((lambda a, b: a + b) if val == "sum" else (lambda a, b: a if a >= b else b))
    else:
        raise ValueError(item)


def run_live(spec, seed, plan, orders):
    """plan: list of ('steps', n) | ('block', {item: value}); orders[j]: order of the items of the j-th block.
    Returns (recorder, [was the solver live when block j started])"""
    rec = trace.Recorder()
    prob = trace.Problem(spec, rec)
    _random.seed(seed); np.random.seed(seed % (2 ** 31))
    s = trace.build_solver(spec, prob)
    if spec["solver"] in ("DE", "DE2"):
        s.strategy = spec.get("strategy", "Best1Bin")
        s.scale = spec.get("F", 0.8); s.probability = spec.get("CR", 0.9)
        lo, hi = spec["init_box"]
        s.SetRandomInitialPoints(list(lo), list(hi))
    else:
        s.SetInitialPoints(list(spec["x0"]))
    trace.apply_config(s, spec, prob)
    rec.init_population = [vec(p) for p in s.population]
    kw = {"callback": prob.callback_fn}
    live = []; dcs = []; j = 0
    dc = None
    with trace.patched(rec):
        for what, arg in plan:
            if what == "steps":
                for _ in range(arg):
                    ret = s.Step(prob.cost_fn, **kw)
                    if dc is None:
                        dc = DecCounter(s)
                    dc.update(s)
                    rec.snaps.append(trace.snapshot(s, rec, ("step",), ret))
            else:
                live.append(bool(s._live))
                n0 = dc.n if dc is not None else 0
                for item in orders[j]:
                    apply_live_item(s, prob, item, arg[item])
                    if dc is not None:
                        dc.update(s)
                dcs.append((dc.n if dc is not None else 0) - n0)
                j += 1
    rec.block_decorations = dcs
    return rec, live


def live_case(rng, tier):
    solver = rng.choice(["DE", "DE2", "DE", "DE2", "DE", "DE2", "NM", "Powell"])
    spec = solvergen.gen_spec(rng, solver=solver, maxdim=3, nsteps=(2, 4), flavour="steps")
    dim = spec["dim"]
    # the run must still be live when it is re-configured: nothing may stop it before
    spec["termination"] = ("never",)
    spec["limits"] = (1000, 100000)
    if rng.random() < 0.55:            # strict ranges off at first: switching them on in mid-run changes the NUMBER of draws
        spec.pop("ranges", None); spec.pop("box_kind", None)
    center = spec.get("x0") or [0.5 * (a + b) for a, b in zip(*spec["init_box"])]
    plan = [("steps", rng.randint(2, 5))]
    for b in range(2 if rng.random() < 0.3 else 1):
        vals = {}
        box = (spec["ranges"][0], spec["ranges"][1]) if spec.get("ranges") else None
        if rng.random() < 0.8:
            if box is not None and rng.random() < 0.15:
                vals["ranges"] = None; box = None
            else:
                lo, hi, _ = solvergen.gen_box(rng, dim, center, rng.choice(["finite", "finite", "onesided", "integer"]))
                tight, clip = rng.choice([(None, None), (None, None), (True, None), (None, True)])
                vals["ranges"] = (lo, hi, tight, clip); box = (lo, hi)
        pool = ["penalty", "constraints", "limits", "termination", "evalmon", "reducer"] + ([] if solver == "Powell" else ["stepmon"])
        rng.shuffle(pool)
        for item in pool[:rng.randint(2, 4)]:
            if item == "penalty":
                vals[item] = solvergen.gen_penalty(rng, dim)
            elif item == "constraints":
                vals[item] = solvergen.gen_constraints(rng, dim, box)
            elif item == "limits":
                vals[item] = (rng.choice([1000, 500, 2000]), rng.choice([100000, 50000]))
            elif item == "termination":
                vals[item] = rng.choice([("never",), ("VTR", 1e-9, -1000.0)])
            elif item == "reducer":
                vals[item] = spec.get("reducer") or rng.choice(["sum", "max"])
            else:
                vals[item] = True
        plan.append(("block", vals))
        plan.append(("steps", rng.randint(2, 5 if tier == "quick" else 10)))
    return spec, plan


def live_stream(seed, shard, ncases, tier, hist, findings, samples, ks=None):
    evals = 0; nontrivial = 0
    for k in (range(ncases) if ks is None else ks):
        rng = case_rng(PID + "/live", seed, shard, k)
        spec, plan = live_case(rng, tier)
        sd = rng.randrange(2 ** 31)
        blocks = [arg for what, arg in plan if what == "block"]
        base_orders = [list(b.keys()) for b in blocks]
        meta = {"stream": "live", "seed": seed, "shard": shard, "k": k, "tier": tier, "spec": spec, "plan": plan, "rng_seed": sd}
        try:
            rec0, live = run_live(spec, sd, plan, base_orders)
            base = canon_trace(rec0)
        except Exception as exc:
            hist["live:raised:%s" % type(exc).__name__] = hist.get("live:raised:%s" % type(exc).__name__, 0) + 1
            continue
        evals += 1
        tag = "live:%s:%s%s" % (spec["solver"], "live" if all(live) else "stopped", ":ranges" if any("ranges" in b for b in blocks) else "")
        hist[tag] = hist.get(tag, 0) + 1
        if all(live) and len(json.loads(base[-1])["cost"]) >= 3:
            nontrivial += 1
        for item in set(i for b in blocks for i in b):
            hist["live-item:%s" % item] = hist.get("live-item:%s" % item, 0) + 1
        if any(rec0.block_decorations):
            # a Set* call built a new decorated objective at once: not a violation by itself (the trajectories decide),
            # reported by the correspondence of the cfg stream (attribute ndec); counted here
            hist["live:set-call-decorated"] = hist.get("live:set-call-decorated", 0) + 1
        # orders: all permutations of a block when there are at most 24, else 24 sampled; the other blocks in base order
        trials = []
        for j, b in enumerate(blocks):
            names = list(b.keys())
            if math.factorial(len(names)) <= 24:
                perms = [list(p) for p in itertools.permutations(names)][1:]
            else:
                perms = [list(reversed(names))] + [names[i:] + names[:i] for i in range(1, len(names))]
                while len(perms) < (24 if tier == "thorough" else 10):
                    p = list(names); rng.shuffle(p); perms.append(p)
            for p in perms:
                o = [list(x) for x in base_orders]; o[j] = p
                trials.append(o)
        for o in trials:
            try:
                t = canon_trace(run_live(spec, sd, plan, o)[0])
            except Exception as exc:
                t = ["raised %r" % (exc,)]
            hist["live-runs"] = hist.get("live-runs", 0) + 1
            if t != base:
                where = next((i for i, (a, b) in enumerate(zip(base, t)) if a != b), min(len(base), len(t)))
                what = "trace differs at step %d" % where
                if where < len(base) - 1 and where < len(t) - 1:
                    da = json.loads(base[where]); db = json.loads(t[where])
                    what += ": " + ", ".join("%s %r vs %r" % (kk, da[kk], db[kk]) for kk in da if da[kk] != db.get(kk))[:500]
                c = dict(meta); c["orders"] = o; c["base_orders"] = base_orders
                findings.append(Finding("monitor", "live/%s/reconfig-order" % spec["solver"],
                                        "live solver re-configured between two Steps by the calls %r instead of %r (same settings): %s"
                                        % (o, base_orders, what), c))
                break
        if len(samples) < 1 and all(live):
            samples.append({"stream": "live", "spec": spec, "plan": plan, "orders_checked": len(trials) + 1})
    return evals, nontrivial


# =====================================================================================================
# stream `map`: DE2 under different maps -> identical trajectories; model replay with the real evaluation order
# =====================================================================================================
SNAP_KEYS = ("ret", "population", "popEnergy", "bestSolution", "bestEnergy", "evaluations", "generations", "stepmon_x",
             "stepmon_y", "maxiter", "maxfun", "live", "n_stepmon", "n_cb", "n_con", "n_trials")


DIRTY_KINDS = ("abs", "sort", "clamp")


def dirty_apply(kind, x):
    """what a "tidying" user function does to the vector it is handed, IN PLACE (list or ndarray);
    mirrored by Drv/C07.lean `dirtyOf`"""
    if kind == "abs":                 # fold onto the non-negative orthant
        for i in range(len(x)):
            x[i] = abs(x[i])
    elif kind == "sort":              # symmetric objective: canonical order
        x[:] = sorted(x)
    elif kind == "clamp":             # keep the model inside its domain of validity
        for i in range(len(x)):
            if x[i] < -1.0:
                x[i] = -1.0
            elif x[i] > 1.0:
                x[i] = 1.0


class DirtyProblem(trace.Problem):
    """user functions that modify their argument in place before evaluating (spec['dirty'] = {'cost': kind|None,
    'pen': kind|None}).  The recorder keeps the vector as it was AT THE CALL and the value returned."""

    def cost(self, x):
        # same as trace.Problem.cost, except that the vector is modified in place first and the record keeps the
        # vector as it was at the call (one append per call: the thread-pool map calls this concurrently)
        x0 = vec(x)
        dirty_apply((self.spec.get("dirty") or {}).get("cost"), x)
        xv = vec(x)
        kind, e = self.cost_expr
        if kind == "scalar":
            y = dsl.ev(e, xv)
        else:
            y = np.array([dsl.ev(t, xv) for t in e])
        s = self.solver
        box = None
        if s is not None and s._useStrictRange:
            box = (vec(s._strictMin), vec(s._strictMax))
        self.rec.cost_calls.append((x0, y if kind == "scalar" else [float(t) for t in y]))
        self.rec.box_at_call.append(box)
        return y

    def penalty_fn(self, expr):
        kind = (self.spec.get("dirty") or {}).get("pen")

        def penalty(x):
            x0 = vec(x)
            dirty_apply(kind, x)
            p = dsl.ev(expr, vec(x))
            self.rec.pen_calls.append((x0, p))
            return p
        return penalty


def run_de2(spec, seed, mapper):
    """returns (list of reduced snapshots, recorder).  mapper None = the built-in python_map"""
    rec = trace.Recorder()
    prob = DirtyProblem(spec, rec) if spec.get("dirty") else trace.Problem(spec, rec)
    _random.seed(seed); np.random.seed(seed % (2 ** 31))
    s = trace.build_solver(spec, prob)
    s.strategy = spec.get("strategy", "Best1Bin")
    s.scale = spec.get("F", 0.8); s.probability = spec.get("CR", 0.9)
    lo, hi = spec["init_box"]
    s.SetRandomInitialPoints(list(lo), list(hi))
    trace.apply_config(s, spec, prob)
    if mapper is not None:
        s.SetMapper(mapper)
    rec.init_population = [vec(p) for p in s.population]
    kw = {"callback": prob.callback_fn}
    out = []
    with trace.patched(rec):
        for op in spec["ops"]:
            pre = {"n_cb": len(rec.cb_calls), "n_cost_calls": len(rec.cost_calls)}
            ret = s.Step(prob.cost_fn, **kw) if op[0] == "step" else s.Solve(prob.cost_fn, **kw)
            sn = trace.snapshot(s, rec, op, ret)
            sn["pre"] = pre
            rec.snaps.append(sn)
            d = {k: sn[k] for k in SNAP_KEYS}
            d["n_evalmon"] = sn["n_evalmon"]; d["n_cost_calls"] = sn["n_cost_calls"]
            out.append(d)
    rng_after = _random.getstate()
    return out, rec, rng_after


def de2map_request(spec, rec, orders, shared=True):
    """`C07 de2map` request from a recorded run whose map logged its evaluation orders (one per map call);
    shared: did the workers receive the trial vectors themselves (in-process map) or copies"""
    if not solvermodel.modelable(spec):
        return None
    snaps = [sn for sn in rec.snaps if sn["n_cb"] > sn["pre"]["n_cb"] or sn["n_cost_calls"] > sn["pre"]["n_cost_calls"]]
    if not snaps or len(orders) != len(snaps):
        return None
    npop = len(rec.init_population)
    gens = {}
    for g, cand, t in rec.trials:
        gens.setdefault(g, []).append(t)
    groups = [gens[g] for g in sorted(gens)]
    if len(groups) != len(snaps) - 1 or any(len(g) != npop for g in groups):
        return None
    d = spec.get("dirty") or {}
    line = "C07 de2map %s (pop %s) (trials (%s)) (orders (%s)) (dirty (%s %s)) (shared (%s))" % (
        solvermodel.setup_sexp(spec), fll(rec.init_population), " ".join(fll(g) for g in groups),
        " ".join(common.nl(o) for o in orders), d.get("cost") or "none", d.get("pen") or "none",
        " ".join("true" if shared else "false" for _ in orders))
    return line, snaps


def compare_de2map(reply, snaps, rec):
    steps, r = solvermodel.parse_steps(reply)
    if steps is None:
        return "model replied %r" % (reply[:200],)
    if len(steps) != len(snaps):
        return "model ran %d generations, implementation %d" % (len(steps), len(snaps))
    for k, (st, sn) in enumerate(zip(steps, snaps)):
        mpop = [solvermodel.fvec(p) for p in st["pop"]]
        if len(mpop) != len(sn["population"]) or not all(common.same_vec(a, b) for a, b in zip(mpop, sn["population"])):
            return "generation %d: population differs" % k
        if not common.same_vec(solvermodel.fvec(st["popE"]), sn["popEnergy"]):
            return "generation %d: popEnergy model=%r impl=%r" % (k, solvermodel.fvec(st["popE"]), sn["popEnergy"])
        if not common.same_vec(solvermodel.fvec(st["best"]), sn["bestSolution"]) or not common.same_float(common.b2f(st["bestE"]), sn["bestEnergy"]):
            return "generation %d: best differs" % k
        if int(st["nlog"]) != sn["n_cost_calls"]:
            return "generation %d: cost calls model=%s impl=%d" % (k, st["nlog"], sn["n_cost_calls"])
    # the evaluation log, entry by entry, in the order the map really evaluated
    mlog = r[1]["log"]
    if len(mlog) != len(rec.cost_calls):
        return "evaluation log length model=%d impl=%d" % (len(mlog), len(rec.cost_calls))
    for n, (m, (x, y)) in enumerate(zip(mlog, rec.cost_calls)):
        yy = y if not isinstance(y, list) else None
        if not common.same_vec(solvermodel.fvec(m[0]), x):
            return "evaluation %d: model evaluated %r, implementation %r" % (n, solvermodel.fvec(m[0]), x)
        if yy is not None and not common.same_float(common.b2f(m[1]), yy):
            return "evaluation %d: cost model=%r impl=%r" % (n, common.b2f(m[1]), yy)
    return None


def _dirty_changes(dirty, x):
    y = list(x)
    dirty_apply(dirty.get("cost") or dirty.get("pen"), y)
    return y != list(x)


def map_stream(seed, shard, ncases, tier, hist, findings, samples, ks=None):
    evals = 0; nontrivial = 0
    lines = []; pending = []
    for k in (range(ncases) if ks is None else ks):
        rng = case_rng(PID + "/map", seed, shard, k)
        spec = solvergen.gen_spec(rng, solver="DE2", maxdim=4, nsteps=(3, 9 if tier == "quick" else 20),
                                  flavour=rng.choice(["steps", "steps", "steps", "solve"]))
        if spec["flavour"] == "solve":
            spec["ops"] = [("solve",)]
            if spec.get("limits") is None or spec["limits"][0] is None:
                spec["limits"] = (rng.choice([4, 8, 15]), (spec.get("limits") or (None, None))[1])
        sd = rng.randrange(2 ** 31)
        if rng.random() < 0.6:
            # user functions that tidy up their argument IN PLACE: whether the write reaches the solver's own trial
            # vector must not depend on the map (in-process maps hand over the object, process maps a copy)
            dk = {"cost": rng.choice(DIRTY_KINDS) if rng.random() < 0.8 else None}
            dk["pen"] = rng.choice(DIRTY_KINDS) if (spec.get("penalty") is not None and (dk["cost"] is None or rng.random() < 0.3)) else None
            if dk["cost"] or dk["pen"]:
                spec["dirty"] = dk
        meta = {"stream": "map", "seed": seed, "shard": shard, "k": k, "tier": tier, "spec": spec, "rng_seed": sd}
        try:
            base, brec, brng = run_de2(spec, sd, None)
        except Exception as exc:
            hist["map:raised:%s" % type(exc).__name__] = hist.get("map:raised:%s" % type(exc).__name__, 0) + 1
            continue
        if any(y != y for _, y in brec.cost_calls if not isinstance(y, list)):
            hist["map:nan-skipped"] = hist.get("map:nan-skipped", 0) + 1
            continue
        evals += 1
        hist["map:DE2:%s" % spec["flavour"]] = hist.get("map:DE2:%s" % spec["flavour"], 0) + 1
        dirty = spec.get("dirty")
        if dirty:
            dtag = "map-dirty:cost=%s:pen=%s" % (dirty.get("cost"), dirty.get("pen"))
            hist[dtag] = hist.get(dtag, 0) + 1
            # did an in-place write really change an evaluated vector?
            if any(_dirty_changes(dirty, x) for x, _ in brec.cost_calls):
                hist["map-dirty:argument-really-modified"] = hist.get("map-dirty:argument-really-modified", 0) + 1
        ngen = base[-1]["n_stepmon"] if base else 0
        if ngen >= 3:
            nontrivial += 1
        # an objective that is infinite at an evaluated point is counted differently without an evaluation monitor
        inf_eval = any((not isinstance(y, list)) and math.isinf(y) for _, y in brec.cost_calls)
        olog = {"serial": OrderLog(), "reversed": OrderLog(), "shuffled": OrderLog(), "deepcopy": OrderLog()}
        variants = [("serial", serial_map(olog["serial"])), ("reversed", reversed_map(olog["reversed"])),
                    ("shuffled", shuffled_map(sd ^ 0x5bd1, olog["shuffled"])), ("threads", thread_map(3)),
                    ("deepcopy", deepcopy_map(olog["deepcopy"]))]
        if k % 3 == 0 or (dirty and k % 2 == 0):
            variants.append(("processes", fork_map(3)))
        serial_ref = None
        for name, mp in variants:
            try:
                out, rec, rng_after = run_de2(spec, sd, mp)
            except Exception as exc:
                findings.append(Finding("monitor", "map/DE2/%s/raised" % name, "with the %s map the run raised %r" % (name, exc), meta)); continue
            hist["map-runs:%s" % name] = hist.get("map-runs:%s" % name, 0) + 1
            diff = None
            for i, (a, b) in enumerate(zip(base, out)):
                for kk in SNAP_KEYS:
                    if json.dumps(jsonable(a[kk])) != json.dumps(jsonable(b[kk])):
                        if kk == "evaluations" and inf_eval:
                            continue
                        diff = "op %d: %s is %r with python_map, %r with the %s map" % (i, kk, a[kk], b[kk], name); break
                if diff:
                    break
            if diff is None and len(base) != len(out):
                diff = "different number of ops"
            if diff is None and rng_after != brng:
                diff = "the global random source is in a different state after the run"
            if diff is None and name != "processes":
                # the same points were evaluated (any order)
                ca = sorted(json.dumps(jsonable(c)) for c in brec.cost_calls); cb = sorted(json.dumps(jsonable(c)) for c in rec.cost_calls)
                if ca != cb:
                    diff = "the multiset of evaluated points differs"
            if diff:
                c = dict(meta); c["map"] = name
                findings.append(Finding("monitor", "map/DE2/%s" % name, diff, c)); continue
            if name == "serial":
                serial_ref = out
            elif serial_ref is not None and [d["n_evalmon"] for d in serial_ref] != [d["n_evalmon"] for d in out]:
                c = dict(meta); c["map"] = name
                findings.append(Finding("monitor", "map/DE2/%s/evalmon" % name, "evaluation monitor length differs between two non-default maps", c))
            if name in olog:
                rq = de2map_request(spec, rec, olog[name].calls, shared=(name != "deepcopy"))
                if rq is not None:
                    lines.append(rq[0]); pending.append((name, rq[1], rec, meta))
                    if name != "serial" and any(o != sorted(o) for o in olog[name].calls):
                        hist["map-model:order-differs"] = hist.get("map-model:order-differs", 0) + 1
        if len(samples) < 1 and ngen >= 3:
            samples.append({"stream": "map", "spec": spec, "maps": [n for n, _ in variants], "generations": ngen})
    replies = leandrv.run_driver(lines) if lines else []
    for line, rep, (name, snaps, rec, meta) in zip(lines, replies, pending):
        hist["map-model:%s" % name] = hist.get("map-model:%s" % name, 0) + 1
        d = compare_de2map(rep, snaps, rec)
        if d:
            c = dict(meta); c["map"] = name; c["request"] = line[:4000]; c["model_reply"] = rep[:3000]
            findings.append(Finding("correspondence", "map/DE2/model-diverges", "%s map: %s" % (name, d), c))
    return evals, nontrivial, len(lines)


# =====================================================================================================
# stream `ens`: ensembles, step-wise versus run-to-completion (and mixed driving), under the same maps
# =====================================================================================================
# What is at stake (abstract_ensemble_solver.py `_step` l.637-661, `_solve` l.769-795; abstract_solver.py `Step`
# l.1062-1113): in step-wise mode every ensemble Step calls Step() on EVERY member, finished ones included.  A finished
# member has been Finalized (`_live` False), so its Step would re-decorate its objective (`_bootstrap_objective`), and a
# decoration is not neutral (Nelder-Mead rebuilds its simplex under strict ranges, scipy_optimize.py l.201-208): only the
# `_live` toggle around the member call and the member's own stop test keep a finished member as it is.  Whether that
# matters for the RESULT depends on what the termination reads (the population: CandidateRelativeTolerance, the
# default of Nelder-Mead; the energy history: ChangeOverGeneration), on the strict ranges, and on the members stopping
# at DIFFERENT iterations - all of which the generator varies; the monitor compares the complete final state of every
# member (population included) and the control-logic model (Model/Schedule.lean `ensMemberStep` / `ensMemberSolve`,
# driver op `ensctl`) predicts, per ensemble call and member, the number of decorations and iterations and the flag.
class EnsProbe:
    """records, without touching /repo, what the ensemble's calls do to the members: class-level wrappers (installed for
    the duration of one run) around `_decorate_objective` / `_Step` of the nested solver classes and around `_Step` /
    `_Solve` of AbstractEnsembleSolver.  Events: ('call', kind) / (member id, 'D' | 'I') / ('end', flags)"""

    def __init__(self):
        self.log = []

    def __enter__(self):
        import mystic.scipy_optimize as SO, mystic.abstract_ensemble_solver as AE
        log = self.log
        self.saved = []

        def wrap(cls, name, make):
            own = name in cls.__dict__             # Powell inherits `_decorate_objective`: the override is removed on exit
            orig = getattr(cls, name)
            self.saved.append((cls, name, orig, own))
            setattr(cls, name, make(orig))

        def mk_event(tag):
            def make(orig):
                def f(self_, *a, **k):
                    log.append((getattr(self_, "id", None), tag))
                    return orig(self_, *a, **k)
                return f
            return make

        def flags(ens):
            out = []
            for m in ens._allSolvers:
                if m is None:
                    out.append(None)
                else:
                    out.append((bool(m._live), len(m._stepmon) > 0))
            return out

        def mk_step(orig):
            def f(self_, *a, **k):
                log.append(("call", "step"))
                r = orig(self_, *a, **k)
                log.append(("end", flags(self_)))
                return r
            return f

        def mk_solve(orig):
            def f(self_, cost, ExtraArgs, **settings):
                if settings.get("step"):
                    return orig(self_, cost, ExtraArgs, **settings)
                log.append(("call", "solve"))
                r = orig(self_, cost, ExtraArgs, **settings)
                log.append(("end", flags(self_)))
                return r
            return f
        for cls in (SO.NelderMeadSimplexSolver, SO.PowellDirectionalSolver):
            wrap(cls, "_decorate_objective", mk_event("D"))
            wrap(cls, "_Step", mk_event("I"))
        wrap(AE.AbstractEnsembleSolver, "_Step", mk_step)
        wrap(AE.AbstractEnsembleSolver, "_Solve", mk_solve)
        return self

    def __exit__(self, *exc):
        for cls, name, orig, own in reversed(self.saved):
            if own:
                setattr(cls, name, orig)
            else:
                delattr(cls, name)
        return False

    def calls(self, nmembers):
        """[(kind, [(decorations so far, iterations so far, live, has step record) per member])] per ensemble call"""
        out = []; nd = [0] * nmembers; ni = [0] * nmembers; kind = None
        for ev in self.log:
            if ev[0] == "call":
                kind = ev[1]
            elif ev[0] == "end":
                fl_ = ev[1]
                out.append((kind, [(nd[i], ni[i], fl_[i][0] if i < len(fl_) and fl_[i] else None,
                                    fl_[i][1] if i < len(fl_) and fl_[i] else None) for i in range(nmembers)]))
            elif isinstance(ev[0], int) and 0 <= ev[0] < nmembers:
                if ev[1] == "D":
                    nd[ev[0]] += 1
                else:
                    ni[ev[0]] += 1
        return out


def ens_termination(t):
    import mystic.termination as T
    if t is None:
        return None
    if t[0] == "Or":
        return T.Or(ens_termination(t[1]), ens_termination(t[2]))
    if t[0] == "And":
        return T.And(ens_termination(t[1]), ens_termination(t[2]))
    return trace.make_termination(t)


def run_ensemble(case, mapper, mode, probe=True):
    """mode: 'solve' | 'solve-step' | 'step-loop' (SetObjective, then Step() until a message) | 'step-cost' (Step(cost)
    until a message) | ['steps-solve', j] (j Steps, then Solve(): step-wise all the way, the step switch is sticky) |
    ['steps-whole', j] (j Steps, then Solve(step=False): the members are finished off in run-to-completion mode) |
    ['step-over', j] (Step() until a message, then j more Steps: a fixed number of Steps that covers the slowest member) |
    ['solve-over', j] (Solve(), then j Steps on the finished ensemble)"""
    from mystic.solvers import LatticeSolver, BuckshotSolver, SparsitySolver, NelderMeadSimplexSolver, PowellDirectionalSolver
    from mystic.ensemble import MixedSolver
    from mystic.monitors import Monitor
    seed = case["rng_seed"]
    _random.seed(seed); np.random.seed(seed % (2 ** 31))
    dim = case["dim"]
    e = case["cost"]

    def cost(x):
        return dsl.ev(e, vec(x))
    if case["kind"] == "Lattice":
        s = LatticeSolver(dim, nbins=case["n"])
    elif case["kind"] == "Buckshot":
        s = BuckshotSolver(dim, npts=case["n"])
    elif case["kind"] == "Sparsity":
        s = SparsitySolver(dim, npts=case["n"])
    else:
        s = MixedSolver(dim, samp=[("lattice", (list(case["n"][0]),)), ("buckshot", (case["n"][1],))])
    ncls = NelderMeadSimplexSolver if case["nested"] == "NM" else PowellDirectionalSolver

    def configure(o):
        """the settings of the case, on the ensemble (which hands them to its members) or on a nested solver instance"""
        if case.get("lo") is not None:
            kw = {}
            if case.get("tight") is not None:
                kw["tight"] = case["tight"]
            if case.get("clip") is not None:
                kw["clip"] = case["clip"]
            o.SetStrictRanges(list(case["lo"]), list(case["hi"]), **kw)
        mons = case.get("monitors", "both")
        if mons in ("both", "eval"):
            o.SetEvaluationMonitor(Monitor())
        if mons in ("both", "step"):
            o.SetGenerationMonitor(Monitor())
        o.SetEvaluationLimits(case["maxiter"], case["maxfun"])
        t = ens_termination(case["term"])
        if t is not None:
            o.SetTermination(t)
        if case.get("penalty") is not None:
            pe = case["penalty"]
            o.SetPenalty(lambda x: dsl.ev(pe, vec(x)))
        if case.get("constraints") is not None:
            ce = case["constraints"]
            o.SetConstraints(lambda x: dsl.con_apply(ce, vec(x)))
    ncfg = case.get("nested_cfg", "class")
    if ncfg == "class":
        s.SetNestedSolver(ncls)
    else:
        # a CONFIGURED nested solver: the members are copies of it and keep ITS settings; with or without its objective
        inst = ncls(dim)
        configure(inst)
        if ncfg == "instance+objective":
            inst.SetObjective(cost)
        s.SetNestedSolver(inst)
    configure(s)
    if mapper is not None:
        s.SetMapper(mapper)
    def drive():
        nstep = 0
        if mode == "solve":
            s.Solve(cost)
        elif mode == "solve-step":
            s.Solve(cost, step=True)
        elif mode == "step-loop":
            s.SetObjective(cost)
            while not s.Step() and nstep < 20000:
                nstep += 1
        elif mode == "step-cost":
            while not s.Step(cost) and nstep < 20000:
                nstep += 1
        elif mode[0] in ("step-over", "solve-over"):
            if mode[0] == "solve-over":
                s.Solve(cost)
            else:
                s.SetObjective(cost)
                while not s.Step() and nstep < 20000:
                    nstep += 1
            for _ in range(int(mode[1])):
                s.Step()
        else:
            for _ in range(int(mode[1])):
                if s.Step(cost):
                    return
            if mode[0] == "steps-solve":
                s.Solve(cost)
            else:
                s.Solve(cost, step=False)
    pr = EnsProbe()
    try:
        with pr:
            drive()
    finally:
        if hasattr(mapper, "close"):
            mapper.close()
    members = []
    for m in s._allSolvers:
        members.append({"bestSolution": vec(m.bestSolution), "bestEnergy": float(m.bestEnergy), "generations": int(m.generations),
                        "evaluations": int(m.evaluations), "stepmon_y": [float(v) for v in m._stepmon._y],
                        "stepmon_x": [vec(v) for v in m._stepmon._x], "n_evalmon": len(m._evalmon),
                        "population": [vec(p) for p in m.population], "popEnergy": vec(m.popEnergy),
                        "live": bool(m._live), "message": m.Terminated(info=True)})
    return {"bestSolution": vec(s.bestSolution), "bestEnergy": float(s.bestEnergy), "generations": int(s.generations),
            "evaluations": int(s.evaluations), "total_evaluations": int(s._total_evals), "best_id": s._is_best(),
            "members": members, "n_stepmon": len(s._stepmon), "stepmon_y": [float(v) for v in s._stepmon._y],
            "n_evalmon": len(s._evalmon), "message": s.Terminated(info=True),
            "population": [vec(p) for p in s.population], "popEnergy": vec(s.popEnergy)}, pr.calls(len(members))


ENS_KEYS = ("bestSolution", "bestEnergy", "generations", "evaluations", "total_evaluations", "best_id", "n_stepmon",
            "stepmon_y", "n_evalmon", "message")
ENS_STATE = ("population", "popEnergy")
MEMBER_RESULT = ("bestSolution", "bestEnergy", "generations", "evaluations", "stepmon_y", "stepmon_x", "n_evalmon", "message")
MEMBER_STATE = ("population", "popEnergy", "live")


def ens_case(rng, tier):
    dim = rng.randint(1, 3)
    cost = solvergen.gen_cost(rng, dim, allow_vector=False)[1]
    x0 = [common.dyadic(rng, -2, 2, 4) for _ in range(dim)]
    kind = rng.choice(["Lattice"] * 6 + ["Buckshot"] * 6 + ["Mixed"] * 2 + (["Sparsity"] if tier == "thorough" else []))
    if kind == "Buckshot":
        n = rng.randint(2, 5)
    elif kind == "Sparsity":
        n = rng.randint(2, 3)            # its starting points come from a differential-evolution run per point (slow)
    elif kind == "Mixed":
        n = ([rng.choice([1, 2])] + [1] * (dim - 1), rng.randint(1, 3))      # lattice bins + buckshot points
    else:
        n = rng.choice([2, 3, 4, 6] if dim > 1 else [2, 3, 4])
    nested = rng.choice(["NM", "NM", "Powell"])
    case = {"kind": kind, "nested": nested, "dim": dim, "n": n, "cost": cost, "rng_seed": rng.randrange(2 ** 31)}
    # the nested solver: a class (configured by the ensemble), or a configured instance with / without its objective
    case["nested_cfg"] = rng.choice(["class"] * 7 + ["instance+objective"] * 2 + ["instance"])
    # strict ranges: mostly on (the decoration of a Nelder-Mead member then rebuilds / clips), sometimes off
    if rng.random() < 0.8:
        case["lo"] = [v - rng.choice([1.0, 3.0]) for v in x0]; case["hi"] = [v + rng.choice([1.5, 3.5]) for v in x0]
        case["tight"], case["clip"] = rng.choice([(None, None), (None, None), (None, None), (True, None), (None, True), (True, True)])
    else:
        case["lo"] = case["hi"] = None
    # what the stop reads: the energy history (COG / NCOG / VTR), the population (CRT = Nelder-Mead's own default), both,
    # or the ensemble's default; limits mostly wide, so that the members stop by themselves and at different iterations
    tk = rng.random()
    crt = ("CRT", rng.choice([1e-1, 1e-2, 1e-3, 1e-4]), rng.choice([1e-1, 1e-2, 1e-3, 1e-4]))
    cog = rng.choice([("NCOG", 1e-6, 5), ("NCOG", 1e-4, 8), ("NCOG", 1e-3, 2), ("COG", 1e-6, 4), ("COG", 1e-8, 6), ("COG", 1e-4, 8)])
    if tk < 0.34 and nested == "NM":
        case["term"] = crt
    elif tk < 0.46 and nested == "NM":
        case["term"] = ("Or", crt, cog) if rng.random() < 0.5 else ("And", crt, cog)
    elif tk < 0.56:
        case["term"] = None
    elif tk < 0.64:
        case["term"] = ("Or", ("VTR", rng.choice([1e-2, 0.5]), 0.0), cog)
    else:
        case["term"] = cog
    wide = rng.random() < 0.8
    case["maxiter"] = rng.choice([None, None, 50, 90]) if wide else rng.choice([3, 8, 25])
    case["maxfun"] = rng.choice([None, None, None, 400]) if wide else rng.choice([None, 40, 150])
    if case["lo"] is None and case["maxiter"] is None:
        case["maxiter"] = rng.choice([40, 90])            # the default box is +-1000: keep the runs short
    case["penalty"] = solvergen.gen_penalty(rng, dim) if rng.random() < 0.3 else None
    box = (case["lo"], case["hi"]) if case["lo"] is not None else None
    case["constraints"] = solvergen.gen_constraints(rng, dim, box) if rng.random() < 0.25 else None
    case["monitors"] = rng.choice(["both", "both", "both", "step", "eval", "none"])
    case["steps_before"] = rng.choice([1, 2, 3, 5, 9, 17])
    # EARLY STOPS (drawn last: the fields above keep their values).  A member that has made only its initial evaluation
    # (one step record, generations == 0) and ALREADY meets its termination is the one case in which only the stop test
    # `Step` makes before it iterates (abstract_solver.py l.1097-1100, `if len(self._stepmon)`) keeps a member as it is in
    # step-wise mode - run-to-completion mode never calls Step on it again.  The level at which the members stop is tied to
    # what THIS ensemble's members really see: `ens_resolve_early` reads the members' energy histories off a probe run and
    # puts a one-sided value-to-reach level through the `rank`-th smallest energy the members have at generation `gen`, so
    # that some members (one ... all but one; rank 1.0: all) stop at generation <= gen and the others run on to their own stop.
    if rng.random() < 0.5:
        case["early"] = {"gen": rng.choice([0, 0, 0, 0, 1, 1, 2, 3, 5]), "rank": rng.choice([rng.random(), rng.random(), 0.0, 1.0]),
                         "alone": rng.random() < 0.25, "over": rng.randint(1, 3)}
    return case


def vtr_below(level):
    """('VTR', tolerance, target) that holds exactly for energies e with `e <= level` (and e >= level - 2 * tolerance):
    termination.VTR tests `abs(energy_history[-1] - target) <= tolerance`"""
    w = 4.0 * 2.0 ** math.ceil(math.log2(max(1.0, abs(level))))
    t = level - w
    while not abs(level - t) <= w:       # rounding of level - w: widen by one ulp until the level itself is inside
        w = math.nextafter(w, math.inf)
    return ("VTR", w, t)


def ens_resolve_early(case):
    """fix the termination of an early-stop case from a probe run (deterministic: same case, same seed => same level).
    Returns the generation-0 energies of the members, or None when the probe could not be made"""
    ea = case["early"]
    probe = dict(case); probe.pop("early")
    if probe.get("nested_cfg") == "instance":
        probe["nested_cfg"] = "instance+objective"
    if probe["maxiter"] is None or probe["maxiter"] > 30:
        probe["maxiter"] = 30                   # the histories are read up to generation 5 only
    try:
        pr, _ = run_ensemble(probe, None, "solve", probe=False)
    except Exception:
        return None
    hs = [m["stepmon_y"] for m in pr["members"]]
    if not hs or any(len(h) == 0 or any(v != v for v in h) for h in hs):
        return None
    vals = sorted(h[min(ea["gen"], len(h) - 1)] for h in hs)
    level = vals[min(len(vals) - 1, int(ea["rank"] * len(vals)))]
    if not math.isfinite(level):
        return None
    v = vtr_below(level)
    ea["level"] = level
    if ea["alone"] or case["term"] is None:
        case["term"] = v
        if case["maxiter"] is None:
            case["maxiter"] = 60                # members that never come down to the level stop at the limit
    else:
        case["term"] = ("Or", v, case["term"])
    return [h[0] for h in hs]


def ens_diff(base, r):
    """(ensemble keys that differ, [(member index, keys)] in results, [(member index, keys)] in state)"""
    def ne(a, b):
        return json.dumps(jsonable(a)) != json.dumps(jsonable(b))
    dk = [kk for kk in ENS_KEYS if ne(base[kk], r[kk])]
    if len(base["members"]) != len(r["members"]):
        return dk + ["members"], [], []
    dr = []; ds = []
    k0 = [kk for kk in ENS_STATE if ne(base[kk], r[kk])]
    if k0:
        ds.append((None, k0))
    for i, (a, b) in enumerate(zip(base["members"], r["members"])):
        k1 = [kk for kk in MEMBER_RESULT if ne(a[kk], b[kk])]
        k2 = [kk for kk in MEMBER_STATE if ne(a[kk], b[kk])]
        if k1:
            dr.append((i, k1))
        if k2:
            ds.append((i, k2))
    return dk, dr, ds


OVERSTEP_KEY = "ens/step-after-termination/ensemble-redecoration-clips-best-member-vertices-outside-strict-ranges"


def overstep_clip_only(case, base, r, dk, dr, ds):
    """known finding F75 (known_findings.d/C07.json), the strongest true statement inside its class: Steps on an ensemble
    that has already stopped in step-wise mode change NOTHING but coordinates of the best member's stored vertices that
    lie OUTSIDE the strict ranges (and with them the reported bestSolution / population, which are that member's), and
    every changed coordinate ends inside the ranges; energies, counters, histories, messages, every other member and
    every coordinate inside the ranges are exactly those of the run-to-completion run"""
    if case.get("lo") is None:
        return False
    best = base["best_id"]
    if not set(dk) <= {"bestSolution"}:
        return False
    # the member whose population the ensemble shared when it re-decorated (its best member AT THAT MOMENT: at the end
    # another member may be the best) - one member only
    touched = {i for i, kk in dr} | {i for i, kk in ds if i is not None}
    if len(touched) > 1:
        return False
    if any(not set(kk) <= {"bestSolution"} for i, kk in dr):
        return False
    if any(not set(kk) <= {"population"} for i, kk in ds):
        return False
    if dk and touched and best not in touched:
        return False
    lo, hi = case["lo"], case["hi"]

    def ok(a, b):
        if len(a) != len(b) or len(a) != len(lo):
            return False
        for x, y, l, h in zip(a, b, lo, hi):
            if bits(x) != bits(y) and not ((x < l or x > h) and l <= y <= h):
                return False
        return True
    pairs = [(base["bestSolution"], r["bestSolution"])] + list(zip(base["population"], r["population"]))
    if len(base["population"]) != len(r["population"]):
        return False
    for best in sorted(touched | ({best} if isinstance(best, int) else set())):
        if not (isinstance(best, int) and 0 <= best < len(base["members"])):
            continue
        ma, mb = base["members"][best], r["members"][best]
        if len(ma["population"]) != len(mb["population"]):
            return False
        pairs += [(ma["bestSolution"], mb["bestSolution"])] + list(zip(ma["population"], mb["population"]))
    return all(ok(a, b) for a, b in pairs)


def overstep_outside_vertex(case, base):
    """the precondition of F75: strict ranges, and the population the stopped ensemble shares with its best member holds a
    coordinate outside them (the ensemble's own re-decoration at the next Step clips it in place)"""
    if case.get("lo") is None:
        return False
    lo, hi = case["lo"], case["hi"]
    pops = list(base.get("population") or [])
    best = base.get("best_id")
    if isinstance(best, int) and 0 <= best < len(base.get("members", [])):
        pops += list(base["members"][best].get("population") or [])
    return any(len(v) == len(lo) and any(x < l or x > h for x, l, h in zip(v, lo, hi)) for v in pops)


def outside_vertex_in_history(case, base):
    """precondition of F75 for the modes in which a Solve() follows a series of Steps: strict ranges, and some member's recorded
    best vertices (its step monitor) include a point outside them - the ensemble's re-decoration at that Solve() clips the
    population it shares with its best member of the moment, which may still be running and then continues from the
    clipped vertex"""
    if case.get("lo") is None:
        return False
    lo, hi = case["lo"], case["hi"]
    for m in base.get("members", []):
        for v in (m.get("stepmon_x") or []) + (m.get("population") or []):
            if len(v) == len(lo) and any(x < l or x > h for x, l, h in zip(v, lo, hi)):
                return True
    return False


def ensctl_request(n_iters, calls):
    return "C07 ensctl (n %s) (calls (%s)) (fuel 100000)" % (common.nl(n_iters), " ".join(k for k, _ in calls))


def ens_stream(seed, shard, ncases, tier, hist, findings, samples, ks=None):
    evals = 0; nontrivial = 0
    lines = []; pending = []

    def bump(key, n=1):
        hist[key] = hist.get(key, 0) + n
    for k in (range(ncases) if ks is None else ks):
        rng = case_rng(PID + "/ens", seed, shard, k)
        case = ens_case(rng, tier)
        e0 = None
        if case.get("early"):
            e0 = ens_resolve_early(case)
            if e0 is None:
                bump("ens-early:probe-failed"); case.pop("early")
        meta = {"stream": "ens", "seed": seed, "shard": shard, "k": k, "tier": tier, "case": case}
        try:
            base, bcalls = run_ensemble(case, None, "solve")
        except Exception as exc:
            bump("ens:raised:%s" % type(exc).__name__)
            continue
        evals += 1
        tname = "default" if case["term"] is None else case["term"][0]
        cfgtag = "%s:%s:%s:%s" % (case["kind"], case["nested"], "ranges" if case["lo"] is not None else "noranges", tname)
        bump("ens:" + cfgtag)
        bump("ens-nested:%s:%s" % (case["nested"], case.get("nested_cfg", "class")))
        bump("ens-monitors:%s" % case["monitors"])
        if case["constraints"] is not None:
            bump("ens:with-constraints")
        nm = len(base["members"])
        # iterations each member performed in the run-to-completion run (the oracle of the control-logic model)
        n_iters = [c[1] for c in bcalls[-1][1]] if bcalls else [0] * nm
        spread = len(set(n_iters)) > 1
        bump("ens:members-stop-at-%s" % ("different-iterations" if spread else "the-same-iteration"))
        if spread:
            bump("ens:stop-spread:%s:%s:%s" % (case["nested"], "ranges" if case["lo"] is not None else "noranges",
                                                "pop" if tname in ("CRT", "And") or (tname == "Or" and case["term"][1][0] == "CRT") else "hist"))
        if nm >= 2 and base["total_evaluations"] > 3 * nm and spread:
            nontrivial += 1
        # WHEN the first member stops (iterations it made: 1 = at generation 0, after its initial evaluation only), and
        # whether the others run on after it - the situation in which step-wise mode keeps calling Step on a finished member
        first = min(n_iters) if n_iters else 0
        bump("ens:first-stop-after-iterations:%s:%s" % (str(first) if first <= 3 else "4+", "others-run-on" if spread else "all-together"))
        if spread:
            bump("ens:stopped-member-stepped-again:%s:%s" % (case["nested"], "at-generation-0" if first == 1 else ("at-generation-1" if first == 2 else "later")))
        if case.get("early"):
            ng0 = sum(1 for n in n_iters if n == 1)
            bump("ens-early:gen%d:%s" % (case["early"]["gen"], "alone" if case["term"][0] == "VTR" else "or"))
            bump("ens-early:members-stopping-at-generation-0:%s" % ("none" if ng0 == 0 else ("all" if ng0 == nm else ("one" if ng0 == 1 else "some"))))
        if len(set(m["bestEnergy"] for m in base["members"])) < nm:
            bump("ens:tied-members")
        j = case["steps_before"]
        longest = max(n_iters) if n_iters else 0
        variants = [("python_map", None, "solve-step"), ("python_map", None, "step-loop"),
                    ("python_map", None, ["steps-solve", j]), ("python_map", None, ["steps-whole", j])]
        rot = [("python_map", None, "step-cost"), ("reversed", reversed_map(), "solve"), ("shuffled", shuffled_map(k), "step-loop"),
               ("threads", thread_map(3), "solve"), ("threads", thread_map(3, keep=True), "solve-step"),
               ("reversed", reversed_map(), ["steps-whole", j]), ("shuffled", shuffled_map(k + 1), "solve-step"),
               ("dillcopy", dillcopy_map(), "step-loop"), ("threads", thread_map(2, keep=True), ["steps-whole", j])]
        slow_start = case["kind"] == "Sparsity"        # its `_InitialPoints` is a differential-evolution run per point, in every run
        # a FIXED number of Steps that covers the slowest member (`ensemble_step_eq_solve`: any k >= the slowest), and Steps
        # on an ensemble that a Solve has finished: every member is finished, none may move
        ov = (case.get("early") or {}).get("over", 1 + k % 3)
        if case.get("early") and not slow_start:
            # early stops: every driving mode with the built-in map, the over-stepping ones under other maps as well
            variants += [("python_map", None, "step-cost"), ("python_map", None, ["step-over", ov]), ("python_map", None, ["solve-over", ov]),
                         [("reversed", reversed_map(), ["step-over", ov]), ("shuffled", shuffled_map(k + 2), ["solve-over", ov]),
                          ("threads", thread_map(2, keep=True), ["step-over", ov])][k % 3]]
        else:
            variants.append(("python_map", None, [["step-over", "solve-over"][k % 2], ov]))
        variants += [rot[(k + i) % len(rot)] for i in range(1 if slow_start else ((2 if case.get("early") else 3) if tier == "quick" else 5))]
        # maps through which the members travel as dill pickles (forked workers: one fork per worker and map call): the
        # step-wise schedules only where the run is short
        if longest > 14:
            variants = [v if v[0] != "dillcopy" else ("reversed", reversed_map(), "step-loop") for v in variants]
        if k % 2 == 0 and not slow_start:
            variants.append(("processes", fork_map(3, use_dill=True), "solve"))
        if k % 4 == 0 and longest <= 14 and not slow_start:
            variants.append(("processes", fork_map(2, use_dill=True), "step-loop"))
        if k % 4 == 2 and j <= 5 and not slow_start:
            variants.append(("processes", fork_map(2, use_dill=True), ["steps-whole", j]))
        if bcalls:
            lines.append(ensctl_request(n_iters, bcalls)); pending.append(("python_map", "solve", bcalls, n_iters, meta))
        nbad = 0; instance_reported = 0; over_reported = 0; over2_reported = 0
        for name, mp, mode in variants:
            if nbad >= 2:
                break              # two failing schedules of one case are reported; the rest would repeat them
            mtag = mode if isinstance(mode, str) else mode[0]
            try:
                r, calls = run_ensemble(case, mp, mode)
            except Exception as exc:
                c = dict(meta); c["map"] = name; c["mode"] = mode
                if (case.get("nested_cfg") == "instance" and mode != "solve" and isinstance(exc, (TypeError, RuntimeError))
                        and "'NoneType' object is not callable" in str(exc)):
                    # known finding (known_findings.d/C07.json): a configured nested solver INSTANCE that has no objective
                    # of its own gets the ensemble's objective in run-to-completion mode only (`_solve` l.781-782
                    # "HACK for configured NestedSolver"); `_step` has no such line and the member's first Step calls None.
                    # Strongest true statement kept under check: with the objective set on the instance (nested_cfg
                    # 'instance+objective') every schedule agrees; here every step-wise schedule fails the same way, at once.
                    bump("ens:instance-without-objective:step-wise-raises")
                    if instance_reported == 0:
                        findings.append(Finding("monitor", "ens/configured-nested-instance-without-objective/step-wise-raises-TypeError",
                                                "Solve() with python_map returns (bestEnergy %r after %d evaluations) but %s with the %s map raises %r: the members are "
                                                "copies of a configured %s instance that was given no objective" % (
                                                    base["bestEnergy"], base["total_evaluations"], mode, name, exc, case["nested"]), c))
                    instance_reported += 1
                    continue
                nbad += 1
                findings.append(Finding("monitor", "ens/%s/%s/%s/%s/raised" % (case["kind"], case["nested"], name, mtag),
                                        "the ensemble raised %r" % (exc,), c)); continue
            bump("ens-runs:%s:%s" % (name, mtag))
            dk, dr, ds = ens_diff(base, r)
            if (dk or dr or ds) and mtag != "solve" and overstep_clip_only(case, base, r, dk, dr, ds):
                # known finding F75: the ensemble's OWN re-decoration (its `_live` flag is off after Finalize) - at a Step made
                # after it has stopped, or at the Solve() that follows a series of Steps - clips, in place, the population it
                # shares with its best member; nothing else differs (checked by overstep_clip_only)
                bump("ens:step-after-termination:outside-vertex-clipped")
                if over_reported == 0:
                    c = dict(meta); c["map"] = name; c["mode"] = mode
                    c["base"] = {"bestSolution": base["bestSolution"], "population": base["population"], "bestEnergy": base["bestEnergy"]}
                    c["other"] = {"bestSolution": r["bestSolution"], "population": r["population"], "bestEnergy": r["bestEnergy"]}
                    findings.append(Finding("monitor", OVERSTEP_KEY,
                                            "Solve() and a Step() loop report bestSolution %r / population %r (bestEnergy %r); %d more Step() on the "
                                            "stopped ensemble (%s map) and it reports bestSolution %r / population %r with the same energy, counters, "
                                            "histories and messages: strict ranges %r..%r" % (
                                                base["bestSolution"], base["population"], base["bestEnergy"], int(mode[1]), name,
                                                r["bestSolution"], r["population"], case["lo"], case["hi"]), c))
                over_reported += 1
            elif (dk or dr or ds) and ((mtag == "step-over" and overstep_outside_vertex(case, base)) or
                                        (mtag in ("steps-whole", "steps-solve", "solve-over") and outside_vertex_in_history(case, base))):
                # F75, second stage: the clipped vertex no longer satisfies the member's termination, so the member the
                # ensemble shares its population with RESUMES iterating at the following Steps (more generations and
                # evaluations than the run-to-completion run); precondition of the class: the stopped ensemble's shared
                # population holds a vertex outside the strict ranges
                bump("ens:step-after-termination:clipped-member-resumes")
                if over2_reported == 0:
                    c = dict(meta); c["map"] = name; c["mode"] = mode
                    c["base"] = {kk: base[kk] for kk in ("bestSolution", "generations", "evaluations", "population")}
                    c["other"] = {kk: r[kk] for kk in ("bestSolution", "generations", "evaluations", "population")}
                    findings.append(Finding("monitor", OVERSTEP_KEY + "/clipped-member-resumes-iterating",
                                            "the stopped ensemble's shared population %r holds a vertex outside the strict ranges %r..%r; %d more Step() "
                                            "clip it and the best member resumes: generations %r -> %r, evaluations %r -> %r" % (
                                                base["population"], case["lo"], case["hi"], int(mode[1]), base["generations"], r["generations"],
                                                base["evaluations"], r["evaluations"]), c))
                over2_reported += 1
            elif dk or dr or ds:
                nbad += 1
                c = dict(meta); c["map"] = name; c["mode"] = mode
                c["base"] = {kk: base[kk] for kk in dk if kk != "members"}; c["other"] = {kk: r[kk] for kk in dk if kk != "members"}
                def side(o, i, q):
                    return o[q] if i is None else o["members"][i][q]
                c["member_diffs"] = [(i, kk, {q: side(base, i, q) for q in kk}, {q: side(r, i, q) for q in kk}) for i, kk in (dr + ds)[:3]]
                if dk or dr:
                    clause = "result"
                    desc = "; ".join(["%s %r vs %r" % (kk, base[kk], r[kk]) for kk in dk if kk != "members"] +
                                     ["member %d %s %r vs %r" % (i, q, base["members"][i][q], r["members"][i][q]) for i, kk in dr[:2] for q in kk[:3]])
                else:
                    clause = "member-state"
                    desc = "; ".join("%s %s %r vs %r" % ("the ensemble's" if i is None else "member %d" % i, q, side(base, i, q), side(r, i, q))
                                     for i, kk in ds[:2] for q in kk[:2])
                findings.append(Finding("monitor", "ens/%s/%s/%s/%s/%s/%s" % (
                    case["kind"], case["nested"], "ranges" if case["lo"] is not None else "noranges", name, mtag, clause),
                    "Solve with python_map and %s with the %s map leave different %s (members stop after %r iterations): %s" % (
                        mode, name, "results" if clause == "result" else "member states (same reported results)", n_iters, desc[:900]), c))
            # the control-logic model: what every ensemble call did to every member (in-process maps see the events)
            if name != "processes" and calls and not (mtag == "step-over" and overstep_outside_vertex(case, base)) \
                    and not (mtag in ("steps-whole", "steps-solve", "solve-over") and outside_vertex_in_history(case, base)):
                # (inside the F75 class - Steps after the stop with a stored vertex outside the ranges - the member resumes,
                #  which the control model, faithful to the run up to the stop, does not follow)
                lines.append(ensctl_request(n_iters, calls)); pending.append((name, mode, calls, n_iters, meta))
        if len(samples) < 1 and spread:
            samples.append({"stream": "ens", "case": case, "member_iterations": n_iters,
                            "result": {kk: base[kk] for kk in ("bestSolution", "bestEnergy", "generations", "evaluations", "message")}})
    replies = leandrv.run_driver(lines) if lines else []
    for line, rep, (name, mode, calls, n_iters, meta) in zip(lines, replies, pending):
        mtag = mode if isinstance(mode, str) else mode[0]
        bump("ens-model:%s:%s" % (name, mtag))
        r = common.parse_reply(rep)
        c = dict(meta); c["map"] = name; c["mode"] = mode; c["request"] = line[:3000]; c["model_reply"] = rep[:3000]
        if r[0] != "ok":
            findings.append(Finding("correspondence", "ens/ctl/model-%s" % r[0], "model replied %r" % (rep[:200],), c)); continue
        mcalls = r[1]["calls"]; mall = r[1]["all"]
        bad = None
        if len(mcalls) != len(calls):
            bad = ("length", "model has %d calls, observed %d" % (len(mcalls), len(calls)))
        for ci, (mc, (kind, obs)) in enumerate(zip(mcalls, calls)):
            if bad:
                break
            for i, (mm, ob) in enumerate(zip(mc, obs)):
                want = (int(mm[0]), int(mm[1]), mm[2] == "true")
                got = (ob[0], ob[1], ob[2])
                if want != got:
                    fld = "decorations" if want[0] != got[0] else ("iterations" if want[1] != got[1] else "live")
                    bad = (fld, "ensemble call %d (%s), member %d (stops after %d iterations): model (decorations, iterations, live) = %r, implementation %r"
                           % (ci, kind, i, n_iters[i], want, got))
                    break
        if not bad and mall and calls:
            # the driving loop ended exactly when the model's ensemble first reports every member terminated
            first = next((q for q, v in enumerate(mall) if v == "true"), None)
            if mtag in ("solve-step", "step-loop", "step-cost", "step-over") and first != len(calls) - 1:
                bad = ("stop", "the ensemble stopped after %d calls, the model's members are all terminated after call %r" % (len(calls), first))
        if bad:
            findings.append(Finding("correspondence", "ens/ctl/%s/model-diverges/%s" % (mtag, bad[0]), "%s map, %s: %s" % (name, mode, bad[1]), c))
    return evals, nontrivial, len(lines)


# =====================================================================================================
# shard / main / replay
# =====================================================================================================
BUDGET = {"quick": {"cfg": 90, "perm": 8, "live": 4, "map": 12, "ens": 5},
          "thorough": {"cfg": 500, "perm": 6, "live": 20, "map": 70, "ens": 28}}


# ====================================================================================== seed stream
def _seed_cost(x):
    return float(sum((float(v) - 0.25) ** 2 for v in x)) + 1.0


def seed_run(kind, seed, order):
    """one run whose ONLY source of reproducibility is mystic.tools.random_seed(seed) (python's AND numpy's generator):
    initial points / member start points are drawn from numpy's global source in three of the four kinds"""
    from mystic.tools import random_seed
    from mystic.solvers import DifferentialEvolutionSolver2, NelderMeadSimplexSolver, BuckshotSolver, DifferentialEvolutionSolver
    from mystic.termination import VTR
    from mystic.monitors import Monitor
    random_seed(seed)
    out = {}
    if kind == "buckshot":
        s = BuckshotSolver(2, 4); s.SetNestedSolver(NelderMeadSimplexSolver)
        calls = {"ranges": lambda: s.SetStrictRanges([-2.0, -2.0], [3.0, 3.0]), "limits": lambda: s.SetEvaluationLimits(generations=6),
                 "term": lambda: s.SetTermination(VTR(1e-12))}
        for name in order:
            calls[name]()
        s.Solve(_seed_cost)
        out["starts"] = None
    else:
        cls = DifferentialEvolutionSolver2 if kind in ("multinormal", "sampled") else DifferentialEvolutionSolver
        s = cls(2, 6)
        def init():
            if kind == "multinormal":
                s.SetMultinormalInitialPoints([0.5, 0.5], [[1.0, 0.0], [0.0, 2.0]])
            elif kind == "sampled":
                from mystic.math import Distribution
                import numpy as _np
                s.SetSampledInitialPoints(Distribution(_np.random.normal, 0.0, 2.0))
            else:
                s.SetRandomInitialPoints([-3.0, -3.0], [3.0, 3.0])
        calls = {"init": init, "limits": lambda: s.SetEvaluationLimits(generations=5), "term": lambda: s.SetTermination(VTR(1e-12)),
                 "mon": lambda: s.SetGenerationMonitor(Monitor())}
        for name in order:
            calls[name]()
        out["starts"] = [vec(p) for p in s.population]
        s.Solve(_seed_cost)
    out["best"] = vec(s.bestSolution); out["bestE"] = float(s.bestEnergy); out["hist"] = [float(e) for e in s.energy_history]
    out["evals"] = int(s.evaluations)
    return out


def seed_stream(seed, shard, ncases, tier, hist, findings, samples, ks=None):
    """same seed through `random_seed` (every seed value incl. 0 and 2**32-1, call orders permuted) => identical runs"""
    n = nt = 0
    for k in (ks if ks is not None else range(ncases)):
        rng = case_rng(PID + "/seed", seed, shard, k)
        kind = rng.choice(["buckshot", "multinormal", "sampled", "uniform"])
        sd = rng.choice([0, 0, 1, 2 ** 32 - 1, rng.randrange(2 ** 31), rng.randrange(1, 1000)])
        names = ["ranges", "limits", "term"] if kind == "buckshot" else ["init", "limits", "term", "mon"]
        o1 = list(names); o2 = list(names); rng.shuffle(o2)
        try:
            a = seed_run(kind, sd, o1); b = seed_run(kind, sd, o2)
        except Exception as exc:
            hist["seed:raised:" + type(exc).__name__] = hist.get("seed:raised:" + type(exc).__name__, 0) + 1
            continue
        n += 1; nt += 1
        hist["seed:%s:%s" % (kind, "zero" if sd == 0 else "nonzero")] = hist.get("seed:%s:%s" % (kind, "zero" if sd == 0 else "nonzero"), 0) + 1
        if json.dumps(a, sort_keys=True) != json.dumps(b, sort_keys=True):
            what = next((key for key in a if a[key] != b[key]), "?")
            findings.append(Finding("monitor", "seed/%s/same-seed-different-run" % kind,
                                    "random_seed(%d) then the same configuration (call orders %r / %r) gives different runs: %s %r vs %r"
                                    % (sd, o1, o2, what, a[what], b[what]), {"stream": "seed", "kind": kind, "seed": sd, "orders": [o1, o2], "k": k, "shard": shard}))
    return n, nt


def run_shard(pid, seed, shard, ncases, tier, extra):
    common.import_mystic()
    findings = []; hist = {}; samples = []
    b = BUDGET[tier]
    scale = (extra or {}).get("scale", 1.0)
    def timed(name, fn, n):
        t0 = time.process_time()
        r = fn(seed, shard, n, tier, hist, findings, samples)
        hist["cpu-ms:" + name] = hist.get("cpu-ms:" + name, 0) + int(1000 * (time.process_time() - t0))
        return r
    n1, nt1, l1 = timed("cfg", cfg_stream, int(b["cfg"] * scale))
    n2, nt2 = timed("perm", perm_stream, max(1, int(b["perm"] * scale)))
    n5, nt5 = timed("live", live_stream, max(1, int(b["live"] * scale)))
    n3, nt3, l3 = timed("map", map_stream, max(1, int(b["map"] * scale)))
    n4, nt4, l4 = timed("ens", ens_stream, max(1, int(b["ens"] * scale)))
    n6, nt6 = timed("seed", seed_stream, max(1, int(b.get("seed", 6) * scale)))
    n1 += n6; nt1 += nt6; hist["cases:seed"] = n6
    hist["cases:cfg"] = n1 - n6; hist["cases:perm"] = n2; hist["cases:map"] = n3; hist["cases:ens"] = n4; hist["cases:live"] = n5
    return {"evaluations": n1 + n2 + n3 + n4 + n5, "nontrivial": nt1 + nt2 + nt3 + nt4 + nt5, "model_lines": l1 + l3 + l4,
            "findings": findings, "samples": samples, "hist": hist}


def main(tier, seed):
    t0 = time.time()
    proof = framework.proof_stage(PID, MODULE, THEOREMS, tier)
    nshards = 16 if tier == "quick" else 64
    run = framework.run_shards("c07", "run_shard", PID, seed, nshards, 0, tier)

    def search_more():
        r = framework.run_shards("c07", "run_shard", PID, seed + 15485863, 16, 0, tier, extra={"scale": 1.5 if tier == "quick" else 0.3})
        return r["findings"]
    rule = ("five streams on the real solvers. cfg: random sequences of 2-8 Set* calls (all 14 setters, dependent / repeated / "
            "raising ones included; boxes with min>max, wrong lengths, clip with tight=False; monitors new / reused / Null / None) "
            "interleaved with `boot` = the prelude of Step (`_bootstrap_objective`: the deferred decoration, which under strict "
            "ranges clips the population and draws random numbers) on fresh and already-run LIVE DE, DE2, Nelder-Mead, Powell, "
            "Lattice, Buckshot solvers: every attribute, the population, the position in the random stream, the number of "
            "decorations performed and the raised flags compared with Model/Config.lean; adjacent calls the footprint table "
            "declares independent (in the state they are made in) are swapped and pairwise independent sequences permuted on the "
            "real solver - also when the tie to the model is broken (non-trivial = a swap or permutation was executed and at least "
            "one call did not raise). perm: complete solver specs (6-9 configuration calls incl. the initial-points call) under 24 "
            "sampled orders (quick) / all 720 orders of the six base calls (thorough, every second case) and all 24 orders of a "
            "4-call re-configuration in mid-run: full traces compared bit for bit (non-trivial = >= 3 cost calls). live: DE / DE2 / "
            "NM / Powell driven by Step with a never-true termination (the solver is LIVE), re-configured between two Steps by 3-6 "
            "calls out of SetStrictRanges (new box / off; strict ranges often off before) / SetPenalty / SetConstraints / "
            "SetEvaluationLimits / SetTermination / SetEvaluationMonitor / SetReducer / SetGenerationMonitor, one or two such "
            "blocks, all (<= 24) or 10-24 sampled orders of each block: the continued traces compared bit for bit (non-trivial = "
            "live at every block and >= 3 cost calls). map: DE2 under python_map / serial / reversed / shuffled / ThreadPool / "
            "deep-copying / forked-process maps, 60% of the cases with a cost or penalty that MODIFIES ITS ARGUMENT IN PLACE "
            "(abs-fold, sort, clamp): per-op population, energies, best, counters, step monitor, stop message and final random "
            "state compared; the Lean step2Proc (procedures on mutable work items, sharing discipline of the map) replayed with "
            "the evaluation order the map really used: states and evaluation log entry by entry (non-trivial = >= 3 generations). "
            "ens: Lattice / Buckshot / Mixed (thorough: Sparsity) x NelderMead / Powell members, the nested solver given as a class "
            "or as a configured instance (with / without its own objective), strict ranges on (80%, tight / clip variants) or "
            "off, penalty / constraints / any subset of the two monitors, termination reading the energy history (COG, NCOG, "
            "VTR), the population (CandidateRelativeTolerance) or both (Or / And) or the ensemble's default, limits mostly wide so "
            "that the members stop by themselves at DIFFERENT iterations (counted: ens:members-stop-at-*): Solve vs "
            "Solve(step=True) vs Step() loop vs Step(cost) loop vs j Steps then Solve() vs j Steps then Solve(step=False), under "
            "Step() loop followed by 1-3 more Steps (a fixed number of Steps covering the slowest member) vs Solve() followed by "
            "1-3 Steps, under "
            "python_map / reversed / shuffled / thread / dill-copying / forked-process(dill) maps; half of the cases are EARLY-STOP "
            "cases: a probe run reads the members' energy histories and a one-sided value-to-reach level is put through the "
            "rank-th smallest energy the members have at generation 0 / 1 / 2 / 3 / 5 (alone or Or-ed with the case's termination), so "
            "that one / some / all members meet their termination at generation 0 (a single step record) or 1, 2, ... while the "
            "others run on (counted: ens:first-stop-after-iterations:*, ens-early:*), and these run all eight driving modes: best, counters, message, every "
            "member's result, history, message AND complete state (population, energies, _live); per ensemble call and member "
            "the number of decorations and iterations and the _live flag against the Lean control-logic model `ensctl` (oracle: "
            "the iterations each member performs in the run-to-completion run) (non-trivial = >= 2 members, > 3 evaluations each, "
            "members stopping at different iterations).")
    tb = ["Lean 4.33 kernel; axioms per theorem under coverage.theorems (subset of propext, Classical.choice, Quot.sound)",
          "hand-written models Model/Config.lean (Set* footprints, deferred decoration) and Model/Schedule.lean (evaluation order, "
          "mutable work items, schedules) tied to /repo by the differential runs counted under histogram cfg:*, cfg-boot:* and "
          "map-model:*; Model/Solver.lean by C01-C05",
          "an evaluation of the cost is atomic in the model: interleavings INSIDE one evaluation (threads) and pickling through a process "
          "map are runtime and covered by the monitor streams only (sampled, not enumerated)",
          "monitors / callables are identified by object identity through a harness registry; `_strictbounds` is observed by its "
          "action on one exterior point (identity / clips / random); a decoration is observed as a new wrapped objective in `_cost[0]`",
          "the deferred decoration is modelled for AbstractSolver / DE / DE2 / Powell; NelderMead's own `_decorate_objective` (simplex "
          "rebuilt) is covered by the perm / live monitors only",
          "ensembles: the member algorithm is a parameter of the control-logic model (any decoration / iteration / Finalize / "
          "verdict); in the correspondence the verdict is the oracle 'terminated after n_i iterations' observed in the "
          "run-to-completion run, decorations / iterations are observed through class-level wrappers installed by the harness "
          "for the duration of a run (in-process maps only: events inside forked workers are not seen)"]
    assumptions = ["cost, penalty and constraints are deterministic functions of the CONTENTS of the vector they receive that do not touch the "
                   "global random source (they may modify that vector in place)",
                   "the supplied map returns results in input order (all maps of the check do)",
                   "ensemble members draw no random numbers while running (Nelder-Mead, Powell)",
                   "no evaluated point has an infinite objective (DE2 counts evaluations as non-inf results when it has no evaluation monitor)"]
    extra_cov = {"exhaustive": tier == "thorough",
                 "exhaustive_note": "thorough: all 720 orders of the six base configuration calls for every second perm case; both tiers: all 24 orders of the mid-run re-configuration, all orders of every live-solver re-configuration block of <= 4 calls"}
    return framework.finish(PID, tier, seed, t0, proof, run, rule, tb, assumptions, extra_cov=extra_cov, search_more=search_more)


def replay(path):
    """re-execute the stored case (stream, seed, shard, k) on the implementation and the model"""
    common.import_mystic()
    d = json.load(open(path))
    case = d.get("case") or {}
    if not case and d.get("correspondence_not_checking"):
        case = d["correspondence_not_checking"][0]["case"]
    if "stream" not in case:
        print("replay file carries no case (proof-stage finding): %s" % d.get("what", d.get("kind")))
        return 2
    leandrv.ensure_driver()
    hist = {}; findings = []; samples = []
    fn = {"cfg": cfg_stream, "perm": perm_stream, "live": live_stream, "map": map_stream, "ens": ens_stream}[case["stream"]]
    fn(int(case["seed"]), int(case["shard"]), 0, case["tier"], hist, findings, samples, ks=[int(case["k"])])
    known = {e["class_key"] for e in framework.load_known(PID)}
    bad = 0
    for f in findings:
        if f["kind"] == "monitor" and f["class_key"] in known:
            print("KNOWN-FINDING: property=%s %s [%s]" % (PID, f["what"][:300], f["class_key"]))
            continue
        print("%s: [%s] %s" % (f["kind"], f["class_key"], f["what"][:800]))
        bad += 1
    if bad:
        print("VIOLATION property=%s replay=%s" % (PID, path))
        return 1
    print("replay: property held on this case")
    return 0
