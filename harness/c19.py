"""C19 - discrete measures: parameter-vector round trips and product structure.
Correspondence: the real mystic.math.discrete / mystic.math.measures / constraints.impose_measure vs lean
Model/Discrete (structure and payload floats bit-exact; sum-like statistics bit-exact in the exactness regime,
rel 1e-9 otherwise, counted separately).  Monitor: the property's own clauses evaluated on what the real code
returns, with exact rational arithmetic (fractions) as the reference for the explicit sums."""
import sys, time, math, json, copy
from fractions import Fraction
import common
from common import case_rng, fl, fll, nl, f2b, same_vec, same_float, gfloat, dyadic, parse_reply, floats_of
import dsl, framework, leandrv
import c19_heap
from framework import Finding

PID = "C19"
MODULE = "MysticVerif.Props.C19"
THEOREMS = [
    "MysticVerif.C19.nested_flat",
    "MysticVerif.C19.flat_nested",
    "MysticVerif.C19.unflatten_flatten",
    "MysticVerif.C19.load_flatten",
    "MysticVerif.C19.scenario_load_flatten",
    "MysticVerif.C19.compose_decompose",
    "MysticVerif.C19.decompose_compose",
    "MysticVerif.C19.update_spec",
    "MysticVerif.C19.supdate_spec",
    "MysticVerif.C19.unpack_pack",
    "MysticVerif.C19.pack_order",
    "MysticVerif.C19.positions_length",
    "MysticVerif.C19.product_weights",
    "MysticVerif.C19.mass_prod",
    "MysticVerif.C19.expect_def",
    "MysticVerif.C19.expect_var_def",
    "MysticVerif.C19.pof_def",
    "MysticVerif.C19.support_def",
    "MysticVerif.C19.set_center_mass",
    "MysticVerif.C19.set_range",
    "MysticVerif.C19.set_var",
    # impose_measure (constraints.py l.1758-1826)
    "MysticVerif.C19.impose_measure_frame",
    "MysticVerif.C19.impose_measure_kept",
    "MysticVerif.C19.impose_measure_noweight_zero",
    "MysticVerif.C19.impose_measure_collapsed",
    # update for every parameter length / every shape
    "MysticVerif.C19.update_every_prefix",
    "MysticVerif.C19.update_short_params_witness",
    "MysticVerif.C19.update_any_shape",
    "MysticVerif.C19.update_empty_factor_witness",
    "MysticVerif.C19.supdate_every_prefix",
    # the other deterministic statistics
    "MysticVerif.C19.measure_expect_def",
    "MysticVerif.C19.measure_support_def",
    "MysticVerif.C19.measure_maximum_def",
    "MysticVerif.C19.measure_minimum_def",
    "MysticVerif.C19.measure_ess_maximum_def",
    "MysticVerif.C19.measure_ess_minimum_def",
    "MysticVerif.C19.measure_ptp_def",
    "MysticVerif.C19.maximum_def",
    "MysticVerif.C19.minimum_def",
    "MysticVerif.C19.ess_maximum_def",
    "MysticVerif.C19.ess_minimum_def",
    "MysticVerif.C19.ptp_def",
    "MysticVerif.C19.pof_value_def",
    "MysticVerif.C19.mean_value_def",
    "MysticVerif.C19.set_mean_value",
    "MysticVerif.C19.set_center_masses",
    "MysticVerif.C19.measure_normalize",
    # shared factor objects (Model/DiscreteHeap): update / load on the object graph
    "MysticVerif.C19.heap_update_obs",
    "MysticVerif.C19.heap_update_frame",
    "MysticVerif.C19.heap_load_obs",
    "MysticVerif.C19.heap_load_frame",
]

RTOL = 1e-9


# ------------------------------------------------------------------ small helpers
def exc_enum(e):
    if isinstance(e, IndexError):
        return "index"
    if isinstance(e, ValueError):
        return "value"
    if isinstance(e, ZeroDivisionError):
        return "zerodiv"
    if isinstance(e, TypeError):
        return "type"
    return type(e).__name__


def pm_sexp(ms):
    return "(" + " ".join("(%s %s)" % (fl(w), fl(x)) for w, x in ms) + ")"


def m_sexp(m):
    return "(%s %s)" % (fl(m[0]), fl(m[1]))


def build_measure(m):
    from mystic.math.discrete import measure, point_mass
    return measure([point_mass(x, w) for w, x in zip(m[0], m[1])])


def build_pm(ms):
    from mystic.math.discrete import product_measure
    return product_measure([build_measure(m) for m in ms])


def build_scen(ms, values):
    from mystic.math.discrete import scenario
    s = scenario()
    s.extend(build_pm(ms))
    s.values = list(values)
    return s


def obs_m(m):
    return [[float(v) for v in m.weights], [float(v) for v in m.positions]]


def obs_pm(c):
    return [obs_m(m) for m in c]


def same_pm(a, b):
    return len(a) == len(b) and all(same_vec(p[0], q[0]) and same_vec(p[1], q[1]) for p, q in zip(a, b))


def same_vv(a, b):
    a = list(a); b = list(b)
    return len(a) == len(b) and all(same_vec(p, q) for p, q in zip(a, b))


def pm_of_reply(sx):
    return [[floats_of(m[0]), floats_of(m[1])] for m in sx]


def vv_of_reply(sx):
    return [floats_of(r) for r in sx]


def close(a, b, scale=1.0):
    a = float(a); b = float(b)
    if same_float(a, b) or a == b:
        return True
    if not (math.isfinite(a) and math.isfinite(b)):
        return False
    return abs(a - b) <= RTOL * max(abs(a), abs(b)) + 1e-12 * scale


def frac(x):
    return Fraction(float(x))


def near_frac(val, q, scale=1.0):
    """float `val` equals the exact rational q up to RTOL"""
    val = float(val)
    if not math.isfinite(val):
        return False
    d = abs(Fraction(val) - q)
    return d <= Fraction(RTOL) * max(abs(q), abs(Fraction(val))) + Fraction(1e-12) * Fraction(scale)


# ------------------------------------------------------------------ generators
def gen_shape(rng, allow_zero=True, maxf=4):
    k = rng.random()
    nf = rng.choice([1, 1, 2, 2, 2, 3, 3, 4][:2 * maxf])
    if allow_zero and k < 0.03:
        nf = 0
    sizes = [rng.choice([1, 1, 2, 2, 3, 3, 4, 5]) for _ in range(nf)]
    if allow_zero and nf and rng.random() < 0.05:
        sizes[rng.randrange(nf)] = 0
    if allow_zero and nf and rng.random() < 0.04:      # several zeros / ones (zeros in front, at the end, everywhere)
        sizes = [rng.choice([0, 0, 1, 1, rng.choice([2, 3])]) for _ in range(nf)]
    return sizes


def gen_weight(rng, exact, neg=False):
    if exact:
        return rng.choice([0.0, 0.0, 0.25, 0.5, 0.5, 0.75, 1.0, 1.0, 1.5, 2.0])
    k = rng.random()
    if k < 0.2:
        return 0.0
    if neg and k < 0.3:
        return -rng.random()
    if k < 0.5:
        return dyadic(rng, 0, 2, 8)
    return rng.random()


def gen_pos(rng, exact):
    if exact:
        return dyadic(rng, -4, 4, 8)
    return gfloat(rng, 6.0)


def gen_measure(rng, n, exact, neg=False, positive=False):
    ws = [gen_weight(rng, exact, neg) for _ in range(n)]
    if positive:
        ws = [w if w > 0 else (0.5 if exact else 0.25 + rng.random()) for w in ws]
    xs = [gen_pos(rng, exact) for _ in range(n)]
    if n >= 2 and rng.random() < 0.15:      # duplicate positions (ties)
        xs[rng.randrange(n)] = xs[rng.randrange(n)]
    return [ws, xs]


def gen_pm(rng, sizes, exact, neg=False):
    return [gen_measure(rng, n, exact, neg) for n in sizes]


def gen_const(rng, exact):
    return dyadic(rng, -3, 3, 4) if exact else gfloat(rng, 4.0)


def gen_f(rng, dim, exact, depth=2):
    """test function of the product positions (no division: never raises)"""
    if dim == 0 or depth == 0 or rng.random() < 0.3:
        if dim == 0 or rng.random() < 0.35:
            return ("c", gen_const(rng, exact))
        return ("x", rng.randrange(dim))
    op = rng.choice(["+", "-", "*", "neg", "abs", "min", "max", "sq", "+", "-"])
    if op in ("neg", "abs", "sq"):
        return (op, gen_f(rng, dim, exact, depth - 1))
    return (op, gen_f(rng, dim, exact, depth - 1), gen_f(rng, dim, exact, depth - 1))


def gen_f_tie(rng, ms, exact):
    """x_i - a  with a one of the positions of factor i: f is exactly 0.0 on a whole slice (pof `<=` tie)"""
    cand = [i for i, m in enumerate(ms) if m[1]]
    if not cand:
        return gen_f(rng, len(ms), exact)
    i = rng.choice(cand)
    a = rng.choice(ms[i][1])
    e = ("-", ("x", i), ("c", a))
    if rng.random() < 0.3:
        e = ("neg", e)
    return e


def gen_params(rng, n, exact):
    return [gen_weight(rng, exact) if rng.random() < 0.5 else gen_pos(rng, exact) for _ in range(n)]


# ------------------------------------------------------------------ a case = spec -> request lines + checks
class Case:
    def __init__(self, spec):
        self.spec = spec
        self.lines = []
        self.cmps = []          # (name, impl_observation, fn(parsed_reply) -> None | str)
        self.mon = []           # (class_key, what)
        self.tags = []
        self.nontrivial = False
        self.tol_used = 0

    def ask(self, line, name, impl, cmp):
        self.lines.append("C19 " + line)
        self.cmps.append((name, impl, cmp))

    def fail(self, key, what):
        self.mon.append((key, what))

    def tag(self, t):
        self.tags.append(t)


def call(fn):
    try:
        return ("ok", fn())
    except Exception as e:          # noqa
        return ("err", exc_enum(e))


def expect_pm(case, line, name, res):
    """res = ('ok', obs_pm) | ('err', enum)"""
    def cmp(r):
        if res[0] == "err":
            return None if (r[0] == "err" and r[1] == res[1]) else "impl raised %s, model %r" % (res[1], r)
        if r[0] != "ok":
            return "impl returned, model %r" % (r,)
        got = pm_of_reply(r[1]["c"])
        return None if same_pm(got, res[1]) else "measure differs: model %r impl %r" % (got, res[1])
    case.ask(line, name, res, cmp)


def expect_scen(case, line, name, res):
    def cmp(r):
        if res[0] == "err":
            return None if (r[0] == "err" and r[1] == res[1]) else "impl raised %s, model %r" % (res[1], r)
        if r[0] != "ok":
            return "impl returned, model %r" % (r,)
        got = pm_of_reply(r[1]["c"]); gv = floats_of(r[1]["values"])
        ok = same_pm(got, res[1][0]) and same_vec(gv, res[1][1])
        return None if ok else "scenario differs: model %r %r impl %r" % (got, gv, res[1])
    case.ask(line, name, res, cmp)


def expect_vec(case, line, name, res, key="y"):
    def cmp(r):
        if res[0] == "err":
            return None if (r[0] == "err" and r[1] == res[1]) else "impl raised %s, model %r" % (res[1], r)
        if r[0] != "ok":
            return "impl returned, model %r" % (r,)
        got = floats_of(r[1][key])
        return None if same_vec(got, res[1]) else "vector differs: model %r impl %r" % (got, res[1])
    case.ask(line, name, res, cmp)


def expect_vv(case, line, name, res, key):
    def cmp(r):
        if res[0] == "err":
            return None if (r[0] == "err" and r[1] == res[1]) else "impl raised %s, model %r" % (res[1], r)
        if r[0] != "ok":
            return "impl returned, model %r" % (r,)
        got = vv_of_reply(r[1][key])
        return None if same_vv(got, res[1]) else "nested list differs: model %r impl %r" % (got, res[1])
    case.ask(line, name, res, cmp)


def fvv(vv):
    return [[float(a) for a in r] for r in vv]


# ------------------------------------------------------------------ kind: roundtrip (+ statistics)
def index_tuple(k, sizes):
    idx = []
    for n in sizes:
        idx.append(k % n); k //= n
    return idx


def case_roundtrip(spec):
    from mystic.math.discrete import product_measure, unflatten, decompose, compose, flatten
    from mystic.math.measures import _pack, _unpack
    case = Case(spec)
    ms = spec["pm"]; exact = spec["exact"]; sizes = [len(m[0]) for m in ms]
    c = build_pm(ms)
    before = obs_pm(c)
    # ---- flatten
    flat = [float(v) for v in c.flatten()]
    expect_vec(case, "flatten (c %s)" % pm_sexp(ms), "flatten", ("ok", flat))
    want = []
    for w, x in ms:
        want += list(w) + list(x)
    if not same_vec(flat, want):
        case.fail("flatten/layout", "flatten() = %r is not [w_1.., x_1.., w_2.., x_2..] = %r" % (flat, want))
    if [int(p) for p in c.pts] != sizes:
        case.fail("pts", "pts %r for factor sizes %r" % (c.pts, sizes))
    # ---- load / unflatten with the same shape
    extra = spec.get("extra", [])
    r1 = call(lambda: obs_pm(product_measure().load(list(flat) + list(extra), list(c.pts))))
    expect_pm(case, "load (c ()) (params %s) (npts %s)" % (fl(flat + extra), nl(sizes)), "load", r1)
    if r1[0] != "ok" or not same_pm(r1[1], before):
        case.fail("load/roundtrip", "product_measure().load(c.flatten()%s, c.pts) = %r differs from c = %r"
                  % (" + surplus" if extra else "", r1, before))
    r2 = call(lambda: obs_pm(unflatten(list(flat), tuple(c.pts))))
    expect_pm(case, "unflatten (params %s) (npts %s)" % (fl(flat), nl(sizes)), "unflatten", r2)
    if r2[0] != "ok" or not same_pm(r2[1], before):
        case.fail("unflatten/roundtrip", "unflatten(c.flatten(), c.pts) = %r differs from c = %r" % (r2, before))
    # ---- decompose / compose
    x, w = decompose(c)
    x = fvv(x); w = fvv(w)
    def cmpd(r):
        if r[0] != "ok":
            return "model %r" % (r,)
        gx = vv_of_reply(r[1]["x"]); gw = vv_of_reply(r[1]["w"])
        return None if same_vv(gx, x) and same_vv(gw, w) else "decompose differs: model %r %r impl %r %r" % (gx, gw, x, w)
    case.ask("decompose (c %s)" % pm_sexp(ms), "decompose", (x, w), cmpd)
    if not (same_vv(x, [m[1] for m in ms]) and same_vv(w, [m[0] for m in ms])):
        case.fail("decompose", "decompose(c) = %r, %r is not (positions, weights) of %r" % (x, w, ms))
    if sizes:      # compose(x, []) falls into the uniform-weights branch: separate op
        r3 = call(lambda: obs_pm(compose(x, w)))
        expect_pm(case, "compose (x %s) (w %s)" % (fll(x), fll(w)), "compose", r3)
        if r3[0] != "ok" or not same_pm(r3[1], before):
            case.fail("compose/decompose", "compose(*decompose(c)) = %r differs from c = %r" % (r3, before))
    # ---- product structure
    W = [float(v) for v in c.weights]
    P = [[float(a) for a in t] for t in c.positions]
    tol = spec["tol"]
    e = spec["f"]
    f = lambda v: dsl.ev(e, v)
    res = {}
    res["expect"] = call(lambda: float(c.expect(f)))
    res["expectvar"] = call(lambda: float(c.expect_var(f)))
    res["pof"] = call(lambda: float(c.pof(f)))
    res["support"] = call(lambda: [[float(a) for a in t] for t in c.support(tol)])
    res["sindex"] = call(lambda: [int(i) for i in c.support_index(tol)])
    res["mass"] = call(lambda: [float(v) for v in c.mass])
    res["npts"] = call(lambda: int(c.npts))
    ys = [f(p) for p in P]
    yscale = max([1.0] + [abs(y) for y in ys]) ** 2
    stat_exact = exact

    def cmps(r):
        if r[0] != "ok":
            return "model %r" % (r,)
        kv = r[1]; d = []
        if not same_vec(floats_of(kv["weights"]), W):
            d.append("weights model %r impl %r" % (floats_of(kv["weights"]), W))
        if not same_vv(vv_of_reply(kv["positions"]), P):
            d.append("positions model %r impl %r" % (vv_of_reply(kv["positions"]), P))
        if res["npts"][0] != "ok" or int(kv["npts"]) != res["npts"][1]:
            d.append("npts model %s impl %r" % (kv["npts"], res["npts"]))
        for k in ("expect", "expectvar", "pof"):
            if res[k][0] != "ok":
                d.append("%s impl raised %s" % (k, res[k][1])); continue
            mv = common.b2f(kv[k])
            if same_float(mv, res[k][1]):
                continue
            if stat_exact and k in ("expect", "pof"):
                d.append("%s (exactness regime) model %r impl %r" % (k, mv, res[k][1]))
            elif close(mv, res[k][1], yscale):
                case.tol_used += 1
            else:
                d.append("%s model %r impl %r" % (k, mv, res[k][1]))
        if res["mass"][0] != "ok":
            d.append("mass impl raised")
        else:
            mm = floats_of(kv["mass"])
            if not same_vec(mm, res["mass"][1]):
                if stat_exact or len(mm) != len(res["mass"][1]) or not all(close(a, b) for a, b in zip(mm, res["mass"][1])):
                    d.append("mass model %r impl %r" % (mm, res["mass"][1]))
                else:
                    case.tol_used += 1
        if res["support"][0] != "ok" or kv["support"] == "none":
            d.append("support model %r impl %r" % (kv["support"], res["support"]))
        elif not same_vv(vv_of_reply(kv["support"]), res["support"][1]):
            d.append("support model %r impl %r" % (vv_of_reply(kv["support"]), res["support"][1]))
        if res["sindex"][0] != "ok" or [int(t) for t in kv["sindex"]] != res["sindex"][1]:
            d.append("support_index model %r impl %r" % (kv["sindex"], res["sindex"]))
        return "; ".join(d) if d else None
    case.ask("stats (c %s) (f %s) (tol %s)" % (pm_sexp(ms), dsl.expr_sexp(e), f2b(tol)), "stats",
             {"weights": W, "positions": P, "res": res}, cmps)
    # ---- monitor: product structure (documented order: first factor fastest)
    total = 1
    for n in sizes:
        total *= n
    if len(W) != total or len(P) != total or res["npts"] != ("ok", total):
        case.fail("product/count", "len(weights)=%d len(positions)=%d npts=%r for sizes %r" % (len(W), len(P), res["npts"], sizes))
    else:
        for k in range(total):
            idx = index_tuple(k, sizes)
            wp = 1.0
            for i, j in enumerate(idx):
                wp = wp * ms[i][0][j]
            pp = [ms[i][1][j] for i, j in enumerate(idx)]
            if not same_float(W[k], wp) and not near_frac(W[k], math.prod([frac(ms[i][0][j]) for i, j in enumerate(idx)])):
                case.fail("product/weights", "weights[%d] = %r is not the product %r of the factor weights at %r" % (k, W[k], wp, idx)); break
            if not same_vec(P[k], pp):
                case.fail("product/positions-order", "positions[%d] = %r, expected %r (first factor fastest) in %r" % (k, P[k], pp, ms)); break
    # total mass = product of masses
    if res["mass"][0] == "ok":
        mq = [sum((frac(v) for v in m[0]), Fraction(0)) for m in ms]
        if len(res["mass"][1]) != len(ms) or not all((same_float(a, float(q)) if exact else near_frac(a, q)) for a, q in zip(res["mass"][1], mq)):
            case.fail("mass", "mass %r is not the list of factor weight sums %r" % (res["mass"][1], [float(q) for q in mq]))
        tw = sum((frac(v) for v in W), Fraction(0))
        pq = Fraction(1)
        for q in mq:
            pq *= q
        okm = (tw == pq) if exact else (abs(tw - pq) <= Fraction(RTOL) * max(abs(pq), Fraction(1)))
        if not okm:
            case.fail("mass/product", "sum(weights) = %r but the product of the factor masses is %r" % (float(tw), float(pq)))
    else:
        case.fail("mass/raises", "mass raised %s" % res["mass"][1])
    # ---- monitor: statistics = explicit sums over the weighted points
    wq = [frac(v) for v in W]
    sw = sum(wq, Fraction(0))
    for k in ("expect", "expectvar", "pof", "support", "sindex"):
        if res[k][0] != "ok":
            case.fail("stats/raises/" + k, "%s raised %s on %r" % (k, res[k][1], ms))
    if total > 0 and sw != 0 and all(v >= 0 for v in W):
        yq = [frac(y) for y in ys]
        E = sum((a * b for a, b in zip(wq, yq)), Fraction(0)) / sw
        if res["expect"][0] == "ok":
            v = res["expect"][1]
            if not ((exact and same_float(v, float(E))) or (not exact and near_frac(v, E, math.sqrt(yscale)))) and not (exact and v == 0.0 and E == 0):
                case.fail("expect/definition", "expect(f) = %r but sum(w*f)/sum(w) = %r" % (v, float(E)))
        V = sum((a * (b - E) ** 2 for a, b in zip(wq, yq)), Fraction(0)) / sw
        if res["expectvar"][0] == "ok" and not near_frac(res["expectvar"][1], V, yscale):
            case.fail("expect_var/definition", "expect_var(f) = %r but sum(w*(f-E)^2)/sum(w) = %r" % (res["expectvar"][1], float(V)))
        case.tag("stats:defined")
    else:
        case.tag("stats:degenerate-mass")
    if res["pof"][0] == "ok":
        F = sum((a for a, y in zip(wq, ys) if y <= 0.0), Fraction(0))
        v = res["pof"][1]
        if not ((exact and same_float(v, float(F))) or (not exact and near_frac(v, F))):
            case.fail("pof/definition", "pof(f) = %r but the weight of {f <= 0} is %r" % (v, float(F)))
        if any(y == 0.0 and wv != 0.0 for y, wv in zip(ys, W)):
            case.tag("pof:tie-at-zero")
    if res["support"][0] == "ok" and res["sindex"][0] == "ok":
        wi = [i for i, v in enumerate(W) if v > tol]
        if res["sindex"][1] != wi or not same_vv(res["support"][1], [P[i] for i in wi]):
            case.fail("support/definition", "support(tol=%r) = %r / %r, expected indices %r" % (tol, res["sindex"][1], res["support"][1], wi))
        if any(v == tol for v in W):
            case.tag("support:tie-at-tol")
    # ---- positions setter / pack / unpack round trip
    if sizes and all(n > 0 for n in sizes):
        r4 = call(lambda: fvv(_unpack(_pack([m[1] for m in ms]), sizes)))
        expect_vv(case, "unpack (p %s) (npts %s)" % (fll(P), nl(sizes)), "unpack", r4, "s")
        if r4[0] != "ok" or not same_vv(r4[1], [m[1] for m in ms]):
            case.fail("unpack/pack", "_unpack(_pack(s), shape) = %r differs from s = %r" % (r4, [m[1] for m in ms]))
        c5 = build_pm(ms)
        def setp():
            c5.positions = c5.positions
            return obs_pm(c5)
        r5 = call(setp)
        expect_pm(case, "setpos (c %s) (p %s)" % (pm_sexp(ms), fll(P)), "setpos", r5)
        if r5[0] != "ok" or not same_pm(r5[1], before):
            case.fail("positions/setter-roundtrip", "c.positions = c.positions changed c: %r -> %r" % (before, r5))
    pk = fvv(_pack([m[1] for m in ms]))
    expect_vv(case, "pack (s %s)" % fll([m[1] for m in ms]), "pack", ("ok", pk), "p")
    # ---- nothing above may have changed c
    if not same_pm(obs_pm(c), before):
        case.fail("aliasing/readonly-op-mutates", "flatten/decompose/statistics changed the measure: %r -> %r" % (before, obs_pm(c)))
    case.nontrivial = len(sizes) >= 2 and len(set(sizes)) >= 1 and total >= 2
    case.tag("shape:%d-factors" % len(sizes))
    if any(n == 0 for n in sizes):
        case.tag("shape:empty-factor")
    if any(n == 1 for n in sizes):
        case.tag("shape:size-1-factor")
    if len(set(sizes)) > 1:
        case.tag("shape:unequal-sizes")
    if any(v == 0.0 for m in ms for v in m[0]):
        case.tag("weights:has-zero")
    case.tag("regime:exact" if exact else "regime:general")
    return case


def gen_roundtrip(rng):
    exact = rng.random() < 0.5
    sizes = gen_shape(rng)
    neg = (not exact) and rng.random() < 0.08
    ms = gen_pm(rng, sizes, exact, neg)
    e = gen_f_tie(rng, ms, exact) if rng.random() < 0.35 else gen_f(rng, len(sizes), exact)
    allw = sorted(set([1.0]))
    k = rng.random()
    if k < 0.6:
        tol = 0.0
    elif k < 0.85 and sizes and all(n > 0 for n in sizes):
        # a tolerance equal to one of the product weights (tie: `w > tol` must exclude it)
        idx = [rng.randrange(n) for n in sizes]
        t = 1.0
        for i, j in enumerate(idx):
            t = t * ms[i][0][j]
        tol = t
    else:
        tol = rng.choice([0.125, 0.25, 0.5])
    extra = [gen_pos(rng, exact) for _ in range(rng.randint(1, 3))] if rng.random() < 0.2 else []
    return {"kind": "roundtrip", "exact": exact, "pm": ms, "f": e, "tol": tol, "extra": extra}


# ------------------------------------------------------------------ kind: update (product_measure and scenario)
def case_update(spec):
    from mystic.math.discrete import product_measure, scenario
    case = Case(spec)
    ms = spec["pm"]; params = spec["params"]; sizes = [len(m[0]) for m in ms]
    L = 2 * sum(sizes)
    if spec["scenario"]:
        vals = spec["values"]
        s = build_scen(ms, vals)
        pin = list(params)
        r = call(lambda: (lambda t: (obs_pm(t), [float(v) for v in t.values]))(s.update(pin)))
        expect_scen(case, "supdate (c %s) (values %s) (params %s)" % (pm_sexp(ms), fl(vals), fl(params)), "scenario.update", r)
        if r[0] == "ok":
            newpm, newvals = r[1]
        if pin != list(params):
            case.fail("aliasing/update-mutates-params", "update() changed its argument")
    else:
        c = build_pm(ms)
        pin = list(params)
        r = call(lambda: obs_pm(c.update(pin)))
        expect_pm(case, "update (c %s) (params %s)" % (pm_sexp(ms), fl(params)), "update", r)
        if r[0] == "ok":
            newpm, newvals = r[1], None
        if pin != list(params):
            case.fail("aliasing/update-mutates-params", "update() changed its argument")
    if r[0] != "ok":
        case.fail("update/raises", "update raised %s (params of length %d for shape %r)" % (r[1], len(params), sizes))
    elif len(params) >= L and any(n == 0 for n in sizes):
        # every shape (theorem update_any_shape): `zo = pm.count([])` also counts the factors that are empty by SHAPE, so
        # with z empty factors the first len-z factors are exactly as given and the LAST z factors keep their old numbers
        z = sum(1 for n in sizes if n == 0)
        want = []; p = 0
        for n in sizes:
            want.append([list(params[p:p + n]), list(params[p + n:p + 2 * n])]); p += 2 * n
        want = want[:len(sizes) - z] + [[list(m[0]), list(m[1])] for m in ms[len(sizes) - z:]]
        if not same_pm(newpm, want):
            case.fail("update/empty-factor-frame", "shape %r (z=%d): after update the measure is %r, expected first len-z factors "
                      "as given and the last z unchanged: %r" % (sizes, z, newpm, want))
        if all(n == 0 for n in sizes[len(sizes) - z:]):
            case.tag("update:empty-factors-at-end")
            case.nontrivial = sum(sizes) > 0
        case.tag("update:empty-factor-shape")
    elif len(params) >= L:
        # the property: exactly the addressed weights / positions (/ values) change, to the given numbers
        want = []; p = 0
        for n in sizes:
            want.append([list(params[p:p + n]), list(params[p + n:p + 2 * n])]); p += 2 * n
        if not same_pm(newpm, want):
            case.fail("update/addressed", "after update(params) the measure is %r, expected %r" % (newpm, want))
        case.nontrivial = bool(sizes) and sum(sizes) > 0
        case.tag("update:full" if len(params) == L else "update:with-values")
    elif all(n > 0 for n in sizes):
        # every prefix length (theorem update_every_prefix): cut k = number of factors whose weights block is passed;
        # factors >= k unchanged, fully covered factors exactly as given, a partly covered positions block is zipped short
        P = len(params); want = []; off = 0; k = 0
        for i, n in enumerate(sizes):
            if off + n < P:
                k = i + 1
                w = list(params[off:off + n]); x = list(params[off + n:off + 2 * n])
                want.append([w[:len(x)], x])
            else:
                want.append([list(ms[i][0]), list(ms[i][1])])
            off += 2 * n
        if len(newpm) != len(ms):
            case.fail("update/prefix-factor-count", "update changed the number of factors: %d -> %d" % (len(ms), len(newpm)))
        else:
            for i in range(len(ms)):
                if i >= k and not same_pm([newpm[i]], [ms[i]]):
                    case.fail("update/prefix-frame", "len(params)=%d reaches only %d factor(s) of shape %r but factor %d changed: %r -> %r"
                              % (P, k, sizes, i, ms[i], newpm[i])); break
                if i < k and not same_pm([newpm[i]], [want[i]]):
                    case.fail("update/prefix-addressed", "len(params)=%d, shape %r: factor %d is %r, expected %r"
                              % (P, sizes, i, newpm[i], want[i])); break
        case.nontrivial = k >= 1
        case.tag("update:short-params")
        case.tag("update:prefix-cut-%s" % ("0" if k == 0 else ("all" if k == len(sizes) else "inside")))
    else:
        case.tag("update:short-params")
        case.tag("update:short-params-empty-factor")
    if spec["scenario"] and r[0] == "ok":
        # values (theorem supdate_every_prefix), for every parameter length and shape: the list keeps its length, the first
        # min(#surplus, #values) entries are replaced by the surplus parameters, the rest is kept
        nv = list(params[L:])
        wv = nv[:len(vals)] + list(vals[len(nv):])
        if not same_vec(newvals, wv):
            case.fail("update/values", "after update the values are %r, expected %r (old %r, given %r)" % (newvals, wv, vals, nv))
        if nv and len(nv) < len(vals):
            case.tag("update:partial-values")
        elif len(nv) > len(vals):
            case.tag("update:surplus-values")
    case.tag("update:scenario" if spec["scenario"] else "update:product_measure")
    return case


def gen_update(rng):
    exact = rng.random() < 0.5
    sizes = gen_shape(rng)
    if rng.random() < 0.12 and sizes:              # shapes with empty factors in chosen places (front / end / middle)
        z = rng.randint(1, 2)
        where = rng.choice(["front", "end", "any"])
        if where == "front":
            sizes = [0] * z + sizes
        elif where == "end":
            sizes = sizes + [0] * z
        else:
            for _ in range(z):
                sizes.insert(rng.randint(0, len(sizes)), 0)
    ms = gen_pm(rng, sizes, exact)
    L = 2 * sum(sizes)
    scen = rng.random() < 0.5
    total = 1
    for s in sizes:
        total *= s
    vals = [gen_pos(rng, exact) for _ in range(rng.choice([0, total, total, rng.randint(0, 6)]))] if scen else []
    k = rng.random()
    if k < 0.35:
        n = L
    elif k < 0.55:
        n = L + rng.randint(1, 6)
    elif k < 0.70 and scen and len(vals) >= 2:
        n = L + rng.randint(1, len(vals) - 1)          # partial update of the values: only the first k given
    elif k < 0.80 and sizes:
        # a prefix ending exactly at a block boundary (after a weights block / after a factor)
        cuts = [0]; off = 0
        for s in sizes:
            cuts += [off + s, off + 2 * s]; off += 2 * s
        n = rng.choice(cuts)
    else:
        n = rng.randint(0, max(L - 1, 0))
    params = gen_params(rng, n, exact)
    return {"kind": "update", "exact": exact, "pm": ms, "params": params, "scenario": scen, "values": vals}


# ------------------------------------------------------------------ kind: scenario round trip
def case_scenario(spec):
    from mystic.math.discrete import scenario
    case = Case(spec)
    ms = spec["pm"]; vals = spec["values"]; sizes = [len(m[0]) for m in ms]
    pm = build_pm(ms)
    vin = list(vals)
    r0 = call(lambda: (lambda t: (obs_pm(t), [float(v) for v in t.values]))(scenario(pm, vin)))
    expect_scen(case, "mkscen (c %s) (values %s)" % (pm_sexp(ms), fl(vals)), "scenario()", r0)
    if r0[0] != "ok" or not same_pm(r0[1][0], ms) or not same_vec(r0[1][1], vals):
        case.fail("scenario/constructor", "scenario(pm, values) = %r, expected %r with values %r" % (r0, ms, vals))
    s = scenario(pm, list(vals))
    for allflag in (True, False):
        fa = [float(v) for v in s.flatten(all=allflag)]
        expect_vec(case, "sflatten (c %s) (values %s) (all %s)" % (pm_sexp(ms), fl(vals), "true" if allflag else "false"),
                   "scenario.flatten", ("ok", fa))
    flat = [float(v) for v in s.flatten()]     # all=True is the default
    base = []
    for w, x in ms:
        base += list(w) + list(x)
    if not same_vec(flat, base + list(vals)):
        case.fail("scenario/flatten-layout", "flatten() = %r, expected parameters then values %r" % (flat, base + list(vals)))
    # load with the same shape into an empty scenario and into one that already has values
    old = spec["oldvalues"]
    s2 = scenario(); s2.values = list(old)
    r1 = call(lambda: (lambda t: (obs_pm(t), [float(v) for v in t.values]))(s2.load(list(flat), list(s.pts))))
    expect_scen(case, "sload (c ()) (values %s) (params %s) (npts %s)" % (fl(old), fl(flat), nl(sizes)), "scenario.load", r1)
    wantv = list(vals) if vals else list(old)
    if r1[0] != "ok" or not same_pm(r1[1][0], ms):
        case.fail("scenario/load-roundtrip", "scenario().load(s.flatten(), s.pts) = %r differs from s = %r" % (r1, ms))
    elif not same_vec(r1[1][1], wantv):
        case.fail("scenario/load-values", "values after load are %r, expected %r" % (r1[1][1], wantv))
    # the values setter copies
    s3 = scenario(); v3 = list(vals); s3.values = v3
    if v3:
        v3[0] = v3[0] + 1.0
        if not same_vec([float(v) for v in s3.values], vals):
            case.fail("aliasing/values-setter", "scenario.values = v keeps an alias of v")
    case.nontrivial = bool(vals) and len(sizes) >= 1
    case.tag("scenario:with-values" if vals else "scenario:no-values")
    return case


def gen_scenario(rng):
    exact = rng.random() < 0.5
    sizes = gen_shape(rng)
    ms = gen_pm(rng, sizes, exact)
    total = 1
    for s in sizes:
        total *= s
    k = rng.random()
    nv = total if k < 0.6 else (0 if k < 0.75 else rng.randint(1, 5))
    vals = [gen_pos(rng, exact) for _ in range(nv)]
    old = [gen_pos(rng, exact) for _ in range(rng.choice([0, 0, 2]))]
    return {"kind": "scenario", "exact": exact, "pm": ms, "values": vals, "oldvalues": old}


# ------------------------------------------------------------------ kind: malformed / boundary inputs of the helpers
def case_helpers(spec):
    from mystic.math.discrete import product_measure, unflatten, compose
    from mystic.math.measures import _pack, _unpack, _nested, _flat, _nested_split
    case = Case(spec)
    op = spec["op"]
    if op == "nested":
        params, npts = spec["params"], spec["npts"]
        n = fvv(_nested(list(params), tuple(npts)))
        fb = [float(v) for v in _flat(n)]
        w, x = _nested_split(list(params), tuple(npts))
        w = fvv(w); x = fvv(x)
        def cmp(r):
            if r[0] != "ok":
                return "model %r" % (r,)
            kv = r[1]
            ok = same_vv(vv_of_reply(kv["p"]), n) and same_vec(floats_of(kv["flat"]), fb) and \
                same_vv(vv_of_reply(kv["w"]), w) and same_vv(vv_of_reply(kv["x"]), x)
            return None if ok else "nested/flat/split differ: model %r impl %r" % (kv, (n, fb, w, x))
        case.ask("nested (params %s) (npts %s)" % (fl(params), nl(npts)), "_nested/_flat/_nested_split", (n, fb, w, x), cmp)
        if len(params) == sum(npts):
            if not same_vec(fb, params):
                case.fail("nested/flat-roundtrip", "_flat(_nested(p, shape)) = %r differs from p = %r" % (fb, params))
            if [len(r) for r in n] != list(npts):
                case.fail("nested/shape", "_nested(p, %r) has row lengths %r" % (npts, [len(r) for r in n]))
            case.nontrivial = len(npts) >= 2
        case.tag("helpers:nested")
    elif op == "unflatten":
        params, npts = spec["params"], spec["npts"]
        r = call(lambda: obs_pm(unflatten(list(params), tuple(npts))))
        expect_pm(case, "unflatten (params %s) (npts %s)" % (fl(params), nl(npts)), "unflatten", r)
        r2 = call(lambda: obs_pm(build_pm(spec["pm"]).load(list(params), tuple(npts))))
        expect_pm(case, "load (c %s) (params %s) (npts %s)" % (pm_sexp(spec["pm"]), fl(params), nl(npts)), "load", r2)
        if r2[0] == "ok" and not same_pm(r2[1][:len(spec["pm"])], spec["pm"]):
            case.fail("load/appends", "load() changed the measures already present: %r -> %r" % (spec["pm"], r2[1]))
        case.nontrivial = len(params) != 2 * sum(npts)
        case.tag("helpers:unflatten-%s" % ("short" if len(params) < 2 * sum(npts) else ("long" if len(params) > 2 * sum(npts) else "fit")))
    elif op == "compose":
        x, w = spec["x"], spec["w"]
        r = call(lambda: obs_pm(compose([list(t) for t in x], [list(t) for t in w])))
        expect_pm(case, "compose (x %s) (w %s)" % (fll(x), fll(w)), "compose", r)
        case.nontrivial = r[0] == "err"
        case.tag("helpers:compose-%s" % r[0])
    elif op == "composeu":
        x = spec["x"]
        r = call(lambda: obs_pm(compose([list(t) for t in x])))
        expect_pm(case, "composeu (x %s)" % fll(x), "compose(uniform)", r)
        if r[0] == "ok":
            for (wv, xv), xs in zip(r[1], x):
                if not same_vec(xv, xs) or any(not close(v, 1.0 / len(xs)) for v in wv):
                    case.fail("compose/uniform", "compose(x) gave %r for positions %r" % ((wv, xv), xs))
        case.nontrivial = True
        case.tag("helpers:compose-uniform")
    elif op == "unpack":
        P, npts = spec["p"], spec["npts"]
        r = call(lambda: fvv(_unpack([tuple(t) for t in P], tuple(npts))))
        expect_vv(case, "unpack (p %s) (npts %s)" % (fll(P), nl(npts)), "_unpack", r, "s")
        case.nontrivial = True
        case.tag("helpers:unpack-%s" % (r[0] if r[0] == "ok" else r[1]))
    return case


def gen_helpers(rng):
    exact = rng.random() < 0.5
    op = rng.choice(["nested", "unflatten", "unflatten", "compose", "composeu", "unpack", "unpack"])
    if op == "nested":
        npts = gen_shape(rng)
        n = sum(npts) + rng.choice([0, 0, 0, 1, -1, 3])
        return {"kind": "helpers", "op": op, "params": gen_params(rng, max(n, 0), exact), "npts": npts}
    if op == "unflatten":
        npts = gen_shape(rng)
        n = 2 * sum(npts) + rng.choice([0, 1, 2, -1, -2, -3, 5])
        return {"kind": "helpers", "op": op, "params": gen_params(rng, max(n, 0), exact), "npts": npts,
                "pm": gen_pm(rng, gen_shape(rng, maxf=2), exact)}
    if op == "compose":
        sizes = gen_shape(rng, allow_zero=False)
        x = [[gen_pos(rng, exact) for _ in range(n)] for n in sizes]
        w = [[gen_weight(rng, exact) for _ in range(n + rng.choice([0, 0, 0, 1, -1]))] for n in sizes]
        k = rng.random()
        if k < 0.15 and len(w) > 1:
            w = w[:-1]
        elif k < 0.3:
            w = w + [[1.0]]
        return {"kind": "helpers", "op": op, "x": x, "w": w}
    if op == "composeu":
        sizes = gen_shape(rng, allow_zero=False)
        return {"kind": "helpers", "op": op, "x": [[gen_pos(rng, exact) for _ in range(n)] for n in sizes]}
    # unpack: a packed list with a shape that may not fit
    from mystic.math.measures import _pack
    sizes = gen_shape(rng, allow_zero=False)
    s = [[gen_pos(rng, exact) for _ in range(n)] for n in sizes]
    P = [list(t) for t in _pack(s)]
    npts = list(sizes)
    k = rng.random()
    if k < 0.25:
        npts[rng.randrange(len(npts))] += rng.choice([1, -1])
    elif k < 0.35:
        npts = npts + [rng.choice([1, 2])]
    elif k < 0.45:
        npts = npts[:-1]
    elif k < 0.55:
        P = P[:rng.randint(0, len(P))]
    elif k < 0.6:
        npts[rng.randrange(len(npts))] = 0
    return {"kind": "helpers", "op": "unpack", "p": P, "npts": [max(n, 0) for n in npts]}


# ------------------------------------------------------------------ kind: one measure, center_mass / range / var
def case_measure(spec):
    case = Case(spec)
    m = spec["m"]; exact = spec["exact"]; which = spec["which"]; v = spec["v"]
    M = build_measure(m)
    g = {"mean": call(lambda: float(M.center_mass)), "var": call(lambda: float(M.var)), "mass": call(lambda: float(M.mass)),
         "range": call(lambda: float(M.range))}
    xs = m[1]; ws = m[0]
    scale = max([1.0] + [abs(t) for t in xs] + [abs(v)])

    def cmpg(r):
        if r[0] != "ok":
            return "model %r" % (r,)
        d = []
        for k in ("mean", "var", "mass", "range"):
            tok = r[1][k]
            if g[k][0] != "ok":
                if not (k == "range" and tok == "none" and g[k][1] == "value"):
                    d.append("%s impl raised %s model %s" % (k, g[k][1], tok))
                continue
            if tok == "none":
                d.append("%s model none impl %r" % (k, g[k][1])); continue
            mv = common.b2f(tok)
            if same_float(mv, g[k][1]):
                continue
            if exact and k in ("mean", "mass", "range"):
                d.append("%s (exactness regime) model %r impl %r" % (k, mv, g[k][1]))
            elif close(mv, g[k][1], scale * scale):
                case.tol_used += 1
            else:
                d.append("%s model %r impl %r" % (k, mv, g[k][1]))
        return "; ".join(d) if d else None
    case.ask("mstats (m %s)" % m_sexp(m), "measure getters", g, cmpg)
    M2 = build_measure(m)

    def setit():
        if which == "mean":
            M2.center_mass = v
        elif which == "range":
            M2.range = v
        else:
            M2.var = v
        return obs_m(M2)
    r = call(setit)

    def cmps(rep):
        if r[0] == "err":
            return None if (rep[0] == "err" and rep[1] == r[1]) else "impl raised %s, model %r" % (r[1], rep)
        if rep[0] != "ok":
            return "impl returned, model %r" % (rep,)
        gm = [floats_of(rep[1]["m"][0]), floats_of(rep[1]["m"][1])]
        if not same_vec(gm[0], r[1][0]):
            return "weights model %r impl %r" % (gm[0], r[1][0])
        if same_vec(gm[1], r[1][1]):
            return None
        if which == "var" and not exact and len(set(a for a, b in zip(xs, ws) if b != 0.0)) <= 1:
            # true variance exactly 0 (excluded by the property: "non-degenerate"): whether the computed variance
            # is 0.0 or 1e-31 depends on the rounding of the mean, and the two branches differ (nan vs rescaled)
            case.tag("measure:var-degenerate-not-compared")
            return None
        if exact and which == "mean":
            return "positions (exactness regime) model %r impl %r" % (gm[1], r[1][1])
        if len(gm[1]) == len(r[1][1]) and all(close(a, b, scale) for a, b in zip(gm[1], r[1][1])):
            case.tol_used += 1
            return None
        return "positions model %r impl %r" % (gm[1], r[1][1])
    case.ask("mset (m %s) (which %s) (v %s)" % (m_sexp(m), which, f2b(v)), "measure setter " + which, r, cmps)
    # ---- monitor: the setter achieves the value (non-degenerate inputs, as the property's C18 part requires)
    sw = sum(ws); n = len(xs)
    nondeg = n >= 1 and sw > 0 and all(w >= 0 for w in ws)
    if r[0] == "ok" and nondeg:
        if not same_vec(r[1][0], ws):
            case.fail("measure/setter-changes-weights", "setting %s changed the weights %r -> %r" % (which, ws, r[1][0]))
        wq = [frac(t) for t in ws]; swq = sum(wq, Fraction(0))
        nx = r[1][1]
        if all(math.isfinite(t) for t in nx):
            xq = [frac(t) for t in nx]
            mean_after = sum((a * b for a, b in zip(wq, xq)), Fraction(0)) / swq
            if which == "mean":
                if abs(mean_after - frac(v)) > Fraction(RTOL) * Fraction(scale):
                    case.fail("measure/center_mass-not-achieved", "center_mass = %r gives weighted mean %r" % (v, float(mean_after)))
                case.nontrivial = True
            elif which == "range":
                if max(xs) != min(xs) and v >= 0:
                    if abs(frac(max(nx)) - frac(min(nx)) - frac(v)) > Fraction(RTOL) * Fraction(scale):
                        case.fail("measure/range-not-achieved", "range = %r gives spread %r" % (v, max(nx) - min(nx)))
                    case.nontrivial = True
            else:
                xq0 = [frac(t) for t in xs]
                m0 = sum((a * b for a, b in zip(wq, xq0)), Fraction(0)) / swq
                v0 = sum((a * (b - m0) ** 2 for a, b in zip(wq, xq0)), Fraction(0)) / swq
                if v0 > Fraction(1, 10 ** 6) and v >= 0:
                    va = sum((a * (b - mean_after) ** 2 for a, b in zip(wq, xq)), Fraction(0)) / swq
                    if abs(va - frac(v)) > Fraction(RTOL) * Fraction(scale * scale):
                        case.fail("measure/var-not-achieved", "var = %r gives weighted variance %r" % (v, float(va)))
                    case.nontrivial = True
        elif which == "mean":
            case.fail("measure/center_mass-not-finite", "center_mass = %r gives %r" % (v, nx))
    case.tag("measure:set-%s" % which)
    case.tag("regime:exact" if exact else "regime:general")
    if n == 1:
        case.tag("measure:single-point")
    return case


def gen_measure_case(rng):
    exact = rng.random() < 0.5
    n = rng.choice([1, 2, 2, 3, 3, 4, 5])
    if rng.random() < 0.03:
        n = 0
    m = gen_measure(rng, n, exact, positive=rng.random() < 0.7)
    which = rng.choice(["mean", "range", "var"])
    if which == "mean":
        v = gen_pos(rng, exact)
    else:
        v = abs(gen_pos(rng, exact)) if rng.random() < 0.9 else 0.0
    return {"kind": "measure", "exact": exact, "m": m, "which": which, "v": v}


# ------------------------------------------------------------------ kind: constraints.impose_measure
def case_impose(spec):
    from mystic.constraints import impose_measure
    case = Case(spec)
    npts = spec["npts"]; x = spec["x"]; exact = spec["exact"]
    L = 2 * sum(npts)
    # `tracking` / `noweight` are one dict, or (when a second item list is present) a tuple of two dicts: the code visits
    # the dicts in order and each dict's items in insertion order; the model gets the same sequence of (factor, selection)
    tr_items = [list(spec["tracking"]), list(spec.get("tracking2", []))]
    nw_items = [list(spec["noweight"]), list(spec.get("noweight2", []))]
    mk_tr = lambda items: {int(k): set(tuple(p) for p in v) for k, v in items}
    mk_nw = lambda items: {int(k): set(v) for k, v in items}
    tracking = mk_tr(tr_items[0]) if not tr_items[1] else (mk_tr(tr_items[0]), mk_tr(tr_items[1]))
    noweight = mk_nw(nw_items[0]) if not nw_items[1] else (mk_nw(nw_items[0]), mk_nw(nw_items[1]))
    tr_seq = tr_items[0] + tr_items[1]; nw_seq = nw_items[0] + nw_items[1]
    xin = list(x)
    r = call(lambda: [float(v) for v in impose_measure(tuple(npts), tracking, noweight)(lambda z: z)(xin)])
    if xin != list(x):
        case.fail("aliasing/impose-mutates-input", "impose_measure changed its argument")
    # request: indices normalised (negative -> len+i), pairs grouped by their (shared) first index, members ascending
    tr = []
    for k, pairs in tr_seq:
        n = npts[k]; groups = {}
        for i, j in pairs:
            i = n + i if i < 0 else i; j = n + j if j < 0 else j
            groups.setdefault(i, set()).add(j)
        tr.append("(%d %s)" % (k, " ".join("(%d %s)" % (i, " ".join(str(j) for j in sorted(js))) for i, js in groups.items())))
    nw = []
    for k, idx in nw_seq:
        n = npts[k]
        norm = [n + i if i < 0 else i for i in idx]
        nw.append("(%d %s)" % (k, " ".join(str(i) for i in norm if i >= 0)))     # an index that stays negative selects nothing
    scale = max([1.0] + [abs(v) for v in x])

    def cmp(rep):
        if r[0] == "err":
            return None if (rep[0] == "err" and rep[1] == r[1]) else "impl raised %s, model %r" % (r[1], rep)
        if rep[0] != "ok":
            return "impl returned, model %r" % (rep,)
        got = floats_of(rep[1]["y"])
        if same_vec(got, r[1]):
            return None
        if len(got) == len(r[1]) and all(close(a, b, scale) or (a != a and b != b) for a, b in zip(got, r[1])):
            if exact and spec.get("strict", False):
                return "result (exactness regime) model %r impl %r" % (got, r[1])
            case.tol_used += 1
            return None
        return "result model %r impl %r" % (got, r[1])
    case.ask("impose (npts %s) (x %s) (tracking (%s)) (noweight (%s))" % (nl(npts), fl(x), " ".join(tr), " ".join(nw)),
             "impose_measure", r, cmp)
    # ---- monitor: what the constraint promises (non-degenerate: positive total weights)
    if r[0] != "ok":
        case.fail("impose/raises", "impose_measure raised %s on a well-formed input" % r[1])
        return case
    y = r[1]
    if len(y) != L:
        case.fail("impose/shape", "result has %d parameters, the shape %r needs %d (input had %d)" % (len(y), npts, L, len(x)))
        return case
    tr_count = {}; nw_count = {}
    for k, _ in tr_seq:
        tr_count[k] = tr_count.get(k, 0) + 1
    for k, _ in nw_seq:
        nw_count[k] = nw_count.get(k, 0) + 1
    p = 0
    for k, n in enumerate(npts):
        w0 = x[p:p + n]; x0 = x[p + n:p + 2 * n]; w1 = y[p:p + n]; x1 = y[p + n:p + 2 * n]; p += 2 * n
        touched = k in tr_count or k in nw_count
        if not touched:
            # theorem impose_measure_frame: flatten -> impose -> unflatten only changes what it addresses
            if not (same_vec(w0, w1) and same_vec(x0, x1)):
                case.fail("impose/untouched-factor-changed", "factor %d is not addressed but changed: %r -> %r" % (k, (w0, x0), (w1, x1)))
            continue
        if sum(w0) <= 0 or any(v < 0 for v in w0) or not all(math.isfinite(v) for v in w0 + x0):
            case.tag("impose:degenerate"); continue
        nz = lambda i: n + i if i < 0 else i
        last_nw = [idx for kk, idx in nw_seq if kk == k]
        last_nw = set(nz(i) for i in last_nw[-1]) if last_nw else set()
        all_nw_ok = all(len(set(nz(i) for i in idx if 0 <= nz(i) < n)) < n for kk, idx in nw_seq if kk == k)
        if not all_nw_ok:
            case.tag("impose:noweight-covers-factor"); continue       # every point selected: nothing can carry the weight
        if not all(math.isfinite(v) for v in w1 + x1):
            # hypotheses of impose_measure_kept hold (non-negative weights of positive total, a point left outside
            # every noweight selection): the result is a measure with the same total weight, in particular finite
            case.fail("impose/not-finite", "factor %d: %r -> %r" % (k, (w0, x0), (w1, x1))); continue
        wq0 = [frac(v) for v in w0]; wq1 = [frac(v) for v in w1]
        tw0 = sum(wq0, Fraction(0)); tw1 = sum(wq1, Fraction(0))
        # theorem impose_measure_noweight_zero: the indices of the last noweight item on this factor carry no weight
        for i in last_nw:
            if 0 <= i < n and w1[i] != 0.0:
                case.fail("impose/weight-not-removed", "factor %d: weight %d is %r, expected 0 (%r -> %r)" % (k, i, w1[i], w0, w1))
        if any(v < 0 for v in w1):
            case.fail("impose/negative-weight", "factor %d: non-negative weights %r became %r" % (k, w0, w1))
        if tr_count.get(k, 0) == 1:
            # theorem impose_measure_collapsed: paired positions coincide (also after noweight items); the removed
            # weight is zero when no noweight item re-weights this factor
            pairs = [pr for kk, prs in tr_seq if kk == k for pr in prs]
            for (i, j) in pairs:
                if x1[nz(i)] != x1[nz(j)]:
                    case.fail("impose/positions-not-collapsed", "factor %d: positions %d and %d differ: %r" % (k, nz(i), nz(j), x1))
                if k not in nw_count and w1[nz(j)] != 0.0:
                    case.fail("impose/weight-not-removed", "factor %d: collapsed weight %d is %r, expected 0 (%r -> %r)" % (k, nz(j), w1[nz(j)], w0, w1))
        # theorem impose_measure_kept: total weight and centre of mass of every factor
        if abs(tw1 - tw0) > Fraction(RTOL) * max(abs(tw0), Fraction(1)):
            case.fail("impose/total-weight-changed", "factor %d: total weight %r -> %r" % (k, float(tw0), float(tw1)))
        elif tw1 != 0:
            m0 = sum((a * frac(b) for a, b in zip(wq0, x0)), Fraction(0)) / tw0
            m1 = sum((a * frac(b) for a, b in zip(wq1, x1)), Fraction(0)) / tw1
            if abs(m1 - m0) > Fraction(RTOL) * Fraction(scale):
                case.fail("impose/mean-changed", "factor %d: weighted mean %r -> %r" % (k, float(m0), float(m1)))
            case.nontrivial = True
    case.tag("impose:tracking" if tr_seq else "impose:no-tracking")
    case.tag("impose:noweight" if nw_seq else "impose:no-noweight")
    if tr_items[1] or nw_items[1]:
        case.tag("impose:tuple-of-dicts")
    if any(c > 1 for c in list(tr_count.values()) + list(nw_count.values())):
        case.tag("impose:factor-addressed-twice")
    if len(x) > L:
        case.tag("impose:surplus-parameters")
    if any(n == 1 for n in npts):
        case.tag("impose:size-1-factor")
    case.tag("regime:exact" if exact else "regime:general")
    return case


def gen_impose_items(rng, sizes, ptr=0.5, pnw=0.5):
    tracking = []; noweight = []
    for k, n in enumerate(sizes):
        if n >= 2 and rng.random() < ptr:
            # order-independent pair sets only: a star (i,j1),(i,j2).. or disjoint pairs
            idx = list(range(n)); rng.shuffle(idx)
            if rng.random() < 0.5 or n < 4:
                i = idx[0]; js = idx[1:1 + rng.randint(1, min(2, n - 1))]
                pairs = [[i, j] for j in js]
            else:
                pairs = [[idx[0], idx[1]], [idx[2], idx[3]]]
            pairs = [[(a - n if rng.random() < 0.15 else a), (b - n if rng.random() < 0.15 else b)] for a, b in pairs]
            tracking.append([k, pairs])
        if rng.random() < pnw:
            cnt = rng.randint(1, max(n - 1, 1)) if rng.random() < 0.9 else n
            idx = rng.sample(range(n), min(cnt, n))
            idx = [(a - n if rng.random() < 0.15 else a) for a in idx]
            if rng.random() < 0.1:
                idx.append(rng.choice([n, n + 2, -n - 1]))        # out of range: selects nothing
            noweight.append([k, idx])
    rng.shuffle(tracking); rng.shuffle(noweight)                  # dict insertion order is not the factor order
    return tracking, noweight


def gen_impose(rng):
    exact = rng.random() < 0.5
    sizes = [rng.choice([1, 2, 3, 3, 4, 5]) for _ in range(rng.choice([1, 2, 2, 3, 4]))]
    x = []
    for n in sizes:
        m = gen_measure(rng, n, exact, positive=rng.random() < 0.8)
        if rng.random() < 0.1 and n >= 2:          # all the weight on one point: the "avoid null weights" rule can fire
            m[0] = [0.0] * n; m[0][rng.randrange(n)] = 1.0 if exact else 0.25 + rng.random()
        x += m[0] + m[1]
    tracking, noweight = gen_impose_items(rng, sizes)
    spec = {"kind": "impose", "exact": exact, "npts": sizes, "x": x, "tracking": tracking, "noweight": noweight}
    if rng.random() < 0.2:                         # a tuple of two dicts: factors can be addressed twice
        t2, n2 = gen_impose_items(rng, sizes, 0.3, 0.3)
        spec["tracking2"] = t2; spec["noweight2"] = n2
    if rng.random() < 0.15:                        # surplus parameters ("Y-values") are dropped
        spec["x"] = x + [gen_pos(rng, exact) for _ in range(rng.randint(1, 3))]
    return spec


# ------------------------------------------------------------------ kind: stats2 (maximum/minimum/ptp/ess_*, measure-level
# expect/support, product center_mass getter+setter, measure.normalize)
def opt_tok(r):
    """('ok', v) | ('err', enum)  ->  what the model prints: value | none"""
    return r


def cmp_opt(d, name, tok, res, exact_needed, case, scale=1.0, none_enum="value"):
    """compare one optional float of the model's reply with the implementation's call result"""
    if res[0] == "err":
        if not (tok == "none" and res[1] == none_enum):
            d.append("%s impl raised %s model %s" % (name, res[1], tok))
        return
    if tok == "none":
        d.append("%s model none impl %r" % (name, res[1])); return
    mv = common.b2f(tok)
    if same_float(mv, res[1]):
        return
    if exact_needed:
        d.append("%s (exact) model %r impl %r" % (name, mv, res[1]))
    elif close(mv, res[1], scale):
        case.tol_used += 1
    else:
        d.append("%s model %r impl %r" % (name, mv, res[1]))


def case_stats2(spec):
    case = Case(spec)
    ms = spec["pm"]; exact = spec["exact"]; e = spec["f"]; tol = spec["tol"]; vs = spec["vs"]
    f = lambda v: dsl.ev(e, v)
    names = ("max", "min", "ptp", "essmax", "essmin", "essptp")
    allx = [x for m in ms for x in m[1]]
    yscale = max([1.0] + [abs(f((x,))) for x in allx]) ** 2
    # ---- every factor on its own
    per = []
    for i, m in enumerate(ms):
        M = build_measure(m)
        g = {"max": call(lambda: float(M.maximum(f))), "min": call(lambda: float(M.minimum(f))),
             "ptp": call(lambda: float(M.ptp(f))), "essmax": call(lambda: float(M.ess_maximum(f, tol))),
             "essmin": call(lambda: float(M.ess_minimum(f, tol))), "essptp": call(lambda: float(M.ess_ptp(f, tol))),
             "expect": call(lambda: float(M.expect(f))), "expectvar": call(lambda: float(M.expect_var(f))),
             "support": call(lambda: [float(v) for v in M.support(tol)]),
             "sindex": call(lambda: [int(v) for v in M.support_index(tol)])}
        per.append(g)

        def cmpm(r, g=g):
            if r[0] != "ok":
                return "model %r" % (r,)
            kv = r[1]; d = []
            for k in names:
                cmp_opt(d, k, kv[k], g[k], True, case)
            cmp_opt(d, "expect", kv["expect"], g["expect"], exact, case, math.sqrt(yscale))
            cmp_opt(d, "expectvar", kv["expectvar"], g["expectvar"], False, case, yscale)
            if g["support"][0] != "ok" or kv["support"] == "none" or not same_vec(floats_of(kv["support"]), g["support"][1]):
                d.append("support model %r impl %r" % (kv["support"], g["support"]))
            if g["sindex"][0] != "ok" or [int(t) for t in kv["sindex"]] != g["sindex"][1]:
                d.append("support_index model %r impl %r" % (kv["sindex"], g["sindex"]))
            return "; ".join(d) if d else None
        case.ask("mstats2 (m %s) (f %s) (tol %s)" % (m_sexp(m), dsl.expr_sexp(e), f2b(tol)), "measure statistics", g, cmpm)
        # monitor: the definitions, on this factor
        ys = [f((x,)) for x in m[1]]
        sup = [j for j, w in enumerate(m[0]) if w > tol]
        ysup = [ys[j] for j in sup]

        def chk(name, got, vals, fn):
            if not vals:
                if got[0] != "err":
                    case.fail("stats2/%s-should-raise" % name, "measure.%s returned %r on an empty (support of a) measure %r" % (name, got, m))
                return
            want = fn(vals)
            if got[0] != "ok" or not same_float(got[1], want):
                case.fail("stats2/measure-%s" % name, "measure.%s = %r, expected %r over f-values %r (measure %r, tol %r)" % (name, got, want, vals, m, tol))
        chk("maximum", g["max"], ys, max); chk("minimum", g["min"], ys, min)
        chk("ptp", g["ptp"], ys, lambda v: max(v) - min(v))
        chk("ess_maximum", g["essmax"], ysup, max); chk("ess_minimum", g["essmin"], ysup, min)
        chk("ess_ptp", g["essptp"], ysup, lambda v: max(v) - min(v))
        if g["support"] != ("ok", [m[1][j] for j in sup]) or g["sindex"] != ("ok", sup):
            if not (g["support"][0] == "ok" and same_vec(g["support"][1], [m[1][j] for j in sup]) and g["sindex"] == ("ok", sup)):
                case.fail("stats2/measure-support", "measure.support(%r)/support_index = %r / %r, expected indices %r" % (tol, g["support"], g["sindex"], sup))
        wq = [frac(w) for w in m[0]]; sw = sum(wq, Fraction(0))
        if m[0] and sw != 0 and all(w >= 0 for w in m[0]):
            yq = [frac(y) for y in ys]
            E = sum((a * b for a, b in zip(wq, yq)), Fraction(0)) / sw
            V = sum((a * (b - E) ** 2 for a, b in zip(wq, yq)), Fraction(0)) / sw
            if g["expect"][0] != "ok" or not ((exact and same_float(g["expect"][1], float(E))) or near_frac(g["expect"][1], E, math.sqrt(yscale))
                                                or (exact and g["expect"][1] == 0.0 and E == 0)):
                case.fail("stats2/measure-expect", "measure.expect(f) = %r but sum(w*f)/sum(w) = %r (%r)" % (g["expect"], float(E), m))
            if g["expectvar"][0] != "ok" or not near_frac(g["expectvar"][1], V, yscale):
                case.fail("stats2/measure-expect_var", "measure.expect_var(f) = %r but the weighted variance is %r (%r)" % (g["expectvar"], float(V), m))
    # ---- the product measure: max / min over the factors' own statistics
    c = build_pm(ms)
    before = obs_pm(c)
    G = {"max": call(lambda: float(c.maximum(f))), "min": call(lambda: float(c.minimum(f))), "ptp": call(lambda: float(c.ptp(f))),
         "essmax": call(lambda: float(c.ess_maximum(f, tol))), "essmin": call(lambda: float(c.ess_minimum(f, tol))),
         "essptp": call(lambda: float(c.ess_ptp(f, tol))), "cm": call(lambda: [float(v) for v in c.center_mass])}
    xscale = max([1.0] + [abs(x) for x in allx])

    def cmpp(r):
        if r[0] != "ok":
            return "model %r" % (r,)
        kv = r[1]; d = []
        for k in names:
            cmp_opt(d, k, kv[k], G[k], True, case)
        if G["cm"][0] != "ok":
            d.append("center_mass impl raised %s" % G["cm"][1])
        else:
            mm = floats_of(kv["cm"])
            if not same_vec(mm, G["cm"][1]):
                if exact or len(mm) != len(G["cm"][1]) or not all(close(a, b, xscale) for a, b in zip(mm, G["cm"][1])):
                    d.append("center_mass model %r impl %r" % (mm, G["cm"][1]))
                else:
                    case.tol_used += 1
        return "; ".join(d) if d else None
    case.ask("pmstats2 (c %s) (f %s) (tol %s)" % (pm_sexp(ms), dsl.expr_sexp(e), f2b(tol)), "product statistics", G, cmpp)
    for k, agg in (("max", max), ("min", min), ("ptp", max), ("essmax", max), ("essmin", min), ("essptp", max)):
        parts = [g[k] for g in per]
        if not parts or any(p_[0] != "ok" for p_ in parts):
            if G[k][0] != "err":
                case.fail("stats2/product-%s-should-raise" % k, "product_measure.%s returned %r although %s" % (k, G[k], "there is no factor" if not parts else "a factor's own statistic raises"))
        else:
            want = agg([p_[1] for p_ in parts])
            if G[k][0] != "ok" or not same_float(G[k][1], want):
                case.fail("stats2/product-%s" % k, "product_measure.%s = %r, expected %r from the factors' %r" % (k, G[k], want, [p_[1] for p_ in parts]))
    if ms and all(m[1] for m in ms):
        # the documented meaning: extreme value of f over ALL positions of ALL factors
        ally = [f((x,)) for x in allx]
        if G["max"] != ("ok", max(ally)) and not (G["max"][0] == "ok" and same_float(G["max"][1], max(ally))):
            case.fail("stats2/product-maximum-all", "maximum(f) = %r, the greatest f over all factor positions is %r" % (G["max"], max(ally)))
        if not (G["min"][0] == "ok" and same_float(G["min"][1], min(ally))):
            case.fail("stats2/product-minimum-all", "minimum(f) = %r, the least f over all factor positions is %r" % (G["min"], min(ally)))
        case.nontrivial = len(ms) >= 2
    if not same_pm(obs_pm(c), before):
        case.fail("aliasing/readonly-op-mutates", "maximum/minimum/ptp/ess_* changed the measure: %r -> %r" % (before, obs_pm(c)))
    # ---- center_mass setter of the product measure
    c2 = build_pm(ms)
    def setcm():
        c2.center_mass = list(vs)
        return obs_pm(c2)
    r = call(setcm)

    def cmpc(rep):
        if r[0] == "err":
            return None if (rep[0] == "err" and rep[1] == r[1]) else "impl raised %s, model %r" % (r[1], rep)
        if rep[0] != "ok":
            return "impl returned, model %r" % (rep,)
        got = pm_of_reply(rep[1]["c"])
        if same_pm(got, r[1]):
            return None
        if exact:
            return "measure (exactness regime) model %r impl %r" % (got, r[1])
        sc = max([xscale] + [abs(v) for v in vs])
        if len(got) == len(r[1]) and all(same_vec(a[0], b[0]) and len(a[1]) == len(b[1]) and all(close(p, q, sc) or (p != p and q != q) for p, q in zip(a[1], b[1])) for a, b in zip(got, r[1])):
            case.tol_used += 1
            return None
        return "measure model %r impl %r" % (got, r[1])
    case.ask("setcm (c %s) (v %s)" % (pm_sexp(ms), fl(vs)), "center_mass setter", r, cmpc)
    if len(vs) < len(ms):
        if r[0] != "err":
            case.fail("stats2/center_mass-short-should-raise", "center_mass = %r on %d factors returned %r" % (vs, len(ms), r))
        case.tag("stats2:center_mass-short")
    elif r[0] != "ok":
        case.fail("stats2/center_mass-raises", "center_mass = %r raised %s" % (vs, r[1]))
    else:
        for i, (m, m2) in enumerate(zip(ms, r[1])):
            if not same_vec(m2[0], m[0]):
                case.fail("stats2/center_mass-changes-weights", "factor %d: weights %r -> %r" % (i, m[0], m2[0]))
            wq = [frac(w) for w in m[0]]; sw = sum(wq, Fraction(0))
            if m[0] and sw > 0 and all(w >= 0 for w in m[0]) and all(math.isfinite(t) for t in m2[1]):
                got = sum((a * frac(b) for a, b in zip(wq, m2[1])), Fraction(0)) / sw
                if abs(got - frac(vs[i])) > Fraction(RTOL) * Fraction(max(xscale, abs(vs[i]))):
                    case.fail("stats2/center_mass-not-achieved", "factor %d: center_mass = %r gives weighted mean %r" % (i, vs[i], float(got)))
        case.tag("stats2:center_mass-set")
    # ---- measure.normalize()
    if ms:
        m = ms[spec["norm_i"] % len(ms)]
        M = build_measure(m)
        def norm():
            M.normalize()
            return obs_m(M)
        rn = call(norm)

        def cmpn(rep):
            if rn[0] == "err":
                return None if (rep[0] == "err" and rep[1] == rn[1]) else "impl raised %s, model %r" % (rn[1], rep)
            if rep[0] != "ok":
                return "impl returned, model %r" % (rep,)
            gm = [floats_of(rep[1]["m"][0]), floats_of(rep[1]["m"][1])]
            if same_vec(gm[0], rn[1][0]) and same_vec(gm[1], rn[1][1]):
                return None
            ok = len(gm[0]) == len(rn[1][0]) and all(close(a, b) or (a != a and b != b) for a, b in zip(gm[0], rn[1][0])) and \
                all(close(a, b, xscale) or (a != a and b != b) for a, b in zip(gm[1], rn[1][1]))
            if ok:
                case.tol_used += 1
                return None
            return "normalize model %r impl %r" % (gm, rn[1])
        case.ask("normalize (m %s)" % m_sexp(m), "measure.normalize", rn, cmpn)
        sw = sum((frac(w) for w in m[0]), Fraction(0))
        if rn[0] != "ok":
            case.fail("stats2/normalize-raises", "normalize raised %s on %r" % (rn[1], m))
        elif m[0] and sw > 0 and all(w >= 0 for w in m[0]):
            w1, x1 = rn[1]
            t1 = sum((frac(w) for w in w1), Fraction(0))
            if len(w1) != len(m[0]) or abs(t1 - 1) > Fraction(RTOL):
                case.fail("stats2/normalize-mass", "after normalize() the weights %r sum to %r" % (w1, float(t1)))
            else:
                m0 = sum((frac(a) * frac(b) for a, b in zip(m[0], m[1])), Fraction(0)) / sw
                m1 = sum((frac(a) * frac(b) for a, b in zip(w1, x1)), Fraction(0)) / t1
                if abs(m1 - m0) > Fraction(RTOL) * Fraction(xscale):
                    case.fail("stats2/normalize-mean", "normalize() moved the centre of mass %r -> %r" % (float(m0), float(m1)))
            case.tag("stats2:normalize")
    case.tag("shape:%d-factors" % len(ms))
    if any(not m[0] for m in ms):
        case.tag("stats2:empty-factor")
    if any(m[0] and not any(w > tol for w in m[0]) for m in ms):
        case.tag("stats2:factor-without-support")
    case.tag("regime:exact" if exact else "regime:general")
    return case


def gen_stats2(rng):
    exact = rng.random() < 0.5
    sizes = gen_shape(rng)
    neg = (not exact) and rng.random() < 0.08
    ms = gen_pm(rng, sizes, exact, neg)
    if sizes and rng.random() < 0.1:            # a factor without support
        i = rng.randrange(len(sizes))
        ms[i][0] = [0.0] * len(ms[i][0])
    e = gen_f(rng, 1, exact)
    if rng.random() < 0.2 and any(m[1] for m in ms):      # exact ties of f between two positions
        e = ("abs", ("-", ("x", 0), ("c", rng.choice([x for m in ms for x in m[1]]))))
    k = rng.random()
    allw = [w for m in ms for w in m[0]]
    tol = 0.0 if k < 0.5 or not allw else (rng.choice(allw) if k < 0.85 else rng.choice([0.125, 0.25, 0.5]))
    nv = len(sizes) + rng.choice([0, 0, 0, 1, -1, 2])
    vs = [gen_pos(rng, exact) for _ in range(max(nv, 0))]
    return {"kind": "stats2", "exact": exact, "pm": ms, "f": e, "tol": tol, "vs": vs, "norm_i": rng.randrange(8)}


# ------------------------------------------------------------------ kind: values (scenario pof_value / mean_value / set_mean_value)
def case_values(spec):
    case = Case(spec)
    ms = spec["pm"]; vals = spec["values"]; exact = spec["exact"]; e = spec["f"]; target = spec["m"]
    fv = lambda y: dsl.ev(e, [y])
    s = build_scen(ms, vals)
    before = obs_pm(s)
    W = [float(v) for v in s.weights]
    g = {"pofv": call(lambda: float(s.pof_value(fv))), "meanv": call(lambda: float(s.mean_value()))}
    s2 = build_scen(ms, vals)
    def setm():
        s2.set_mean_value(target)
        return [float(v) for v in s2.values]
    g["setmean"] = call(setm)
    vscale = max([1.0] + [abs(v) for v in vals] + [abs(target)])

    def cmp(r):
        if r[0] != "ok":
            return "model %r" % (r,)
        kv = r[1]; d = []
        cmp_opt(d, "pof_value", kv["pofv"], g["pofv"], exact, case)
        cmp_opt(d, "mean_value", kv["meanv"], g["meanv"], exact, case, vscale)
        if g["setmean"][0] != "ok":
            d.append("set_mean_value impl raised %s" % g["setmean"][1])
        else:
            mv = floats_of(kv["setmean"])
            if not same_vec(mv, g["setmean"][1]):
                if exact or len(mv) != len(g["setmean"][1]) or not all(close(a, b, vscale) or (a != a and b != b) for a, b in zip(mv, g["setmean"][1])):
                    d.append("set_mean_value model %r impl %r" % (mv, g["setmean"][1]))
                else:
                    case.tol_used += 1
        return "; ".join(d) if d else None
    case.ask("vstats (c %s) (values %s) (f %s) (m %s)" % (pm_sexp(ms), fl(vals), dsl.expr_sexp(e), f2b(target)),
             "scenario value statistics", g, cmp)
    for k in g:
        if g[k][0] != "ok":
            case.fail("values/raises/" + k, "%s raised %s (values %r, weights %r)" % (k, g[k][1], vals, W))
    wq = [frac(w) for w in W]
    # pof_value: the weight of {f(value) <= 0} over zip(values, weights)
    if g["pofv"][0] == "ok":
        F = sum((a for a, y in zip(wq, vals) if fv(y) <= 0.0), Fraction(0))
        if not ((exact and same_float(g["pofv"][1], float(F))) or (not exact and near_frac(g["pofv"][1], F))):
            case.fail("values/pof_value", "pof_value(f) = %r but the weight of {f(value) <= 0} is %r" % (g["pofv"][1], float(F)))
        if any(fv(y) == 0.0 and w != 0.0 for y, w in zip(vals, W)):
            case.tag("values:pof-tie-at-zero")
    sw = sum(wq, Fraction(0))
    if len(vals) == len(W) and W and sw > 0 and all(w >= 0 for w in W):
        mq = sum((a * frac(b) for a, b in zip(wq, vals)), Fraction(0)) / sw
        if g["meanv"][0] == "ok" and not ((exact and same_float(g["meanv"][1], float(mq))) or near_frac(g["meanv"][1], mq, vscale)
                                          or (exact and g["meanv"][1] == 0.0 and mq == 0)):
            case.fail("values/mean_value", "mean_value() = %r but sum(w*v)/sum(w) = %r" % (g["meanv"][1], float(mq)))
        if g["setmean"][0] == "ok":
            nv = g["setmean"][1]
            if len(nv) != len(vals):
                case.fail("values/set_mean_value-count", "set_mean_value changed the number of values %d -> %d" % (len(vals), len(nv)))
            elif all(math.isfinite(v) for v in nv):
                got = sum((a * frac(b) for a, b in zip(wq, nv)), Fraction(0)) / sw
                if abs(got - frac(target)) > Fraction(RTOL) * Fraction(vscale):
                    case.fail("values/set_mean_value-not-achieved", "set_mean_value(%r) gives weighted mean %r" % (target, float(got)))
                # a pure shift: differences between values are kept
                if len(vals) >= 2 and abs((frac(nv[0]) - frac(nv[-1])) - (frac(vals[0]) - frac(vals[-1]))) > Fraction(RTOL) * Fraction(vscale):
                    case.fail("values/set_mean_value-not-a-shift", "set_mean_value changed value differences: %r -> %r" % (vals, nv))
        case.nontrivial = len(vals) >= 2
        case.tag("values:one-per-point")
    else:
        case.tag("values:length-mismatch-or-degenerate")
    if not same_pm(obs_pm(s2), before) or not same_pm(obs_pm(s), before):
        case.fail("values/set_mean_value-changes-measures", "value statistics changed the measures: %r -> %r" % (before, obs_pm(s2)))
    if not same_vec([float(v) for v in s.values], vals):
        case.fail("aliasing/readonly-op-mutates", "pof_value/mean_value changed the values")
    case.tag("regime:exact" if exact else "regime:general")
    return case


def gen_values(rng):
    exact = rng.random() < 0.5
    sizes = gen_shape(rng, allow_zero=rng.random() < 0.3)
    ms = gen_pm(rng, sizes, exact)
    total = 1
    for s in sizes:
        total *= s
    k = rng.random()
    nv = total if k < 0.75 else max(0, total + rng.choice([-1, 1, 2, -2]))
    vals = [gen_pos(rng, exact) for _ in range(nv)]
    e = gen_f(rng, 1, exact)
    if vals and rng.random() < 0.35:
        e = ("-", ("x", 0), ("c", rng.choice(vals)))          # exact zero of f at one of the values (`<=` tie)
        if rng.random() < 0.3:
            e = ("neg", e)
    return {"kind": "values", "exact": exact, "pm": ms, "values": vals, "f": e, "m": gen_pos(rng, exact)}


def case_heap(spec):
    return c19_heap.build_case(spec, Case)


KINDS = {"heap": (c19_heap.gen_heap, case_heap), "roundtrip": (gen_roundtrip, case_roundtrip), "update": (gen_update, case_update),
         "scenario": (gen_scenario, case_scenario), "helpers": (gen_helpers, case_helpers),
         "measure": (gen_measure_case, case_measure), "impose": (gen_impose, case_impose),
         "stats2": (gen_stats2, case_stats2), "values": (gen_values, case_values)}


def all_shapes(tier):
    """every shape with <= 3 factors of 1..4 points + the small shapes with empty factors (quick) /
    <= 4 factors of 0..5 points (thorough)"""
    import itertools
    maxf, sizes = (3, [1, 2, 3, 4]) if tier == "quick" else (4, [0, 1, 2, 3, 4, 5])
    out = []
    for nf in range(maxf + 1):
        out.extend(list(t) for t in itertools.product(sizes, repeat=nf))
    if tier == "quick":      # shapes with empty factors: every one with <= 2 factors of 0..3 points, and a few longer ones
        for nf in (1, 2):
            out.extend(list(t) for t in itertools.product([0, 1, 2, 3], repeat=nf) if 0 in t)
        out.extend([[0, 2, 1], [2, 0, 1], [2, 1, 0], [0, 0, 2], [1, 0, 0, 3]])
    return out


def shape_spec(sizes):
    """deterministic round-trip case for one shape: distinct positions, weights with a zero in every factor of >= 2 points"""
    ms = []
    for i, n in enumerate(sizes):
        ws = [0.0 if (j == 1 and n >= 2) else (1 + ((i * 7 + j * 3) % 5)) / 4.0 for j in range(n)]
        xs = [10.0 * i + j + 0.5 for j in range(n)]
        ms.append([ws, xs])
    f = ("sum",) + tuple(("x", i) for i in range(len(sizes))) if sizes else ("c", 1.0)
    f = ("-", f, ("c", sum(10.0 * i + 0.5 for i in range(len(sizes))) + 1.0)) if sizes else f
    return {"kind": "roundtrip", "exact": True, "pm": ms, "f": f, "tol": 0.0, "extra": [], "enumerated": True}


def gen_spec(rng):
    kinds = ["roundtrip"] * 5 + ["update"] * 3 + ["scenario"] * 2 + ["helpers"] * 3 + ["measure"] * 3
    kinds += ["impose"] * 3 + ["stats2"] * 3 + ["values"] * 2 + ["heap"] * 4
    kind = rng.choice(kinds)
    return KINDS[kind][0](rng)


def run_spec(spec):
    return KINDS[spec["kind"]][1](spec)


def judge(case, replies):
    """-> findings, after the model's replies are in"""
    out = []
    cdesc = {"spec": case.spec, "requests": case.lines, "model": replies,
             "impl": [c[1] for c in case.cmps]}
    for (name, impl, cmp), line, rep in zip(case.cmps, case.lines, replies):
        r = parse_reply(rep)
        if r[0] == "bad-op":
            out.append(Finding("correspondence", "%s/model-bad-op" % case.spec["kind"], "model rejected %r" % (line,), cdesc))
            continue
        d = cmp(r)
        if d:
            out.append(Finding("correspondence", "%s/%s" % (case.spec["kind"], name), "%s: %s" % (name, d), cdesc))
    for key, what in case.mon:
        out.append(Finding("monitor", key, what, cdesc))
    return out, cdesc


def drive(lines):
    """mvdrv can vanish for a moment while another builder re-links it: retry before giving up"""
    last = None
    for _ in range(8):
        try:
            return leandrv.run_driver(lines)
        except (FileNotFoundError, PermissionError, OSError, leandrv.DriverError) as e:
            last = e
            time.sleep(3.0)
    raise last


# ------------------------------------------------------------------ shard
def run_shard(pid, seed, shard, ncases, tier, extra):
    common.import_mystic()
    cases = []; lines = []; findings = []; hist = {}
    nsh = (extra or {}).get("nshards", 1)
    enumerated = [shape_spec(t) for t in all_shapes(tier)[shard::nsh]]
    hist["enumerated-shapes"] = len(enumerated)
    for k in range(len(enumerated) + ncases):
        if k < len(enumerated):
            spec = enumerated[k]
        else:
            rng = case_rng(PID, seed, shard, k - len(enumerated))
            spec = gen_spec(rng)
        try:
            case = run_spec(spec)
        except Exception as exc:      # the real code raised outside a guarded call: a failing input in itself
            import traceback
            findings.append(Finding("monitor", "%s/raises" % spec["kind"], "%s case raised %r\n%s" % (spec["kind"], exc, traceback.format_exc()[-800:]), {"spec": spec}))
            continue
        cases.append((case, len(lines)))
        lines.extend(case.lines)
    replies = drive(lines)
    nontrivial = 0; samples = []; tol_used = 0
    for case, off in cases:
        fs, cdesc = judge(case, replies[off:off + len(case.lines)])
        findings.extend(fs)
        hist["kind:" + case.spec["kind"]] = hist.get("kind:" + case.spec["kind"], 0) + 1
        for t in set(case.tags):
            hist[t] = hist.get(t, 0) + 1
        tol_used += case.tol_used
        if case.nontrivial:
            nontrivial += 1
            if len(samples) < 2 and case.spec["kind"] in ("roundtrip", "update") and len(json.dumps(common.jsonable(cdesc))) < 6000:
                samples.append(cdesc)
    hist["compared-with-tolerance"] = tol_used
    return {"evaluations": len(cases), "nontrivial": nontrivial, "model_lines": len(lines), "findings": findings,
            "samples": samples, "hist": hist}


def replay(path):
    """re-execute one stored case on the implementation and the model"""
    common.import_mystic()
    leandrv.ensure_driver()
    data = json.load(open(path))
    spec = data["case"].get("spec") if isinstance(data.get("case"), dict) else None
    if spec is None:
        print("replay file has no case spec (proof/correspondence summary): re-run ./check C19")
        return 2
    case = run_spec(spec)
    replies = drive(case.lines)
    fs, _ = judge(case, replies)
    known = {e["class_key"] for e in framework.load_known(PID)}
    bad = [f for f in fs if not (f["kind"] == "monitor" and f["class_key"] in known)]
    for f in fs:
        print("%s [%s] %s" % (f["kind"], f["class_key"], f["what"][:400]))
    if bad:
        print("VIOLATION property=%s replay=%s" % (PID, path))
        return 1
    print("replayed: no divergence, property holds on this case")
    return 0


def main(tier, seed):
    t0 = time.time()
    proof = framework.proof_stage(PID, MODULE, THEOREMS, tier)
    nshards, per = (16, 500) if tier == "quick" else (64, 12000)
    run = framework.run_shards("c19", "run_shard", PID, seed, nshards, per, tier, extra={"nshards": nshards})

    def search_more():
        r = framework.run_shards("c19", "run_shard", PID, seed + 7919, 32, 600, tier, extra={"nshards": 32})
        return r["findings"]
    rule = ("cases: product measures with 0-4 factors of 0-5 points (unequal sizes, size 1, one or several empty factors in front / "
            "in the middle / at the end), weights incl. zeros (a few negative), duplicate positions; exactness regime (small dyadics) "
            "and general floats; streams: roundtrip (flatten/load/unflatten/compose/decompose/pack/unpack/positions setter + "
            "weights/positions/npts/mass/expect/expect_var/pof/support with DSL test functions incl. exact zeros and support tolerances "
            "equal to a weight), update (product_measure and scenario; EVERY parameter length: exact, surplus, a prefix of the values, "
            "prefixes ending at / inside a weights or positions block; shapes with empty factors), scenario (constructor, flatten all/"
            "not all, load), helpers (malformed shapes: _nested/_nested_split/unflatten/compose/_unpack error enum), measure "
            "(center_mass/range/var getters and setters), impose (constraints.impose_measure: one dict or a tuple of two dicts, star / "
            "disjoint pair sets, negative and out-of-range indices, size-1 factors, all the weight on one point, surplus parameters), "
            "stats2 (measure and product_measure maximum/minimum/ptp/ess_* with ties and factors without support, measure expect/"
            "expect_var/support/support_index, product center_mass getter and setter incl. too short a list, measure.normalize), values "
            "(scenario pof_value with exact zeros, mean_value, set_mean_value; value lists shorter/longer than the product), heap (object "
            "graphs with SHARED objects: the same measure object used for several factors, several collections over the same factor "
            "objects (product_measure(c), c[:], copy.copy(c)), measures sharing point masses (measure(m)), a point mass held twice; "
            "programs of 1-5 operations update / load (full, surplus, short parameters; product_measure and scenario) / flatten / "
            "shallow copies / scenario(c, values) / product_measure([..]) / measure(m) / measure and product setters (positions, weights, "
            "center_mass, range, var, normalize; too long / too short lists), ALL collections and named measures observed after "
            "every operation). non-trivial "
            "= the clause under test is exercised: >= 2 factors and >= 2 points (roundtrip), at least one factor addressed (update), "
            "values present (scenario), ill-fitting input (helpers), non-degenerate setter (measure), a non-degenerate addressed factor "
            "(impose), >= 2 factors (stats2), >= 2 values on a non-degenerate product (values), sharing present and a mutating "
            "operation run (heap)")
    tb = ["Lean 4.33 kernel; axioms per theorem listed under coverage.theorems",
          "hand-written model Model/Discrete.lean tied to mystic.math.discrete / measures by this differential run only",
          "object identity: Model/DiscreteHeap.lean addresses python objects by index (cells / measure objects / collection "
          "objects); the monitor of the heap stream decides what is shared with python's id(), not with the model",
          "sum-like statistics (mass, center_mass, expect, pof) are compared bit-exactly in the exactness regime and with rel 1e-9 "
          "otherwise (python's compensated sum / numpy reductions are not replicated); expect_var, var and the range/var setters "
          "always with rel 1e-9 when not bit-identical (count in histogram 'compared-with-tolerance')",
          "DSL twins harness/dsl.py and Model/Dsl.lean for the test functions",
          "the monitor's reference values are exact rationals (python fractions)"]
    assumptions = ["positions of a product measure are scalars (floats); weights and positions finite",
                   "test functions are deterministic and total (no division)",
                   "IEEE binary64 + - * / sqrt and comparisons agree between Lean Float and CPython/numpy",
                   "field theorems (expect/expect_var/mass/setters) are about an ordered field, not about rounding"]
    extra_cov = {"exhaustive_subenumeration": "round-trip/product-structure clauses on EVERY shape with %s (%d shapes, deterministic payloads)"
                 % ("<= 3 factors of 1..4 points, plus every shape with an empty factor and <= 2 factors of 0..3 points" if tier == "quick"
                    else "<= 4 factors of 0..5 points", len(all_shapes(tier)))}
    return framework.finish(PID, tier, seed, t0, proof, run, rule, tb, assumptions, extra_cov=extra_cov, search_more=search_more)
